#!/bin/bash
# tools/mutant.sh <patch.diff> <Cnn> [quick|thorough]
# Applies the patch to a scratch worktree of /repo (never to /repo itself), runs the check in
# mutant mode, then resets the worktree. Prints DETECTED / MISSED.
# Up to 4 runs proceed in parallel, each in its own slot (worktree + target directory).
set -u
patch=$(readlink -f "$1"); shift
id="$1"; shift
tier="${1:-quick}"
mkdir -p /verif/target-mut
slot=""
for attempt in $(seq 1 100000); do
  for s in 0 1 2 3; do
    exec 9>/verif/target-mut/.lock.$s
    if flock -n 9; then slot=$s; break 2; fi
  done
  sleep 5
done
[ -n "$slot" ] || { echo "could not get a mutant slot"; exit 2; }
WT=/tmp/jjmut.$slot
export JJMC_SLOT=$slot
out=/verif/target-mut/last.$id.$slot.out
if [ ! -d "$WT" ]; then
  git -C /repo worktree add --detach "$WT" HEAD >/dev/null 2>&1 || exit 2
fi
# seed a new slot's target directory from the main one (saves a full rebuild)
if [ ! -d /verif/target-mut/target.$slot ] && [ -d /verif/target/verif ]; then
  mkdir -p /verif/target-mut/target.$slot
  cp -a /verif/target/verif /verif/target-mut/target.$slot/ 2>/dev/null
fi
git -C "$WT" checkout -q --detach "$(git -C /repo rev-parse HEAD)" && git -C "$WT" reset -q --hard && git -C "$WT" clean -qfd
if ! git -C "$WT" apply "$patch"; then echo "PATCH-DOES-NOT-APPLY $patch"; exit 2; fi
JJMC_REPO="$WT" /verif/check "$id" "$tier" > "$out" 2>&1
rc=$?
git -C "$WT" reset -q --hard
tail -8 "$out"
if [ $rc -eq 1 ] && grep -q "^VIOLATION property=$id" "$out"; then echo "DETECTED $id $(basename "$patch")"; exit 0; fi
if [ $rc -eq 0 ]; then echo "MISSED $id $(basename "$patch")"; exit 1; fi
echo "MACHINERY rc=$rc"; exit 2

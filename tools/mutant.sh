#!/bin/bash
# tools/mutant.sh <patch.diff> <Cnn> [quick|thorough]...
# Applies the patch to a scratch worktree of /repo (never to /repo itself), runs the check in
# mutant mode, then resets the worktree. Prints DETECTED / MISSED.
set -u
patch=$(readlink -f "$1"); shift
id="$1"; shift
tier="${1:-quick}"
WT=/tmp/jjmut
mkdir -p /verif/target-mut
exec 9>/verif/target-mut/.lock
flock -w 7200 9 || { echo "could not get the mutant lock"; exit 2; }
out=/verif/target-mut/last.$id.out
if [ ! -d "$WT" ]; then
  git -C /repo worktree add --detach "$WT" HEAD >/dev/null 2>&1 || exit 2
fi
git -C "$WT" checkout -q --detach "$(git -C /repo rev-parse HEAD)" && git -C "$WT" reset -q --hard && git -C "$WT" clean -qfd
if ! git -C "$WT" apply "$patch"; then echo "PATCH-DOES-NOT-APPLY $patch"; exit 2; fi
JJMC_REPO="$WT" /verif/check "$id" "$tier" > "$out" 2>&1
rc=$?
git -C "$WT" reset -q --hard
tail -8 "$out"
if [ $rc -eq 1 ] && grep -q "^VIOLATION property=$id" "$out"; then echo "DETECTED $id $(basename "$patch")"; exit 0; fi
if [ $rc -eq 0 ]; then echo "MISSED $id $(basename "$patch")"; exit 1; fi
echo "MACHINERY rc=$rc"; exit 2

#!/usr/bin/env python3
"""Generates /verif/MANIFEST.json from the table in tools/checks.d/CNN.json.

A property is listed under `checks` iff its binary source exists under mc/props/src/bin or
mc/cprops/src/bin AND it has an entry in tools/checks.d/CNN.json; everything else goes to
`not_applicable` with the reason recorded there (or "not built yet")."""
import json
import os
import subprocess

ROOT = "/verif"
props = [json.loads(l) for l in open(f"{ROOT}/properties.jsonl")]
import glob
table = {os.path.basename(f)[:-5]: json.load(open(f)) for f in sorted(glob.glob(f"{ROOT}/tools/checks.d/C*.json"))}


READY = set(open(f"{ROOT}/tools/ready.txt").read().split())


def has_bin(pid):
    if pid not in READY:
        return False
    b = pid.lower() + ".rs"
    return any(os.path.exists(f"{ROOT}/mc/{pkg}/src/bin/{b}") for pkg in ("props", "cprops"))


hooks_commits = subprocess.run(
    ["git", "-C", "/repo", "log", "--format=%H %s", "--grep=^verif:"],
    capture_output=True, text=True).stdout.strip().splitlines()

checks = []
na = []
for p in props:
    pid = p["id"]
    e = table.get(pid)
    if e and e.get("claimed", True) and has_bin(pid):
        checks.append({
            "property_id": pid,
            "quick_cmd": f"./check {pid} quick",
            "thorough_cmd": f"./check {pid} thorough",
            "evidence_file": f"/verif/evidence/{pid}.json",
            "replay_cmd_template": f"./check {pid} quick --replay {{path}}",
            "engine": e["engine"],
            "level_claimed": {
                "category": e["category"],
                "text": e["text"],
                "design_ref": f"DESIGN.md section 4, {pid}",
            },
            "level_note": e["note"],
            "technique": e["technique"],
        })
    else:
        reason = (e or {}).get("na_reason", "check not built yet (see DESIGN.md section 10 for the order of work)")
        na.append({"property_id": pid, "reason": reason})

manifest = {
    "version": 1,
    "setup_cmd": "./setup.sh",
    "hooks": {
        "guard": "cargo feature jj_vcs_jj_verif of jj-lib",
        "enable": "the harness workspace /verif/mc depends on jj-lib with features [git, testing, jj_vcs_jj_verif]; "
                  "/repo's own workspace never enables it",
        "baseline_off_cmd": "cd /repo && cargo nextest run --workspace --no-fail-fast --tool-config-file "
                            "pb:/w/lib/nextest.toml --profile pb --test-threads 8 --offline",
        "source_commits": [l.split()[0] for l in hooks_commits],
        "add_only": True,
    },
    "engines": [
        {"name": "enum", "path": "mc/common/src/enumerate.rs",
         "kind_free_text": "bounded-exhaustive input enumeration (odometers, set partitions, DAGs) over the real functions",
         "serves_properties": [c["property_id"] for c in checks if c["engine"] == "enum"]},
        {"name": "bfs", "path": "mc/common/src/bfs.rs",
         "kind_free_text": "explicit-state breadth-first search over operation histories; every transition executes the real jj code; states deduplicated on a canonical id-free key",
         "serves_properties": [c["property_id"] for c in checks if c["engine"] == "bfs"]},
        {"name": "sched", "path": "mc/common/src/sched.rs",
         "kind_free_text": "cooperative scheduler: stateless DFS over all interleavings of simulated processes at hook points, iterative preemption bounding, single-crash injection",
         "serves_properties": [c["property_id"] for c in checks if c["engine"] == "sched"]},
        {"name": "crash", "path": "mc/cprops/src/bin/c15.rs",
         "kind_free_text": "strace-based enumeration of every kill point (mutating syscall) of real jj commands",
         "serves_properties": [c["property_id"] for c in checks if c["engine"] == "crash"]},
    ],
    "checks": checks,
    "not_applicable": na,
    "notes": "All checks decide their property by exhaustive enumeration of a bounded space of behaviours of the "
             "real code (see DESIGN.md). Exit 0 held / 1 violation / 2 machinery failure (reported as such, "
             "never a verdict).",
}
json.dump(manifest, open(f"{ROOT}/MANIFEST.json", "w"), indent=1)
print(f"checks={len(checks)} not_applicable={len(na)}")
try:
    import jsonschema
    jsonschema.validate(manifest, json.load(open("/root/.vp/MANIFEST.schema.json")))
    print("MANIFEST.json validates")
except ImportError:
    print("jsonschema not available; not validated")

#!/bin/bash
# tools/verify_suite_batch.sh <seed-name>...
# Applies the source patches of several seeded changes (they touch different code) to one
# scratch worktree and runs jj's complete existing suite once. If the result equals the
# baseline (3164 passed, no stable test failing) every seed of the batch is marked
# "pass (batched with ...)"; otherwise the batch must be split and re-run.
set -u
WT=${SUITE_WT:-/tmp/seedverify}
export CARGO_TARGET_DIR=${SUITE_TARGET:-/tmp/seedverify-target}
export CARGO_NET_OFFLINE=true
mkdir -p /tmp/seedverify-logs
exec 8>${SUITE_LOCK:-/tmp/seedverify.lock}
flock -w 36000 8 || exit 2
if [ ! -d "$WT" ]; then git -C /repo worktree add --detach "$WT" HEAD >/dev/null 2>&1 || exit 2; fi
git -C "$WT" checkout -q --detach "$(git -C /repo rev-parse HEAD)" && git -C "$WT" reset -q --hard && git -C "$WT" clean -qfd
names="$*"
for n in "$@"; do
  git -C "$WT" apply "/verif/seeded/$n/patch.diff" || { echo "BATCH patch of $n does not apply together with the others"; exit 1; }
done
tag=$(echo "$names" | tr ' ' '+')
suite_log=/tmp/seedverify-logs/batch.$tag.suite.log
(cd "$WT" && timeout 14000 cargo nextest run --workspace --no-fail-fast --tool-config-file pb:/w/lib/nextest.toml --profile pb --test-threads 8 --offline) >"$suite_log" 2>&1
summary=$(grep -E "^ +Summary" "$suite_log" | tail -1)
grep "^        FAIL \[" "$suite_log" | awk '{print $6"::"$7}' | sort -u > /tmp/seedverify-logs/batch.$tag.failed
newfail=$(python3 - "$tag" <<'PY'
import json,ast,sys
d=json.load(open('/root/.vp/BASELINE.json'))
sp=d['stable_pass']; sp=set(ast.literal_eval(sp) if isinstance(sp,str) else sp)
now=set(l.strip() for l in open(f'/tmp/seedverify-logs/batch.{sys.argv[1]}.failed'))
print(",".join(sorted(now & sp)))
PY
)
git -C "$WT" reset -q --hard
if echo "$summary" | grep -q "3164 passed" && [ -z "$newfail" ]; then verdict="pass (batched: $names)"; else verdict="FAIL-IN-BATCH ($names): $summary new failures: $newfail"; fi
for n in "$@"; do
  python3 - "/verif/seeded/$n/verify.json" "$verdict" "$summary" <<'PY'
import json,sys
p=sys.argv[1]; d=json.load(open(p)); d["existing_suite_with_change"]=sys.argv[2]; d["suite_summary"]=sys.argv[3].strip(); json.dump(d,open(p,"w"),indent=1)
PY
done
echo "BATCH $names => $verdict"

#!/bin/bash
# tools/seed_setup.sh <Cnn> [tag]  -> creates /tmp/seed/<Cnn><tag>/{wt,out,PROMPT.md}
set -e
id="$1"; tag="${2:-}"
dir=/tmp/seed/$id$tag
mkdir -p "$dir/out"
if [ ! -d "$dir/wt" ]; then git -C /repo worktree add --detach "$dir/wt" HEAD >/dev/null 2>&1; fi
python3 - "$id" "$dir" <<'PY'
import json,sys
pid,d=sys.argv[1],sys.argv[2]
prop=[json.loads(l) for l in open('/verif/properties.jsonl') if json.loads(l)['id']==pid][0]
t=open('/verif/tools/seed_agent_prompt.md').read()
t=t.replace('__WT__',d+'/wt').replace('__DIR__',d).replace('__ID__',pid).replace('__PROPERTY__',json.dumps(prop,indent=1))
open(d+'/PROMPT.md','w').write(t)
PY
echo "$dir"

#!/bin/bash
# tools/verify_seed.sh <seed-dir-name e.g. C01>
# Confirms a seeded change delivered in /tmp/seed/<name>/out independently of its author:
#   1. demonstration passes on the unchanged tree, fails with the change;
#   2. the change compiles and jj's complete existing suite gives the baseline result;
#   3. runs our check(s) against the change (quick, then thorough if quick misses).
# Everything is built in a scratch worktree (/tmp/seedverify) that is never /repo.
# Result: /verif/seeded/<name>/{patch.diff,demo.diff,meta.json,verify.json}
set -u
name="$1"
pid="${name:0:3}"
src=/tmp/seed/$name/out
dst=/verif/seeded/$name
WT=/tmp/seedverify
export CARGO_TARGET_DIR=/tmp/seedverify-target
export CARGO_NET_OFFLINE=true
mkdir -p "$dst" /tmp/seedverify-logs
exec 8>/tmp/seedverify.lock
flock -w 36000 8 || exit 2
log=/tmp/seedverify-logs/$name.log
: > "$log"
[ -f "$src/patch.diff" ] && [ -f "$src/demo.diff" ] && [ -f "$src/meta.json" ] || { echo "missing deliverables in $src"; exit 2; }
cp "$src/patch.diff" "$src/demo.diff" "$src/meta.json" "$dst/"
if [ ! -d "$WT" ]; then git -C /repo worktree add --detach "$WT" HEAD >>"$log" 2>&1 || exit 2; fi
reset() { git -C "$WT" checkout -q --detach "$(git -C /repo rev-parse HEAD)" && git -C "$WT" reset -q --hard && git -C "$WT" clean -qfd; }
demo_cmd=$(python3 -c "import json;print(json.load(open('$src/meta.json'))['demo_test'])")
# strip any target-dir / cd the author may have put in
demo_cmd=$(echo "$demo_cmd" | sed -E 's/CARGO_TARGET_DIR=[^ ]+ //g; s/^cd [^;&]+(&&|;) *//')
run_demo() { (cd "$WT" && timeout 3000 bash -c "$demo_cmd -- --test-threads 4" ) >>"$log" 2>&1 || (cd "$WT" && timeout 3000 bash -c "$demo_cmd") >>"$log" 2>&1; }
verdict() { echo "$1" | tee -a "$log"; }

reset
git -C "$WT" apply "$src/demo.diff" >>"$log" 2>&1 || { verdict "RESULT demo.diff does not apply"; exit 1; }
echo "== demo on unchanged tree: $demo_cmd" >>"$log"
if run_demo; then demo_clean=pass; else demo_clean=fail; fi
git -C "$WT" apply "$src/patch.diff" >>"$log" 2>&1 || { verdict "RESULT patch.diff does not apply"; exit 1; }
echo "== demo with the change" >>"$log"
if run_demo; then demo_mut=pass; else demo_mut=fail; fi

# complete existing suite with the change only (SKIP_SUITE=1: done later, batched, by
# tools/verify_suite_batch.sh)
if [ "${SKIP_SUITE:-0}" = 1 ]; then
suite=pending; summary=""; newfail=""
else
reset
git -C "$WT" apply "$src/patch.diff" >>"$log" 2>&1
echo "== full suite with the change" >>"$log"
suite_log=/tmp/seedverify-logs/$name.suite.log
(cd "$WT" && timeout 7200 cargo nextest run --workspace --no-fail-fast --tool-config-file pb:/w/lib/nextest.toml --profile pb --test-threads 8 --offline) >"$suite_log" 2>&1
summary=$(grep -E "^ +Summary" "$suite_log" | tail -1)
grep "^        FAIL \[" "$suite_log" | awk '{print $6"::"$7}' | sort -u > /tmp/seedverify-logs/$name.failed
newfail=$(python3 - "$name" <<'PY'
import json,ast,sys
d=json.load(open('/root/.vp/BASELINE.json'))
sp=d['stable_pass']; sp=set(ast.literal_eval(sp) if isinstance(sp,str) else sp)
now=set(l.strip() for l in open(f'/tmp/seedverify-logs/{sys.argv[1]}.failed'))
print(",".join(sorted(now & sp)))
PY
)
if echo "$summary" | grep -q "3164 passed" && [ -z "$newfail" ]; then suite=pass; else suite=fail; fi
if ! grep -q "Summary" "$suite_log"; then suite=did-not-run; fi
reset
fi

# our checks
check_quick=skipped; check_thorough=skipped
if [ -f "/verif/mc/props/src/bin/$(echo $pid | tr A-Z a-z).rs" ] || [ -f "/verif/mc/cprops/src/bin/$(echo $pid | tr A-Z a-z).rs" ]; then
  if /verif/tools/mutant.sh "$src/patch.diff" "$pid" quick >>"$log" 2>&1; then check_quick=DETECTED; else
    check_quick=MISSED
    if /verif/tools/mutant.sh "$src/patch.diff" "$pid" thorough >>"$log" 2>&1; then check_thorough=DETECTED; else check_thorough=MISSED; fi
  fi
fi
python3 - "$dst/verify.json" <<PY
import json,sys
json.dump({"seed": "$name", "property": "$pid", "repo_head": "$(git -C /repo rev-parse --short HEAD)",
  "demo_on_unchanged_tree": "$demo_clean", "demo_with_change": "$demo_mut",
  "existing_suite_with_change": "$suite", "suite_summary": """$summary""".strip(), "stable_tests_now_failing": "$newfail",
  "check_quick": "$check_quick", "check_thorough": "$check_thorough"}, open(sys.argv[1],"w"), indent=1)
PY
verdict "RESULT $name demo_clean=$demo_clean demo_mut=$demo_mut suite=$suite quick=$check_quick thorough=$check_thorough"

#!/bin/bash
# Builds the whole harness (all check binaries + the jj CLI from /repo) offline.
set -e
cd "$(dirname "$0")"
export CARGO_NET_OFFLINE=true
export CARGO_TARGET_DIR="${VERIF_TARGET_DIR:-$(pwd)/target}"
cp /repo/Cargo.lock mc/Cargo.lock
cp /repo/Cargo.lock mc/Cargo.lock.src
cd mc
cargo build --offline --profile verif --workspace --bins

#!/bin/bash
# Builds the harness offline: the binaries of all registered checks (tools/ready.txt) and the
# jj CLI (`jjv`) from /repo's current sources.
set -e
cd "$(dirname "$0")"
export CARGO_NET_OFFLINE=true
export CARGO_TARGET_DIR="${VERIF_TARGET_DIR:-$(pwd)/target}"
cp /repo/Cargo.lock mc/Cargo.lock
cp /repo/Cargo.lock mc/Cargo.lock.src
props_bins=""
cprops_bins="--bin jjv"
for id in $(cat tools/ready.txt); do
  b=$(echo "$id" | tr 'A-Z' 'a-z')
  if [ -f "mc/cprops/src/bin/$b.rs" ]; then cprops_bins="$cprops_bins --bin $b"; else props_bins="$props_bins --bin $b"; fi
done
cd mc
cargo build --offline --profile verif -p props $props_bins
cargo build --offline --profile verif -p cprops $cprops_bins

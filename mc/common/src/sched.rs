//! Cooperative scheduler for exhaustive exploration of inter-process interleavings.
//!
//! Each simulated process is an OS thread. Exactly one thread runs at a time (it "holds
//! the baton"). The code under test calls `point()` (through the jj-lib hook adapter)
//! right before every step on shared on-disk state; there the thread parks and the
//! controller decides who runs next from a *choice sequence*. File locks are modelled at
//! scheduler level: `lock_acquire` parks the thread until the modelled lock is free, so the
//! real `flock` never blocks. A *crash* is one more kind of choice: the victim unwinds
//! (releasing its real flock like the kernel does at process death) and never runs again.
//!
//! Exploration (`explore`) is a stateless depth-first search over choice sequences with
//! iterative preemption bounding (CHESS): switching away from a thread that is still
//! enabled costs one preemption; executions always run to completion.
//!
//! Several executions may run concurrently in one harness process: the session is found
//! through a thread-local, not through a global.

use std::cell::RefCell;
use std::collections::BTreeMap;
use std::path::Path;
use std::path::PathBuf;
use std::sync::Arc;
use std::sync::Condvar;
use std::sync::Mutex;
use std::time::Duration;
use std::time::Instant;

use rayon::prelude::*;

#[derive(Clone, Debug, PartialEq, Eq)]
enum Status {
    /// Parked before the step `kind(detail)`; `wants_lock` is set for lock acquisitions.
    Parked {
        kind: String,
        detail: String,
        wants_lock: Option<PathBuf>,
    },
    Running,
    Done,
    Crashed,
    Panicked(String),
}

struct Inner {
    status: Vec<Status>,
    /// Thread currently holding the baton.
    running: Option<usize>,
    locks: BTreeMap<PathBuf, usize>,
    trace: Vec<Event>,
    /// set when a thread has been told to crash and is unwinding
    unwinding: Option<usize>,
}

#[derive(Clone, Debug, PartialEq, Eq, serde::Serialize, serde::Deserialize)]
pub struct Event {
    pub thread: usize,
    pub kind: String,
    pub detail: String,
}

pub struct Session {
    inner: Mutex<Inner>,
    cv: Condvar,
    ineffective_locks: bool,
}

struct CrashUnwind;

thread_local! {
    static CUR: RefCell<Option<(Arc<Session>, usize)>> = const { RefCell::new(None) };
}

fn current() -> Option<(Arc<Session>, usize)> {
    CUR.with(|c| c.borrow().clone())
}

const WATCHDOG: Duration = Duration::from_secs(60);

impl Session {
    fn park(self: &Arc<Self>, me: usize, kind: &str, detail: &str, wants_lock: Option<PathBuf>) {
        let mut g = self.inner.lock().unwrap();
        if matches!(g.status[me], Status::Crashed) {
            return; // unwinding after a crash: hooks are inert
        }
        g.status[me] = Status::Parked {
            kind: kind.to_string(),
            detail: detail.to_string(),
            wants_lock: wants_lock.clone(),
        };
        g.running = None;
        self.cv.notify_all();
        let deadline = Instant::now() + WATCHDOG;
        loop {
            if g.running == Some(me) {
                break;
            }
            let now = Instant::now();
            if now >= deadline {
                crate::machinery_failure("scheduler watchdog: worker never resumed");
            }
            g = self.cv.wait_timeout(g, deadline - now).unwrap().0;
        }
        if matches!(g.status[me], Status::Crashed) {
            drop(g);
            std::panic::resume_unwind(Box::new(CrashUnwind));
        }
        if let Some(p) = wants_lock {
            debug_assert!(!g.locks.contains_key(&p) || self.ineffective_locks);
            g.locks.insert(p, me);
        }
        g.status[me] = Status::Running;
        g.trace.push(Event {
            thread: me,
            kind: kind.to_string(),
            detail: detail.to_string(),
        });
    }
}

/// Hook entry: a step on shared state is about to happen.
pub fn point(kind: &str, detail: &str) {
    if let Some((s, me)) = current() {
        s.park(me, kind, detail, None);
    }
}

/// Hook entry: lock file redirection ("ineffective locks" = per-process lock files).
pub fn lock_path(path: PathBuf) -> PathBuf {
    if let Some((s, me)) = current()
        && s.ineffective_locks
    {
        let mut os = path.into_os_string();
        os.push(format!(".p{me}"));
        return PathBuf::from(os);
    }
    path
}

/// Hook entry: blocks (at scheduler level) until the modelled lock is free.
pub fn lock_acquire(path: &Path) {
    if let Some((s, me)) = current() {
        s.park(me, "lock", &short(path), Some(path.to_path_buf()));
    }
}

/// Hook entry: the real lock has been released.
pub fn lock_released(path: &Path) {
    if let Some((s, me)) = current() {
        let mut g = s.inner.lock().unwrap();
        if g.locks.get(path) == Some(&me) {
            g.locks.remove(path);
        }
        if !matches!(g.status[me], Status::Crashed) {
            g.trace.push(Event {
                thread: me,
                kind: "unlock".into(),
                detail: short(path),
            });
        }
    }
}

fn short(path: &Path) -> String {
    let comps: Vec<_> = path.components().rev().take(3).collect();
    comps
        .into_iter()
        .rev()
        .map(|c| c.as_os_str().to_string_lossy().to_string())
        .collect::<Vec<_>>()
        .join("/")
}

#[derive(Clone, Debug)]
pub struct Decision {
    /// Threads that can run, canonical order: the last-run thread first if enabled, then
    /// ascending ids.
    pub enabled: Vec<usize>,
    /// Threads that can be crashed here (parked, not finished), ascending ids; empty when
    /// the crash budget is used up.
    pub crashable: Vec<usize>,
    pub last_still_enabled: bool,
    pub chosen: usize,
}

impl Decision {
    pub fn alternatives(&self) -> usize {
        self.enabled.len() + self.crashable.len()
    }
}

#[derive(Clone, Debug, PartialEq, Eq)]
pub enum ThreadEnd {
    Done,
    Crashed,
    Panicked(String),
}

pub struct Execution {
    pub decisions: Vec<Decision>,
    pub trace: Vec<Event>,
    pub ends: Vec<ThreadEnd>,
    pub deadlock: bool,
    pub preemptions: usize,
    pub crashes: usize,
}

impl Execution {
    pub fn choices(&self) -> Vec<usize> {
        self.decisions.iter().map(|d| d.chosen).collect()
    }
}

pub struct RunOpts {
    pub ineffective_locks: bool,
    pub max_crashes: usize,
}

/// What the monitor sees at a decision point (all threads parked or finished).
pub struct PointView<'a> {
    pub trace: &'a [Event],
    /// For each thread: `Some((kind, detail))` if parked before that step, `None` if finished.
    pub parked: Vec<Option<(String, String)>>,
    pub lock_holders: Vec<(PathBuf, usize)>,
}

/// Runs the bodies as simulated processes under the choice sequence `prefix` (choice 0
/// at every later decision). `monitor` is called at every decision point.
pub fn run_execution(
    bodies: Vec<Box<dyn FnOnce() + Send>>,
    prefix: &[usize],
    opts: &RunOpts,
    monitor: &mut dyn FnMut(&PointView),
) -> Execution {
    let n = bodies.len();
    let session = Arc::new(Session {
        inner: Mutex::new(Inner {
            status: vec![Status::Running; n],
            running: None,
            locks: BTreeMap::new(),
            trace: vec![],
            unwinding: None,
        }),
        cv: Condvar::new(),
        ineffective_locks: opts.ineffective_locks,
    });
    // Start every thread; each immediately parks at its "start" point. We start them one
    // by one so that only one thread is ever outside the scheduler.
    let mut handles = vec![];
    for (i, body) in bodies.into_iter().enumerate() {
        {
            let mut g = session.inner.lock().unwrap();
            g.running = Some(i);
        }
        let s = session.clone();
        let h = std::thread::Builder::new()
            .name(format!("proc{i}"))
            .spawn(move || {
                CUR.with(|c| *c.borrow_mut() = Some((s.clone(), i)));
                let r = std::panic::catch_unwind(std::panic::AssertUnwindSafe(|| {
                    s.park(i, "start", "", None);
                    body();
                }));
                let mut g = s.inner.lock().unwrap();
                // release modelled locks this thread still holds (crash or panic)
                g.locks.retain(|_, owner| *owner != i);
                match r {
                    Ok(()) => g.status[i] = Status::Done,
                    Err(e) => {
                        if e.downcast_ref::<CrashUnwind>().is_some() {
                            g.status[i] = Status::Crashed;
                        } else {
                            let msg = if let Some(s) = e.downcast_ref::<&str>() {
                                s.to_string()
                            } else if let Some(s) = e.downcast_ref::<String>() {
                                s.clone()
                            } else {
                                "panic".to_string()
                            };
                            g.status[i] = Status::Panicked(msg);
                        }
                    }
                }
                if g.unwinding == Some(i) {
                    g.unwinding = None;
                }
                g.running = None;
                CUR.with(|c| *c.borrow_mut() = None);
                s.cv.notify_all();
            })
            .expect("spawn");
        handles.push(h);
        wait_quiescent(&session);
    }

    let mut decisions: Vec<Decision> = vec![];
    let mut last_run: Option<usize> = None;
    let mut preemptions = 0;
    let mut crashes = 0;
    let mut deadlock = false;
    loop {
        wait_quiescent(&session);
        let (enabled, crashable, view) = {
            let g = session.inner.lock().unwrap();
            let mut enabled = vec![];
            let mut crashable = vec![];
            let mut parked = vec![];
            for (i, st) in g.status.iter().enumerate() {
                match st {
                    Status::Parked {
                        kind,
                        detail,
                        wants_lock,
                    } => {
                        parked.push(Some((kind.clone(), detail.clone())));
                        crashable.push(i);
                        let free = match wants_lock {
                            Some(p) => !g.locks.contains_key(p),
                            None => true,
                        };
                        if free {
                            enabled.push(i);
                        }
                    }
                    _ => parked.push(None),
                }
            }
            let view = (
                g.trace.clone(),
                parked,
                g.locks.iter().map(|(p, o)| (p.clone(), *o)).collect::<Vec<_>>(),
            );
            (enabled, crashable, view)
        };
        monitor(&PointView {
            trace: &view.0,
            parked: view.1,
            lock_holders: view.2,
        });
        if crashable.is_empty() {
            break; // everyone finished
        }
        if enabled.is_empty() {
            deadlock = true;
            break;
        }
        // canonical order
        let mut order = vec![];
        let last_still_enabled = last_run.is_some_and(|l| enabled.contains(&l));
        if last_still_enabled {
            order.push(last_run.unwrap());
        }
        for &t in &enabled {
            if Some(t) != last_run || !last_still_enabled {
                if !order.contains(&t) {
                    order.push(t);
                }
            }
        }
        let crashable = if crashes < opts.max_crashes {
            crashable
        } else {
            vec![]
        };
        let idx = decisions.len();
        let chosen = if idx < prefix.len() { prefix[idx] } else { 0 };
        let d = Decision {
            enabled: order.clone(),
            crashable: crashable.clone(),
            last_still_enabled,
            chosen,
        };
        if chosen >= d.alternatives() {
            crate::machinery_failure(&format!(
                "schedule replay diverged: choice {chosen} out of range {} at decision {idx}",
                d.alternatives()
            ));
        }
        decisions.push(d);
        if chosen < order.len() {
            let t = order[chosen];
            if last_still_enabled && chosen > 0 {
                preemptions += 1;
            }
            last_run = Some(t);
            let mut g = session.inner.lock().unwrap();
            g.running = Some(t);
            session.cv.notify_all();
        } else {
            let t = crashable[chosen - order.len()];
            crashes += 1;
            let mut g = session.inner.lock().unwrap();
            let detail = match &g.status[t] {
                Status::Parked { kind, detail, .. } => format!("before {kind} {detail}"),
                _ => String::new(),
            };
            g.trace.push(Event {
                thread: t,
                kind: "CRASH".into(),
                detail,
            });
            g.status[t] = Status::Crashed;
            g.unwinding = Some(t);
            g.running = Some(t);
            session.cv.notify_all();
        }
    }
    if deadlock {
        // Unblock everything so that the threads can be joined: crash all parked threads.
        loop {
            let victim = {
                let g = session.inner.lock().unwrap();
                g.status
                    .iter()
                    .position(|s| matches!(s, Status::Parked { .. }))
            };
            let Some(t) = victim else { break };
            {
                let mut g = session.inner.lock().unwrap();
                g.status[t] = Status::Crashed;
                g.unwinding = Some(t);
                g.running = Some(t);
                session.cv.notify_all();
            }
            wait_quiescent(&session);
        }
    }
    for h in handles {
        let _ = h.join();
    }
    let g = session.inner.lock().unwrap();
    let ends = g
        .status
        .iter()
        .map(|s| match s {
            Status::Done => ThreadEnd::Done,
            Status::Crashed => ThreadEnd::Crashed,
            Status::Panicked(m) => ThreadEnd::Panicked(m.clone()),
            other => ThreadEnd::Panicked(format!("unexpected final status {other:?}")),
        })
        .collect();
    Execution {
        decisions,
        trace: g.trace.clone(),
        ends,
        deadlock,
        preemptions,
        crashes,
    }
}

fn wait_quiescent(session: &Arc<Session>) {
    let mut g = session.inner.lock().unwrap();
    let deadline = Instant::now() + WATCHDOG;
    while g.running.is_some() {
        let now = Instant::now();
        if now >= deadline {
            crate::machinery_failure(&format!(
                "scheduler watchdog: thread {:?} did not reach a scheduling point (blocked on an \
                 unmodelled lock?)",
                g.running
            ));
        }
        g = session.cv.wait_timeout(g, deadline - now).unwrap().0;
    }
}

pub struct ExploreConfig {
    pub preemption_bound: usize,
    pub max_crashes: usize,
    pub max_executions: u64,
    pub max_wall_s: f64,
}

#[derive(Default, Debug, Clone)]
pub struct ExploreStats {
    pub executions: u64,
    pub decisions: u64,
    pub with_crash: u64,
    pub deadlocks: u64,
    pub max_preemptions_seen: usize,
    pub capped: bool,
    pub distinct_traces: u64,
}

/// Depth-first exploration of every choice sequence within the bounds. `run(prefix)` must
/// execute the harness from a fresh initial state under `prefix` and evaluate the oracles.
pub fn explore<F>(cfg: &ExploreConfig, run: F) -> ExploreStats
where
    F: Fn(&[usize]) -> Execution + Sync,
{
    struct Shared<'a, F> {
        cfg: &'a ExploreConfig,
        run: &'a F,
        start: Instant,
        stats: Mutex<ExploreStats>,
        traces: Mutex<std::collections::HashSet<u64>>,
    }
    fn rec<F: Fn(&[usize]) -> Execution + Sync>(sh: &Shared<F>, prefix: Vec<usize>) {
        {
            let st = sh.stats.lock().unwrap();
            if st.executions >= sh.cfg.max_executions
                || sh.start.elapsed().as_secs_f64() > sh.cfg.max_wall_s
            {
                drop(st);
                sh.stats.lock().unwrap().capped = true;
                return;
            }
        }
        let x = (sh.run)(&prefix);
        {
            let mut st = sh.stats.lock().unwrap();
            st.executions += 1;
            st.decisions += x.decisions.len() as u64;
            if x.crashes > 0 {
                st.with_crash += 1;
            }
            if x.deadlock {
                st.deadlocks += 1;
            }
            st.max_preemptions_seen = st.max_preemptions_seen.max(x.preemptions);
            let h = crate::fnv(format!("{:?}", x.trace).as_bytes());
            if sh.traces.lock().unwrap().insert(h) {
                st.distinct_traces += 1;
            }
        }
        let choices = x.choices();
        let mut children: Vec<Vec<usize>> = vec![];
        let mut preempt = 0usize;
        let mut crashes = 0usize;
        for (i, d) in x.decisions.iter().enumerate() {
            if i >= prefix.len() {
                for alt in 1..d.alternatives() {
                    let is_crash = alt >= d.enabled.len();
                    let mut p = preempt;
                    let mut c = crashes;
                    if is_crash {
                        c += 1;
                    } else if d.last_still_enabled {
                        p += 1;
                    }
                    if p > sh.cfg.preemption_bound || c > sh.cfg.max_crashes {
                        continue;
                    }
                    let mut child = choices[..i].to_vec();
                    child.push(alt);
                    children.push(child);
                }
            }
            // account for the choice actually taken at i
            if d.chosen >= d.enabled.len() {
                crashes += 1;
            } else if d.last_still_enabled && d.chosen > 0 {
                preempt += 1;
            }
        }
        children.into_par_iter().for_each(|c| rec(sh, c));
    }
    let sh = Shared {
        cfg,
        run: &run,
        start: Instant::now(),
        stats: Mutex::new(ExploreStats::default()),
        traces: Mutex::new(Default::default()),
    };
    rec(&sh, vec![]);
    sh.stats.into_inner().unwrap()
}

//! Shared machinery of the jj model-checking harness: run context (tier, seed, replay),
//! violation collection with known-findings matching, evidence writer, bounded-exhaustive
//! enumerators, an explicit-state BFS over histories of real code, and a cooperative
//! scheduler for inter-process interleavings.

pub mod bfs;
pub mod enumerate;
pub mod sched;

use std::collections::BTreeMap;
use std::path::Path;
use std::path::PathBuf;
use std::sync::Mutex;
use std::sync::atomic::AtomicU64;
use std::sync::atomic::Ordering;
use std::time::Instant;

use serde_json::Value;
use serde_json::json;

pub const VERIF_ROOT: &str = "/verif";

/// Where evidence/ and replays/ are written (default /verif; mutant runs redirect it so that
/// they never clobber the evidence of the real tree).
pub fn out_root() -> PathBuf {
    PathBuf::from(std::env::var("VERIF_OUT").unwrap_or_else(|_| VERIF_ROOT.to_string()))
}

#[derive(Clone, Copy, PartialEq, Eq, Debug)]
pub enum Tier {
    Quick,
    Thorough,
}

#[derive(Clone, Copy, PartialEq, Eq, Debug)]
pub enum Level {
    Exploration,
    ModelChecking,
    FaultEnumeration,
}

impl Level {
    fn as_str(self) -> &'static str {
        match self {
            Level::Exploration => "exploration",
            Level::ModelChecking => "model_checking",
            Level::FaultEnumeration => "fault_enumeration",
        }
    }
}

#[derive(Clone, Debug)]
pub struct Violation {
    pub signature: String,
    pub description: String,
    pub case: Value,
}

#[derive(serde::Deserialize, Clone, Debug)]
pub struct Finding {
    pub property: String,
    pub status: String,
    pub signature: String,
    #[serde(default)]
    pub description: String,
    #[serde(default)]
    pub commit: Option<String>,
}

#[derive(serde::Deserialize, Default)]
struct FindingsFile {
    #[serde(default)]
    findings: Vec<Finding>,
}

/// A thread-safe counter.
#[derive(Default)]
pub struct Counter(AtomicU64);
impl Counter {
    pub fn new() -> Self {
        Self(AtomicU64::new(0))
    }
    pub fn inc(&self) {
        self.0.fetch_add(1, Ordering::Relaxed);
    }
    pub fn add(&self, n: u64) {
        self.0.fetch_add(n, Ordering::Relaxed);
    }
    pub fn get(&self) -> u64 {
        self.0.load(Ordering::Relaxed)
    }
}

/// What a run covered; becomes the `coverage` object of the evidence file.
#[derive(Default, Clone, Debug)]
pub struct Coverage {
    pub evaluations: u64,
    pub distinct_nontrivial: u64,
    pub rule: String,
    pub samples: Vec<Value>,
    pub exhaustive: bool,
    /// model_checking keys
    pub states: Option<u64>,
    pub transitions: Option<u64>,
    pub traces_validated_against_impl: Option<u64>,
    pub extra: BTreeMap<String, Value>,
    pub assumptions: Vec<String>,
}

pub struct Ctx {
    pub id: String,
    pub tier: Tier,
    pub seed: u64,
    pub replay: Option<PathBuf>,
    pub level: Level,
    start: Instant,
    violations: Mutex<Vec<Violation>>,
    violation_count: AtomicU64,
    scratch: PathBuf,
    findings: Vec<Finding>,
}

const MAX_KEPT_PER_SIGNATURE: usize = 3;
const MAX_KEPT_TOTAL: usize = 200;

impl Ctx {
    /// Parses `<bin> quick|thorough [--replay <file>]` (+ env VERIF_SEED, VERIF_TIER).
    pub fn from_args(id: &str, level: Level) -> Self {
        let args: Vec<String> = std::env::args().skip(1).collect();
        let mut tier = match std::env::var("VERIF_TIER").as_deref() {
            Ok("thorough") => Tier::Thorough,
            _ => Tier::Quick,
        };
        let mut replay = None;
        let mut i = 0;
        while i < args.len() {
            match args[i].as_str() {
                "quick" => tier = Tier::Quick,
                "thorough" => tier = Tier::Thorough,
                "--replay" => {
                    i += 1;
                    replay = Some(PathBuf::from(args.get(i).unwrap_or_else(|| {
                        machinery_failure("--replay needs a path");
                    })));
                }
                other => machinery_failure(&format!("unknown argument {other}")),
            }
            i += 1;
        }
        let seed = std::env::var("VERIF_SEED")
            .ok()
            .and_then(|s| s.parse::<i64>().ok())
            .map(|s| s as u64)
            .unwrap_or(0);
        let scratch_root =
            std::env::var("VERIF_SCRATCH").unwrap_or_else(|_| "/dev/shm".to_string());
        let scratch = PathBuf::from(scratch_root).join(format!(
            "jjmc.{}.{}",
            id.to_lowercase(),
            std::process::id()
        ));
        let _ = std::fs::remove_dir_all(&scratch);
        std::fs::create_dir_all(&scratch)
            .unwrap_or_else(|e| machinery_failure(&format!("cannot create scratch dir: {e}")));
        // Everything the code under test or testutils creates through `tempfile` lands in the
        // scratch dir on tmpfs.
        // SAFETY: single-threaded at this point (first statement of main).
        unsafe { std::env::set_var("TMPDIR", &scratch) };
        let findings_path = Path::new(VERIF_ROOT).join("known_findings.json");
        let findings = match std::fs::read(&findings_path) {
            Ok(bytes) => {
                serde_json::from_slice::<FindingsFile>(&bytes)
                    .unwrap_or_else(|e| machinery_failure(&format!("known_findings.json: {e}")))
                    .findings
            }
            Err(_) => vec![],
        };
        // Make panics inside worker threads of the harness visible but not fatal by
        // themselves; property code decides what a panic means via catch_unwind.
        Ctx {
            id: id.to_string(),
            tier,
            seed,
            replay,
            level,
            start: Instant::now(),
            violations: Mutex::new(vec![]),
            violation_count: AtomicU64::new(0),
            scratch,
            findings,
        }
    }

    pub fn quick(&self) -> bool {
        self.tier == Tier::Quick
    }

    pub fn thorough(&self) -> bool {
        self.tier == Tier::Thorough
    }

    /// Picks the bound for the current tier.
    pub fn pick<T>(&self, quick: T, thorough: T) -> T {
        if self.quick() { quick } else { thorough }
    }

    pub fn scratch(&self) -> &Path {
        &self.scratch
    }

    pub fn elapsed_s(&self) -> f64 {
        self.start.elapsed().as_secs_f64()
    }

    /// If `--replay` was given, returns the stored case (and its signature).
    pub fn replay_case(&self) -> Option<(String, Value)> {
        let path = self.replay.as_ref()?;
        let bytes = std::fs::read(path)
            .unwrap_or_else(|e| machinery_failure(&format!("cannot read replay file: {e}")));
        let v: Value = serde_json::from_slice(&bytes)
            .unwrap_or_else(|e| machinery_failure(&format!("bad replay file: {e}")));
        let sig = v["signature"].as_str().unwrap_or("").to_string();
        Some((sig, v["case"].clone()))
    }

    /// Records a violation. `signature` is a narrow identifier of the failing call site /
    /// shape (e.g. `C17/git/author-subsecond`); `case` must be self-contained.
    pub fn violation(&self, signature: &str, description: impl Into<String>, case: Value) {
        self.violation_count.fetch_add(1, Ordering::Relaxed);
        let mut v = self.violations.lock().unwrap();
        let same = v.iter().filter(|x| x.signature == signature).count();
        if same < MAX_KEPT_PER_SIGNATURE && v.len() < MAX_KEPT_TOTAL {
            v.push(Violation {
                signature: signature.to_string(),
                description: description.into(),
                case,
            });
        }
    }

    pub fn violation_count(&self) -> u64 {
        self.violation_count.load(Ordering::Relaxed)
    }

    fn known(&self, signature: &str) -> Option<&Finding> {
        self.findings.iter().find(|f| {
            f.property == self.id && f.status == "known" && f.signature == signature
        })
    }

    /// Writes evidence + replay files, prints the verdict lines and exits.
    pub fn finish(self, cov: Coverage) -> ! {
        let wall = self.start.elapsed().as_secs_f64();
        let violations = self.violations.lock().unwrap().clone();
        let mut known_lines: BTreeMap<String, (String, usize)> = BTreeMap::new();
        let mut real: Vec<(Violation, PathBuf)> = vec![];
        for v in &violations {
            if let Some(f) = self.known(&v.signature) {
                let e = known_lines
                    .entry(v.signature.clone())
                    .or_insert((f.description.clone(), 0));
                e.1 += 1;
            } else {
                let dir = out_root().join("replays").join(&self.id);
                let _ = std::fs::create_dir_all(&dir);
                let body = json!({
                    "property": self.id,
                    "signature": v.signature,
                    "description": v.description,
                    "case": v.case,
                });
                let text = serde_json::to_string_pretty(&body).unwrap();
                let h = fnv(text.as_bytes());
                let path = dir.join(format!("{h:016x}.json"));
                let _ = std::fs::write(&path, text);
                real.push((v.clone(), path));
            }
        }
        if self.replay.is_none() {
            let mut coverage = serde_json::Map::new();
            coverage.insert("evaluations".into(), json!(cov.evaluations));
            coverage.insert("distinct_nontrivial".into(), json!(cov.distinct_nontrivial));
            coverage.insert("rule".into(), json!(cov.rule));
            coverage.insert("samples".into(), json!(cov.samples));
            coverage.insert("exhaustive".into(), json!(cov.exhaustive));
            if let Some(s) = cov.states {
                coverage.insert("states".into(), json!(s));
            }
            if let Some(s) = cov.transitions {
                coverage.insert("transitions".into(), json!(s));
            }
            if let Some(s) = cov.traces_validated_against_impl {
                coverage.insert("traces_validated_against_impl".into(), json!(s));
            }
            for (k, v) in &cov.extra {
                coverage.insert(k.clone(), v.clone());
            }
            if !known_lines.is_empty() {
                coverage.insert(
                    "known_findings_matched".into(),
                    json!(known_lines.keys().collect::<Vec<_>>()),
                );
            }
            let ev = json!({
                "property_id": self.id,
                "tier": if self.tier == Tier::Quick { "quick" } else { "thorough" },
                "seed": self.seed as i64,
                "level": self.level.as_str(),
                "coverage": Value::Object(coverage),
                "assumptions": cov.assumptions,
                "wall_s": (wall * 1000.0).round() / 1000.0,
                "violations": real.len() as i64,
            });
            let dir = out_root().join("evidence");
            let _ = std::fs::create_dir_all(&dir);
            let path = dir.join(format!("{}.json", self.id));
            std::fs::write(&path, serde_json::to_string_pretty(&ev).unwrap() + "\n")
                .unwrap_or_else(|e| machinery_failure(&format!("cannot write evidence: {e}")));
        }
        let _ = std::fs::remove_dir_all(&self.scratch);
        for (sig, (desc, n)) in &known_lines {
            println!(
                "KNOWN-FINDING: property={} {} ({}; {} kept occurrence(s) this run)",
                self.id, sig, desc, n
            );
        }
        println!(
            "[{}] tier={:?} evaluations={} nontrivial={} states={:?} transitions={:?} exhaustive={} \
             violations={} (total occurrences {}) wall={:.1}s",
            self.id,
            self.tier,
            cov.evaluations,
            cov.distinct_nontrivial,
            cov.states,
            cov.transitions,
            cov.exhaustive,
            real.len(),
            self.violation_count.load(Ordering::Relaxed),
            wall
        );
        if real.is_empty() {
            std::process::exit(0);
        }
        for (v, path) in &real {
            println!("  {}: {}", v.signature, v.description);
            println!("VIOLATION property={} replay={}", self.id, path.display());
        }
        std::process::exit(1);
    }
}

/// Exit 2: the machinery failed; this is never a verdict about the property.
pub fn machinery_failure(msg: &str) -> ! {
    eprintln!("MACHINERY-FAILURE: {msg}");
    std::process::exit(2);
}

pub fn fnv(bytes: &[u8]) -> u64 {
    let mut h: u64 = 0xcbf29ce484222325;
    for b in bytes {
        h ^= *b as u64;
        h = h.wrapping_mul(0x100000001b3);
    }
    h
}

/// Keeps the first `cap` samples offered (thread-safe).
pub struct Samples {
    cap: usize,
    items: Mutex<Vec<Value>>,
}

impl Samples {
    pub fn new(cap: usize) -> Self {
        Samples {
            cap,
            items: Mutex::new(vec![]),
        }
    }
    pub fn offer(&self, f: impl FnOnce() -> Value) {
        let mut items = self.items.lock().unwrap();
        if items.len() < self.cap {
            items.push(f());
        }
    }
    pub fn wants_more(&self) -> bool {
        self.items.lock().unwrap().len() < self.cap
    }
    pub fn take(&self) -> Vec<Value> {
        std::mem::take(&mut *self.items.lock().unwrap())
    }
}

/// Runs `f`, converting a panic into `Err(message)`. The default panic hook is silenced
/// for the duration by `silence_panics()` (call once at start-up).
pub fn catch<R>(f: impl FnOnce() -> R) -> Result<R, String> {
    CATCH_DEPTH.with(|d| d.set(d.get() + 1));
    let result = std::panic::catch_unwind(std::panic::AssertUnwindSafe(f));
    CATCH_DEPTH.with(|d| d.set(d.get() - 1));
    match result {
        Ok(r) => Ok(r),
        Err(e) => {
            let msg = if let Some(s) = e.downcast_ref::<&str>() {
                s.to_string()
            } else if let Some(s) = e.downcast_ref::<String>() {
                s.clone()
            } else {
                "non-string panic payload".to_string()
            };
            let loc = LAST_PANIC_LOCATION.with(|l| l.borrow_mut().take());
            Err(match loc {
                Some(loc) => format!("{msg} @ {loc}"),
                None => msg,
            })
        }
    }
}

thread_local! {
    static CATCH_DEPTH: std::cell::Cell<u32> = const { std::cell::Cell::new(0) };
    static LAST_PANIC_LOCATION: std::cell::RefCell<Option<String>> = const { std::cell::RefCell::new(None) };
}

/// Installs a panic hook that records the location (for `catch`) instead of printing.
pub fn silence_panics() {
    std::panic::set_hook(Box::new(|info| {
        let loc = info
            .location()
            .map(|l| format!("{}:{}", l.file(), l.line()));
        let quiet = CATCH_DEPTH.with(|d| d.get() > 0)
            || std::thread::current().name().is_some_and(|n| n.starts_with("proc"));
        if !quiet {
            // a panic of the harness itself: keep it visible
            eprintln!("harness panic: {info}");
        }
        LAST_PANIC_LOCATION.with(|l| *l.borrow_mut() = loc);
    }));
}

//! Bounded-exhaustive enumerators. All orders are simplest-first (length-lexicographic),
//! so the first counterexample found is also a smallest one.

/// Calls `f` with every tuple of `dims.len()` digits, digit `i` ranging over `0..dims[i]`.
/// `f` returns `false` to stop. Returns the number of tuples visited.
pub fn odometer(dims: &[usize], mut f: impl FnMut(&[usize]) -> bool) -> u64 {
    if dims.iter().any(|&d| d == 0) {
        return 0;
    }
    let mut cur = vec![0usize; dims.len()];
    let mut n = 0u64;
    loop {
        n += 1;
        if !f(&cur) {
            return n;
        }
        let mut i = dims.len();
        loop {
            if i == 0 {
                return n;
            }
            i -= 1;
            cur[i] += 1;
            if cur[i] < dims[i] {
                break;
            }
            cur[i] = 0;
        }
    }
}

/// Number of tuples of an odometer.
pub fn product(dims: &[usize]) -> u64 {
    dims.iter().map(|&d| d as u64).product()
}

/// Decodes index `idx` of the odometer over `dims` (last digit fastest).
pub fn decode(mut idx: u64, dims: &[usize]) -> Vec<usize> {
    let mut out = vec![0usize; dims.len()];
    for i in (0..dims.len()).rev() {
        out[i] = (idx % dims[i] as u64) as usize;
        idx /= dims[i] as u64;
    }
    out
}

/// Every sequence of length `0..=max_len` over `0..alphabet`, shortest first.
pub fn sequences(alphabet: usize, max_len: usize, mut f: impl FnMut(&[usize])) -> u64 {
    let mut n = 0;
    for len in 0..=max_len {
        let dims = vec![alphabet; len];
        if len == 0 {
            f(&[]);
            n += 1;
        } else {
            n += odometer(&dims, |t| {
                f(t);
                true
            });
        }
    }
    n
}

/// Every restricted-growth string of length `n` (= every set partition of n slots = every
/// equality pattern of n values): `a[0] = 0`, `a[i] <= 1 + max(a[..i])`.
pub fn rgs(n: usize, mut f: impl FnMut(&[u8])) -> u64 {
    fn rec(a: &mut Vec<u8>, n: usize, maxv: u8, f: &mut impl FnMut(&[u8]), count: &mut u64) {
        if a.len() == n {
            *count += 1;
            f(a);
            return;
        }
        for v in 0..=maxv + 1 {
            a.push(v);
            rec(a, n, maxv.max(v), f, count);
            a.pop();
        }
    }
    let mut count = 0;
    if n == 0 {
        f(&[]);
        return 1;
    }
    let mut a = vec![0u8];
    rec(&mut a, n, 0, &mut f, &mut count);
    count
}

/// All RGS of length n that start with the given prefix (which must itself be an RGS).
pub fn rgs_with_prefix(n: usize, prefix: &[u8], mut f: impl FnMut(&[u8])) -> u64 {
    fn rec(a: &mut Vec<u8>, n: usize, maxv: u8, f: &mut impl FnMut(&[u8]), count: &mut u64) {
        if a.len() == n {
            *count += 1;
            f(a);
            return;
        }
        for v in 0..=maxv + 1 {
            a.push(v);
            rec(a, n, maxv.max(v), f, count);
            a.pop();
        }
    }
    let mut count = 0;
    let mut a = prefix.to_vec();
    let maxv = prefix.iter().copied().max().unwrap_or(0);
    if prefix.is_empty() {
        return rgs(n, f);
    }
    rec(&mut a, n, maxv, &mut f, &mut count);
    count
}

/// All RGS prefixes of length `k` (to shard `rgs` over threads).
pub fn rgs_prefixes(k: usize) -> Vec<Vec<u8>> {
    let mut out = vec![];
    rgs(k, |a| out.push(a.to_vec()));
    out
}

/// A DAG on nodes `0..n` numbered topologically: `parents[i]` ⊆ `0..i`, sorted ascending.
/// Node numbering is *not* canonical (isomorphic DAGs appear several times), which is
/// what we want: creation order matters to the code under test.
#[derive(Clone, Debug, PartialEq, Eq, Hash, serde::Serialize, serde::Deserialize)]
pub struct Dag {
    pub parents: Vec<Vec<usize>>,
}

impl Dag {
    pub fn n(&self) -> usize {
        self.parents.len()
    }

    /// Reflexive-transitive ancestry: `anc[i]` is a bitmask of ancestors of `i` incl. `i`.
    pub fn ancestors_masks(&self) -> Vec<u64> {
        let mut anc = vec![0u64; self.n()];
        for i in 0..self.n() {
            let mut m = 1u64 << i;
            for &p in &self.parents[i] {
                m |= anc[p];
            }
            anc[i] = m;
        }
        anc
    }

    pub fn children(&self) -> Vec<Vec<usize>> {
        let mut ch = vec![vec![]; self.n()];
        for (i, ps) in self.parents.iter().enumerate() {
            for &p in ps {
                ch[p].push(i);
            }
        }
        ch
    }

    /// Nodes without children.
    pub fn heads(&self) -> Vec<usize> {
        let ch = self.children();
        (0..self.n()).filter(|&i| ch[i].is_empty()).collect()
    }
}

/// Every DAG on `n` topologically numbered nodes where each node has at most
/// `max_parents` parents among the earlier nodes (empty parent set = child of the
/// repository root).
pub fn dags(n: usize, max_parents: usize, mut f: impl FnMut(&Dag)) -> u64 {
    // per node i: all subsets of 0..i of size <= max_parents
    let choices: Vec<Vec<Vec<usize>>> = (0..n)
        .map(|i| subsets_up_to(i, max_parents))
        .collect();
    let dims: Vec<usize> = choices.iter().map(|c| c.len()).collect();
    if n == 0 {
        f(&Dag { parents: vec![] });
        return 1;
    }
    odometer(&dims, |t| {
        let dag = Dag {
            parents: t.iter().enumerate().map(|(i, &c)| choices[i][c].clone()).collect(),
        };
        f(&dag);
        true
    })
}

pub fn all_dags(n: usize, max_parents: usize) -> Vec<Dag> {
    let mut v = vec![];
    dags(n, max_parents, |d| v.push(d.clone()));
    v
}

/// Every subset of `0..n` with at most `k` elements, smallest first, each sorted.
pub fn subsets_up_to(n: usize, k: usize) -> Vec<Vec<usize>> {
    let mut out: Vec<Vec<usize>> = vec![];
    for mask in 0u64..(1u64 << n) {
        if (mask.count_ones() as usize) <= k {
            out.push((0..n).filter(|&i| mask >> i & 1 == 1).collect());
        }
    }
    out.sort_by_key(|s| (s.len(), s.clone()));
    out
}

/// Every subset of `0..n` as a bitmask.
pub fn masks(n: usize) -> impl Iterator<Item = u64> {
    0u64..(1u64 << n)
}

pub fn mask_to_vec(mask: u64) -> Vec<usize> {
    (0..64).filter(|&i| mask >> i & 1 == 1).collect()
}

/// Every composition of `n` items into consecutive non-empty chunks (2^(n-1) of them);
/// returned as chunk sizes.
pub fn compositions(n: usize) -> Vec<Vec<usize>> {
    if n == 0 {
        return vec![vec![]];
    }
    let mut out = vec![];
    for mask in 0u64..(1u64 << (n - 1)) {
        let mut sizes = vec![];
        let mut cur = 1;
        for i in 0..n - 1 {
            if mask >> i & 1 == 1 {
                sizes.push(cur);
                cur = 1;
            } else {
                cur += 1;
            }
        }
        sizes.push(cur);
        out.push(sizes);
    }
    out
}

/// All permutations of `0..n` in lexicographic order.
pub fn permutations(n: usize) -> Vec<Vec<usize>> {
    fn rec(cur: &mut Vec<usize>, used: &mut Vec<bool>, n: usize, out: &mut Vec<Vec<usize>>) {
        if cur.len() == n {
            out.push(cur.clone());
            return;
        }
        for i in 0..n {
            if !used[i] {
                used[i] = true;
                cur.push(i);
                rec(cur, used, n, out);
                cur.pop();
                used[i] = false;
            }
        }
    }
    let mut out = vec![];
    rec(&mut vec![], &mut vec![false; n], n, &mut out);
    out
}

#[cfg(test)]
mod tests {
    use super::*;
    #[test]
    fn bell_numbers() {
        assert_eq!(rgs(1, |_| {}), 1);
        assert_eq!(rgs(3, |_| {}), 5);
        assert_eq!(rgs(5, |_| {}), 52);
        assert_eq!(rgs(7, |_| {}), 877);
        let mut total = 0;
        for p in rgs_prefixes(3) {
            total += rgs_with_prefix(7, &p, |_| {});
        }
        assert_eq!(total, 877);
    }
    #[test]
    fn dag_counts() {
        assert_eq!(dags(3, 2, |_| {}), 1 * 2 * 4);
        assert_eq!(dags(4, 2, |_| {}), 1 * 2 * 4 * 7);
        assert_eq!(compositions(4).len(), 8);
        assert_eq!(permutations(4).len(), 24);
    }
}

//! Explicit-state breadth-first search over histories of real code.
//!
//! A state is represented by a history (list of actions) that reaches it. `step(history)`
//! builds the state from scratch by replaying the history through the real API, evaluates
//! the property's oracles on the last transition (reporting through its own `Ctx`), and
//! returns the canonical key of the reached state plus the actions enabled there. A
//! history whose key was already seen is not extended (its transition has still been
//! executed and checked). Levels are processed in parallel; deduplication is done in
//! history order afterwards, so the search is deterministic.

use std::collections::BTreeMap;
use std::collections::HashSet;
use std::time::Instant;

use rayon::prelude::*;

pub struct StepResult<A> {
    /// Canonical key of the reached state (only property-relevant fields, id-free).
    pub key: String,
    /// Actions enabled in the reached state (simplest first).
    pub actions: Vec<A>,
}

#[derive(Default, Debug, Clone)]
pub struct BfsStats {
    pub states: u64,
    pub transitions: u64,
    pub max_depth_completed: usize,
    pub invalid: u64,
    /// True if the wall-clock or state cap cut the search short.
    pub capped: bool,
    pub per_depth_states: Vec<u64>,
    /// per action label: (#transitions, #transitions that discovered a new state)
    pub per_action: BTreeMap<String, (u64, u64)>,
    pub sample_histories: Vec<String>,
}

pub struct BfsConfig {
    pub max_depth: usize,
    pub max_states: u64,
    pub max_wall_s: f64,
}

/// `step` returns `None` when the history is not executable (pruned; counted as invalid).
/// `label` maps an action to a short class label for the vacuity statistics.
pub fn search<A, F, L>(cfg: &BfsConfig, step: F, label: L) -> BfsStats
where
    A: Clone + Send + Sync + std::fmt::Debug,
    F: Fn(&[A]) -> Option<StepResult<A>> + Sync,
    L: Fn(&A) -> String,
{
    let start = Instant::now();
    let mut stats = BfsStats::default();
    let mut seen: HashSet<String> = HashSet::new();
    let root = step(&[]).expect("initial state must be constructible");
    seen.insert(root.key.clone());
    stats.states = 1;
    stats.per_depth_states.push(1);
    let mut frontier: Vec<Vec<A>> = root.actions.iter().map(|a| vec![a.clone()]).collect();
    for depth in 1..=cfg.max_depth {
        if frontier.is_empty() {
            stats.max_depth_completed = cfg.max_depth;
            break;
        }
        if start.elapsed().as_secs_f64() > cfg.max_wall_s || stats.states > cfg.max_states {
            stats.capped = true;
            break;
        }
        let results: Vec<Option<StepResult<A>>> =
            frontier.par_iter().map(|h| step(h)).collect();
        let mut next: Vec<Vec<A>> = vec![];
        let mut new_at_depth = 0;
        for (h, r) in frontier.iter().zip(results) {
            let lab = label(h.last().unwrap());
            match r {
                None => {
                    stats.invalid += 1;
                }
                Some(r) => {
                    stats.transitions += 1;
                    let e = stats.per_action.entry(lab).or_insert((0, 0));
                    e.0 += 1;
                    if seen.insert(r.key) {
                        e.1 += 1;
                        stats.states += 1;
                        new_at_depth += 1;
                        if stats.sample_histories.len() < 5 && depth >= 2 {
                            stats.sample_histories.push(format!("{h:?}"));
                        }
                        if depth < cfg.max_depth {
                            for a in r.actions {
                                let mut h2 = h.clone();
                                h2.push(a);
                                next.push(h2);
                            }
                        }
                    }
                }
            }
        }
        stats.per_depth_states.push(new_at_depth);
        stats.max_depth_completed = depth;
        frontier = next;
    }
    stats
}

//! C28 — Ignore rules behave like Git's.
//!
//! Bounded-exhaustive enumeration of ignore *configurations* (a global excludes file and
//! `.gitignore` files at two directory levels, each with at most two lines built from a token
//! alphabet that covers negation, anchoring, directory-only patterns, `*`, `**`, `?`,
//! character classes, escapes, comments and trailing spaces) crossed with every file and every
//! directory path of a small universe (depth <= 2 over six names, depth 3 below `a` and `b`).
//!
//! Reference: the installed `git check-ignore --no-index -v -n -z --stdin`, run hermetically
//! (empty environment, no system/global configuration, `core.excludesFile` given explicitly)
//! in scratch work trees in which every queried path really exists with the queried type.
//!
//! Two arrangements of the ignore files are used, both are real repositories for git and jj:
//! * `top`: global excludes, `<root>/.gitignore`, `<root>/a/.gitignore` (one git process per
//!   configuration and disk layout);
//! * `sub`: no global / root file; the two files are `<root>/<slot>/.gitignore` and
//!   `<root>/<slot>/a/.gitignore`, and the queried paths live below `<slot>/`. These are answered by
//!   one long-lived `git check-ignore --stdin` process per worker thread; every configuration
//!   gets slot directory names that the process has never seen (see `Streamer`), and a
//!   sample of them is cross-checked against a fresh git process. Creating processes is the
//!   dominant cost of this check, this is what makes the two-line / two-file families
//!   affordable.
//!
//! Code under test, route 1 (all configurations): the walk the snapshotter performs, written
//! out with the real `GitIgnoreFile::chain` / `matches_dir` / `matches_file`: the base ignores
//! are chained with the `.gitignore` of every directory on the way down; a directory that
//! matches is pruned (everything below it is ignored, its `.gitignore` is not read); the
//! entry itself is tested with `matches_file` / `matches_dir`.
//!
//! Route 2 (a sub-family): the real snapshotter (`TestWorkspace::snapshot_with_options` with
//! `base_ignores`) on a working copy that contains the same files; the set of tracked paths
//! must be exactly the files that route 1 (and therefore git) calls "not ignored". This
//! binds the re-stated walk of route 1 to `local_working_copy.rs`.

use std::collections::BTreeMap;
use std::collections::BTreeSet;
use std::path::Path;
use std::path::PathBuf;
use std::process::Command;
use std::process::Stdio;
use std::sync::Arc;
use std::sync::Mutex;

use jj_lib::gitignore::GitIgnoreFile;
use jj_lib::matchers::EverythingMatcher;
use jj_lib::matchers::NothingMatcher;
use jj_lib::repo_path::RepoPath;
use jj_lib::working_copy::SnapshotOptions;
use rayon::prelude::*;
use serde_json::Value;
use serde_json::json;
use testutils::TestRepoBackend;
use testutils::TestWorkspace;
use vcommon::Counter;
use vcommon::Coverage;
use vcommon::Ctx;
use vcommon::Level;
use vcommon::Samples;
use vcommon::catch;
use vcommon::machinery_failure;

// ---------------------------------------------------------------------------------------
// the path universe

/// Names of path components. `ab` separates `a*` from `a` and `?` from `*`; `!a`, `#x` and
/// `a ` (trailing space) are the names the escaped tokens are about.
const NAMES: [&str; 6] = ["a", "b", "ab", "!a", "#x", "a "];
/// First components below which depth-3 paths are enumerated.
const DEEP_FIRST: [&str; 2] = ["a", "b"];

#[derive(Clone, Debug)]
struct Query {
    path: String,
    /// every ancestor directory, outermost first, then the path itself
    prefixes: Vec<String>,
    is_dir: bool,
}

fn query(path: &str, is_dir: bool) -> Query {
    let comps: Vec<&str> = path.split('/').collect();
    let prefixes = (1..=comps.len()).map(|n| comps[..n].join("/")).collect();
    Query { path: path.to_string(), prefixes, is_dir }
}

fn paths_of_depth(d: usize) -> Vec<String> {
    let mut out = vec![String::new()];
    for level in 0..d {
        let mut next = vec![];
        for p in &out {
            for n in NAMES {
                if d == 3 && level == 0 && !DEEP_FIRST.contains(&n) {
                    continue;
                }
                next.push(if p.is_empty() { n.to_string() } else { format!("{p}/{n}") });
            }
        }
        out = next;
    }
    out
}

/// A disk layout: a consistent tree in which every queried path has the queried type.
#[derive(Clone, Debug)]
struct Layout {
    name: &'static str,
    dirs: Vec<String>,
    files: Vec<String>,
    queries: Vec<Query>,
    /// whether `a` is a directory (so that `a/.gitignore` can exist)
    a_is_dir: bool,
}

const L1: usize = 0;
const L1N: usize = 1;
const L2: usize = 2;
const L3: usize = 3;
const L4: usize = 4;

fn layouts() -> Vec<Layout> {
    let d1 = paths_of_depth(1);
    let d2 = paths_of_depth(2);
    let d3 = paths_of_depth(3);
    let files_q = |v: &[String]| v.iter().map(|p| query(p, false)).collect::<Vec<_>>();
    let l1 = Layout { name: "L1", dirs: vec![], files: d1.clone(), queries: files_q(&d1), a_is_dir: false };
    let d1_no_a: Vec<String> = d1.iter().filter(|p| *p != "a").cloned().collect();
    let l1n = Layout {
        name: "L1n",
        dirs: vec!["a".to_string()],
        files: d1_no_a.clone(),
        queries: files_q(&d1_no_a),
        a_is_dir: true,
    };
    let l2 = Layout { name: "L2", dirs: d1.clone(), files: d2.clone(), queries: files_q(&d2), a_is_dir: true };
    let mut d12 = d1.clone();
    d12.extend(d2.iter().filter(|p| DEEP_FIRST.iter().any(|f| p.starts_with(&format!("{f}/")))).cloned());
    let l3 = Layout { name: "L3", dirs: d12, files: d3.clone(), queries: files_q(&d3), a_is_dir: true };
    let mut d123 = d1.clone();
    d123.extend(d2.iter().cloned());
    d123.extend(d3.iter().cloned());
    let l4 = Layout {
        name: "L4",
        dirs: d123.clone(),
        files: vec![],
        queries: d123.iter().map(|p| query(p, true)).collect(),
        a_is_dir: true,
    };
    vec![l1, l1n, l2, l3, l4]
}

/// The layouts whose answers count for a configuration.
/// (The quick tier leaves the depth-3 files out in arrangement top, where every layout costs
/// a git process; arrangement sub always asks all of them.)
fn layouts_for(cfg: &Config, all: bool) -> Vec<usize> {
    let l1 = if cfg.nested.is_some() { L1N } else { L1 };
    if all || cfg.sub { vec![l1, L2, L3, L4] } else { vec![l1, L2, L4] }
}

// ---------------------------------------------------------------------------------------
// configurations

#[derive(Clone, Debug, PartialEq, Eq, PartialOrd, Ord)]
struct Config {
    /// `false`: arrangement `top` (global excludes, `.gitignore`, `a/.gitignore`);
    /// `true`: arrangement `sub` (`<slot>/.gitignore`, `<slot>/a/.gitignore`, no global).
    sub: bool,
    global: Option<String>,
    root: Option<String>,
    nested: Option<String>,
}

impl Config {
    fn to_json(&self) -> Value {
        json!({"arrangement": if self.sub { "sub" } else { "top" }, "global": self.global, "root": self.root, "nested": self.nested})
    }
    fn from_json(v: &Value) -> Config {
        let get = |k: &str| v[k].as_str().map(|s| s.to_string());
        Config { sub: v["arrangement"] == "sub", global: get("global"), root: get("root"), nested: get("nested") }
    }
    fn empty(sub: bool) -> Config {
        Config { sub, global: None, root: None, nested: None }
    }
    fn single(sub: bool, pos: usize, content: String) -> Config {
        let mut c = Config::empty(sub);
        c.set(pos, content);
        c
    }
    fn set(&mut self, pos: usize, content: String) {
        match pos {
            0 => self.global = Some(content),
            1 => self.root = Some(content),
            _ => self.nested = Some(content),
        }
    }
    fn show(&self) -> String {
        let f = |o: &Option<String>| match o {
            None => "-".to_string(),
            Some(s) => format!("{s:?}"),
        };
        if self.sub {
            format!("<slot>/.gitignore={} <slot>/a/.gitignore={}", f(&self.root), f(&self.nested))
        } else {
            format!("global={} .gitignore={} a/.gitignore={}", f(&self.global), f(&self.root), f(&self.nested))
        }
    }
}

fn content(lines: &[&str]) -> String {
    let mut s = lines.join("\n");
    s.push('\n');
    s
}

const TOKENS: [&str; 11] = ["a", "b", "*", "**", "a*", "?", "[ab]", "\\!a", "a\\ ", "#x", "\\#x"];
const TOKENS2_CORE: [&str; 4] = ["a", "b", "*", "**"];
const SPECIALS: [&str; 12] = ["", " ", "a ", "a  ", "!", "/", "\\", "a\r", "!a ", "a/ ", "# a", "a\\"];
const MINI_BODIES: [&str; 6] = ["a", "*", "a/b", "a/*", "**/b", "a/**"];
const TINY_BODIES: [&str; 4] = ["a", "a/", "*", "a/b"];

fn gen_lines(tokens1: &[&str], tokens2: &[&str]) -> Vec<String> {
    let mut bodies: Vec<String> = tokens1.iter().map(|t| t.to_string()).collect();
    for x in tokens2 {
        for y in tokens2 {
            bodies.push(format!("{x}/{y}"));
        }
    }
    with_flags(&bodies)
}

fn with_flags(bodies: &[String]) -> Vec<String> {
    let mut out = vec![];
    for neg in ["", "!"] {
        for anchor in ["", "/"] {
            for body in bodies {
                for dir in ["", "/"] {
                    out.push(format!("{neg}{anchor}{body}{dir}"));
                }
            }
        }
    }
    out
}

fn dedup(v: Vec<String>) -> Vec<String> {
    let mut seen = BTreeSet::new();
    v.into_iter().filter(|l| seen.insert(l.clone())).collect()
}

struct LineSets {
    full: Vec<String>,
    core: Vec<String>,
    mini: Vec<String>,
    tiny: Vec<String>,
}

fn line_sets() -> LineSets {
    let mut full = gen_lines(&TOKENS, &TOKENS);
    full.extend(SPECIALS.iter().map(|s| s.to_string()));
    let mut core = gen_lines(&TOKENS, &TOKENS2_CORE);
    core.extend(SPECIALS.iter().map(|s| s.to_string()));
    let mini = with_flags(&MINI_BODIES.iter().map(|s| s.to_string()).collect::<Vec<_>>());
    let mut tiny = vec![];
    for neg in ["", "!"] {
        for b in TINY_BODIES {
            tiny.push(format!("{neg}{b}"));
        }
    }
    LineSets { full: dedup(full), core: dedup(core), mini: dedup(mini), tiny: dedup(tiny) }
}

fn pairs(sub: bool, p1: usize, p2: usize, s1: &[String], s2: &[String], out: &mut Vec<Config>) {
    for l1 in s1 {
        for l2 in s2 {
            let mut cfg = Config::single(sub, p1, content(&[l1]));
            cfg.set(p2, content(&[l2]));
            out.push(cfg);
        }
    }
}

fn two_lines(sub: bool, pos: usize, set: &[String], out: &mut Vec<Config>) {
    for l1 in set {
        for l2 in set {
            out.push(Config::single(sub, pos, content(&[l1, l2])));
        }
    }
}

/// Lines of the top-arrangement single-line family beyond the quick tier's hand-picked
/// ones: every token once, plus the combinations the root prefix handling is about.
fn topq_lines() -> Vec<String> {
    let mut v: Vec<String> = TOKENS.iter().map(|t| t.to_string()).collect();
    for l in ["/a", "a/", "!a", "a/b", "/a/b/", "!a/b", "a/*", "a/**", "**/b", "/*/", "a ", ""] {
        v.push(l.to_string());
    }
    dedup(v)
}

/// A 32-line subset of `mini` for the quick tier's pair families.
fn mini32(ls: &LineSets) -> Vec<String> {
    ls.mini.iter().filter(|l| !l.contains("a/**") && !l.contains("**/b/")).take(32).cloned().collect()
}

fn strings(v: &[&str]) -> Vec<String> {
    v.iter().map(|s| s.to_string()).collect()
}

/// The enumerated families, in order, with a name for the coverage statement. Arrangement
/// top costs one git process per configuration and layout, arrangement sub none (long-lived
/// process), hence the sizes: process creation costs 5 ms on a quiet machine and seconds on
/// a loaded one.
fn families(thorough: bool, ls: &LineSets) -> Vec<(&'static str, Vec<Config>)> {
    let mut fams: Vec<(&'static str, Vec<Config>)> = vec![];
    let four = strings(&["a", "!a", "/a", "a/"]);
    let two = strings(&["a", "!a"]);
    let topq = topq_lines();
    let m32 = mini32(ls);
    // A: one file with one line, every position of both arrangements
    // (+ the same line without a final newline in the root file)
    let mut a = vec![];
    if thorough {
        for l in &ls.core {
            a.push(Config::single(false, 1, content(&[l])));
        }
        for pos in [0, 2] {
            for l in &topq {
                a.push(Config::single(false, pos, content(&[l])));
            }
        }
        for l in &ls.tiny {
            a.push(Config::single(false, 1, l.clone()));
        }
    } else {
        for l in ["a", "/a", "a/", "!a", "a/b", "/*/", "*", "\\!a", "a ", "**/b"] {
            a.push(Config::single(false, 1, content(&[l])));
        }
        for l in ["a", "/a/", "a/b"] {
            a.push(Config::single(false, 0, content(&[l])));
        }
        for l in ["a", "/b"] {
            a.push(Config::single(false, 2, content(&[l])));
        }
        a.push(Config::single(false, 1, "a".to_string()));
    }
    a.push(Config::single(false, 1, "a\r".to_string()));
    fams.push(("A-top:one-file-one-line", a));
    let mut a_sub = vec![];
    for l in &ls.full {
        a_sub.push(Config::single(true, 1, content(&[l])));
    }
    for l in if thorough { &ls.full } else { &ls.core } {
        a_sub.push(Config::single(true, 2, content(&[l])));
    }
    for l in if thorough { &ls.core } else { &ls.tiny } {
        if !l.is_empty() {
            a_sub.push(Config::single(true, 1, l.clone()));
        }
    }
    a_sub.push(Config::single(true, 1, "a\r".to_string()));
    fams.push(("A-sub:one-file-one-line", a_sub));
    // B: one file with two lines
    let mut b = vec![];
    if thorough {
        two_lines(false, 1, &ls.tiny, &mut b);
        two_lines(false, 0, &two, &mut b);
        two_lines(false, 2, &two, &mut b);
    } else {
        b.push(Config::single(false, 1, content(&["a", "!a"])));
        b.push(Config::single(false, 1, content(&["!a", "a"])));
        b.push(Config::single(false, 0, content(&["*", "!a"])));
    }
    fams.push(("B-top:one-file-two-lines", b));
    let mut b_sub = vec![];
    two_lines(true, 1, if thorough { &ls.core } else { &m32 }, &mut b_sub);
    two_lines(true, 2, if thorough { &ls.mini } else { &ls.tiny }, &mut b_sub);
    if thorough {
        // every line of the full set next to every tiny line, both orders
        for l1 in &ls.full {
            for l2 in &ls.tiny {
                b_sub.push(Config::single(true, 1, content(&[l1, l2])));
                b_sub.push(Config::single(true, 1, content(&[l2, l1])));
            }
        }
    }
    fams.push(("B-sub:one-file-two-lines", b_sub));
    // C: two files with one line each
    let mut c = vec![];
    if thorough {
        pairs(false, 0, 1, &ls.tiny, &ls.tiny, &mut c);
        pairs(false, 1, 2, &ls.tiny, &ls.tiny, &mut c);
        pairs(false, 0, 2, &four, &four, &mut c);
    } else {
        pairs(false, 0, 1, &two, &two, &mut c);
        for (p1, p2, l1, l2) in [(0, 1, "/a", "!a"), (0, 1, "!a", "/a"), (1, 2, "a", "!a"), (1, 2, "a/", "!b"), (0, 2, "a", "!a")] {
            let mut cfg = Config::single(false, p1, content(&[l1]));
            cfg.set(p2, content(&[l2]));
            c.push(cfg);
        }
    }
    fams.push(("C-top:two-files-one-line-each", c));
    let mut c_sub = vec![];
    let c_set: &[String] = if thorough { &ls.core } else { &m32 };
    pairs(true, 1, 2, c_set, c_set, &mut c_sub);
    if thorough {
        pairs(true, 1, 2, &ls.full, &ls.tiny, &mut c_sub);
        pairs(true, 1, 2, &ls.tiny, &ls.full, &mut c_sub);
    }
    fams.push(("C-sub:two-files-one-line-each", c_sub));
    // D: three files with one line each (arrangement top only)
    let mut d = vec![];
    let triples: Vec<(String, String, String)> = if thorough {
        let mut t = vec![];
        for l0 in &four {
            for l1 in &four {
                for l2 in &four {
                    t.push((l0.clone(), l1.clone(), l2.clone()));
                }
            }
        }
        t
    } else {
        [("a", "!a", "a"), ("*", "!a/", "!b")].iter().map(|(x, y, z)| (x.to_string(), y.to_string(), z.to_string())).collect()
    };
    for (l0, l1, l2) in &triples {
        let mut cfg = Config::single(false, 0, content(&[l0]));
        cfg.set(1, content(&[l1]));
        cfg.set(2, content(&[l2]));
        d.push(cfg);
    }
    fams.push(("D-top:three-files-one-line-each", d));
    // E: two files with two lines each
    let mut e = vec![];
    let e_set: &[String] = if thorough { &ls.tiny } else { &four };
    for l1 in e_set {
        for l2 in e_set {
            for l3 in e_set {
                for l4 in e_set {
                    let mut cfg = Config::single(true, 1, content(&[l1, l2]));
                    cfg.set(2, content(&[l3, l4]));
                    e.push(cfg);
                }
            }
        }
    }
    fams.push(("E-sub:two-files-two-lines-each", e));
    // distinctness across and inside families
    let mut seen: BTreeSet<Config> = BTreeSet::new();
    for (_, v) in &mut fams {
        v.retain(|c| seen.insert(c.clone()));
    }
    fams
}

/// The sub-family also run through the real snapshotter (arrangement `top`).
fn snapshot_family(thorough: bool, ls: &LineSets) -> Vec<Config> {
    let mut lines: Vec<String> = if thorough { ls.core.clone() } else { ls.mini.clone() };
    if !thorough {
        // the escape / class tokens once each, so that the quick tier also sees them on disk
        for t in TOKENS {
            lines.push(t.to_string());
            lines.push(format!("{t}/"));
        }
    }
    let lines = dedup(lines);
    let mut out = vec![];
    for pos in 0..3 {
        for l in &lines {
            out.push(Config::single(false, pos, content(&[l])));
        }
    }
    // a few multi-file configurations: negation below an ignored directory, nested overrides
    for (g, r, n) in [
        (Some("*\n"), Some("!a/\n"), Some("!b\n")),
        (Some("a/\n"), Some("!a/\n"), Some("*\n!b\n")),
        (None, Some("a/b\n"), Some("!b\n")),
        (None, Some("/a/*\n"), Some("!/b\n")),
        (Some("!b\n"), Some("b\n"), None),
        (None, Some("*\n!.gitignore\n"), Some("!*\n")),
    ] {
        out.push(Config {
            sub: false,
            global: g.map(|s: &str| s.to_string()),
            root: r.map(|s: &str| s.to_string()),
            nested: n.map(|s: &str| s.to_string()),
        });
    }
    out
}

// ---------------------------------------------------------------------------------------
// the reference: git check-ignore in scratch work trees

/// Wall time spent waiting for git, summed over threads (reported in the evidence).
static GIT_NANOS: std::sync::atomic::AtomicU64 = std::sync::atomic::AtomicU64::new(0);

/// A `git check-ignore --stdin` process that stays alive (arrangement sub). Creating a process
/// is by far the most expensive operation of this check; a streaming check-ignore answers and
/// flushes path by path. git keeps what it has read of a directory only while consecutive
/// queries stay below that directory, and nothing is ever kept for a directory it has not
/// seen: every configuration is therefore installed under directory names that were never
/// used before in the life of the process (the layout trees are renamed, not rebuilt).
struct Streamer {
    child: std::process::Child,
    stdin: std::process::ChildStdin,
    stdout: std::io::BufReader<std::process::ChildStdout>,
}

struct GitEnv {
    dir: PathBuf,
    /// arrangement top: one work tree per layout
    trees: Vec<PathBuf>,
    /// arrangement sub: one work tree that holds one directory per layout
    sub_tree: PathBuf,
    /// current name of the directory of each layout in `sub_tree`
    sub_names: Vec<String>,
    counter: u64,
    stream: Option<Streamer>,
    global_file: PathBuf,
    empty_file: PathBuf,
    home: PathBuf,
}

#[derive(Clone, Debug, Default, PartialEq, Eq)]
struct GitAnswer {
    ignored: bool,
    source: String,
    line: String,
    pattern: String,
}

fn git_command(home: &Path) -> Command {
    let mut cmd = Command::new("/usr/bin/git");
    cmd.env_clear()
        .env("PATH", "/usr/bin:/bin")
        .env("HOME", home)
        .env("XDG_CONFIG_HOME", home.join("xdg"))
        .env("GIT_CONFIG_GLOBAL", "/dev/null")
        .env("GIT_CONFIG_SYSTEM", "/dev/null")
        .env("GIT_CONFIG_NOSYSTEM", "1")
        .env("GIT_CEILING_DIRECTORIES", home)
        .env("GIT_FLUSH", "1")
        .env("LC_ALL", "C");
    cmd
}

fn setup_fail(what: &str, e: String) -> ! {
    machinery_failure(&format!("git scratch setup: {what}: {e}"))
}

fn materialize(root: &Path, layout: &Layout) {
    std::fs::create_dir_all(root).unwrap_or_else(|e| setup_fail("mkdir", e.to_string()));
    for d in &layout.dirs {
        std::fs::create_dir_all(root.join(d)).unwrap_or_else(|e| setup_fail("mkdir layout dir", e.to_string()));
    }
    for f in &layout.files {
        std::fs::write(root.join(f), b"x").unwrap_or_else(|e| setup_fail("write layout file", e.to_string()));
    }
}

fn query_bytes<'a>(prefix: Option<&str>, queries: impl Iterator<Item = &'a Query>) -> Vec<u8> {
    let mut q = vec![];
    for query in queries {
        if let Some(p) = prefix {
            q.extend_from_slice(p.as_bytes());
            q.push(b'/');
        }
        q.extend_from_slice(query.path.as_bytes());
        q.push(0);
    }
    q
}

fn put(path: PathBuf, content: Option<&String>) {
    match content {
        Some(c) => std::fs::write(&path, c.as_bytes())
            .unwrap_or_else(|e| machinery_failure(&format!("write {}: {e}", path.display()))),
        None => {
            let _ = std::fs::remove_file(&path);
        }
    }
}

fn answer_from_fields(f: &[&[u8]], expect_path: &[u8]) -> GitAnswer {
    if f[3] != expect_path {
        machinery_failure(&format!(
            "git check-ignore answered for {:?} where {:?} was asked",
            String::from_utf8_lossy(f[3]),
            String::from_utf8_lossy(expect_path)
        ));
    }
    let pattern = String::from_utf8_lossy(f[2]).to_string();
    GitAnswer {
        ignored: !pattern.is_empty() && !pattern.starts_with('!'),
        source: String::from_utf8_lossy(f[0]).to_string(),
        line: String::from_utf8_lossy(f[1]).to_string(),
        pattern,
    }
}

const CHECK_IGNORE_ARGS: [&str; 6] = ["check-ignore", "--no-index", "-v", "-n", "-z", "--stdin"];

impl GitEnv {
    fn new(dir: &Path, layouts: &[Layout]) -> GitEnv {
        std::fs::create_dir_all(dir).unwrap_or_else(|e| setup_fail("mkdir", e.to_string()));
        let home = dir.join("home");
        std::fs::create_dir_all(&home).unwrap_or_else(|e| setup_fail("mkdir home", e.to_string()));
        // what `git init --template=` creates, written by hand (the self-test validates it)
        let init = |t: &Path| {
            let g = t.join(".git");
            for d in ["objects/info", "objects/pack", "refs/heads", "refs/tags"] {
                std::fs::create_dir_all(g.join(d)).unwrap_or_else(|e| setup_fail("mkdir .git", e.to_string()));
            }
            std::fs::write(g.join("HEAD"), b"ref: refs/heads/master\n")
                .unwrap_or_else(|e| setup_fail("write HEAD", e.to_string()));
            std::fs::write(
                g.join("config"),
                b"[core]\n\trepositoryformatversion = 0\n\tfilemode = true\n\tbare = false\n\tlogallrefupdates = true\n",
            )
            .unwrap_or_else(|e| setup_fail("write config", e.to_string()));
        };
        let mut trees = vec![];
        for l in layouts {
            let t = dir.join(l.name);
            init(&t);
            materialize(&t, l);
            std::fs::write(dir.join(format!("{}.queries", l.name)), query_bytes(None, l.queries.iter()))
                .unwrap_or_else(|e| setup_fail("write queries", e.to_string()));
            trees.push(t);
        }
        let sub_tree = dir.join("sub");
        init(&sub_tree);
        let mut sub_names = vec![];
        for l in layouts {
            let name = format!("s0{}", l.name);
            materialize(&sub_tree.join(&name), l);
            sub_names.push(name);
        }
        let empty_file = dir.join("empty-excludes");
        std::fs::write(&empty_file, b"").unwrap_or_else(|e| setup_fail("write", e.to_string()));
        GitEnv {
            dir: dir.to_path_buf(),
            trees,
            sub_tree,
            sub_names,
            counter: 0,
            stream: None,
            global_file: dir.join("global-excludes"),
            empty_file,
            home,
        }
    }

    /// One git process: `stdin_bytes` are the NUL separated paths.
    fn run_git(&self, tree: &Path, excludes: &Path, stdin_file: &Path, expect: &[u8]) -> Vec<GitAnswer> {
        let t0 = std::time::Instant::now();
        let stdin = std::fs::File::open(stdin_file)
            .unwrap_or_else(|e| machinery_failure(&format!("open queries: {e}")));
        let out = git_command(&self.home)
            .arg("-C")
            .arg(tree)
            .arg("-c")
            .arg(format!("core.excludesFile={}", excludes.display()))
            .args(CHECK_IGNORE_ARGS)
            .stdin(Stdio::from(stdin))
            .stdout(Stdio::piped())
            .stderr(Stdio::piped())
            .output()
            .unwrap_or_else(|e| machinery_failure(&format!("cannot run git: {e}")));
        GIT_NANOS.fetch_add(t0.elapsed().as_nanos() as u64, std::sync::atomic::Ordering::Relaxed);
        let code = out.status.code().unwrap_or(-1);
        if code != 0 && code != 1 {
            machinery_failure(&format!(
                "git check-ignore failed with status {code}: {}",
                String::from_utf8_lossy(&out.stderr)
            ));
        }
        let mut fields: Vec<&[u8]> = out.stdout.split(|b| *b == 0).collect();
        if fields.last().is_some_and(|f| f.is_empty()) {
            fields.pop();
        }
        let paths: Vec<&[u8]> = expect.split(|b| *b == 0).filter(|p| !p.is_empty()).collect();
        if fields.len() != 4 * paths.len() {
            machinery_failure(&format!(
                "git check-ignore printed {} fields for {} queries ({})",
                fields.len(),
                paths.len(),
                stdin_file.display()
            ));
        }
        paths.iter().enumerate().map(|(i, p)| answer_from_fields(&fields[4 * i..4 * i + 4], p)).collect()
    }

    /// Arrangement top: install the files of `cfg` in the work tree of layout `li` and ask.
    fn ask_top(&self, cfg: &Config, layouts: &[Layout], li: usize) -> Vec<GitAnswer> {
        let layout = &layouts[li];
        let tree = &self.trees[li];
        put(self.global_file.clone(), Some(&cfg.global.clone().unwrap_or_default()));
        put(tree.join(".gitignore"), cfg.root.as_ref());
        if layout.a_is_dir {
            put(tree.join("a/.gitignore"), cfg.nested.as_ref());
        } else if cfg.nested.is_some() {
            machinery_failure("layout without directory a used for a nested configuration");
        }
        let expect = query_bytes(None, layout.queries.iter());
        self.run_git(tree, &self.global_file, &self.dir.join(format!("{}.queries", layout.name)), &expect)
    }

    /// Arrangement sub: moves the tree of layout `li` to a directory name that was never used
    /// before and installs the files of `cfg` there. Returns the directory name.
    fn install_sub(&mut self, cfg: &Config, layouts: &[Layout], li: usize) -> String {
        self.counter += 1;
        let name = format!("s{}{}", self.counter, layouts[li].name);
        std::fs::rename(self.sub_tree.join(&self.sub_names[li]), self.sub_tree.join(&name))
            .unwrap_or_else(|e| machinery_failure(&format!("rename slot: {e}")));
        self.sub_names[li] = name.clone();
        let sd = self.sub_tree.join(&name);
        put(sd.join(".gitignore"), cfg.root.as_ref());
        if layouts[li].a_is_dir {
            put(sd.join("a/.gitignore"), cfg.nested.as_ref());
        } else if cfg.nested.is_some() {
            machinery_failure("layout without directory a used for a nested configuration");
        }
        name
    }

    /// Arrangement sub through a fresh git process (replay, cross-check of the streamer).
    fn ask_sub_oneshot(&mut self, cfg: &Config, layouts: &[Layout], li: usize) -> (String, Vec<GitAnswer>) {
        let name = self.install_sub(cfg, layouts, li);
        let q = query_bytes(Some(&name), layouts[li].queries.iter());
        let qf = self.dir.join("oneshot.queries");
        std::fs::write(&qf, &q).unwrap_or_else(|e| machinery_failure(&format!("write queries: {e}")));
        let answers = self.run_git(&self.sub_tree, &self.empty_file, &qf, &q);
        (name, answers)
    }

    /// Arrangement sub through the long-lived process.
    fn ask_sub_stream(&mut self, cfg: &Config, layouts: &[Layout], li: usize) -> (String, Vec<GitAnswer>) {
        use std::io::BufRead as _;
        use std::io::Write as _;
        let name = self.install_sub(cfg, layouts, li);
        let t0 = std::time::Instant::now();
        if self.stream.is_none() {
            let mut child = git_command(&self.home)
                .arg("-C")
                .arg(&self.sub_tree)
                .arg("-c")
                .arg(format!("core.excludesFile={}", self.empty_file.display()))
                .args(CHECK_IGNORE_ARGS)
                .stdin(Stdio::piped())
                .stdout(Stdio::piped())
                .stderr(Stdio::inherit())
                .spawn()
                .unwrap_or_else(|e| machinery_failure(&format!("cannot run git: {e}")));
            let stdin = child.stdin.take().unwrap();
            let stdout = std::io::BufReader::new(child.stdout.take().unwrap());
            self.stream = Some(Streamer { child, stdin, stdout });
            STREAMERS.fetch_add(1, std::sync::atomic::Ordering::Relaxed);
        }
        let q = query_bytes(Some(&name), layouts[li].queries.iter());
        let st = self.stream.as_mut().unwrap();
        // the request (< 4 KiB) and the answer (< 32 KiB) both fit into a pipe buffer
        st.stdin
            .write_all(&q)
            .and_then(|_| st.stdin.flush())
            .unwrap_or_else(|e| machinery_failure(&format!("the streaming git process went away: {e}")));
        let mut answers = Vec::with_capacity(layouts[li].queries.len());
        let mut fields: Vec<Vec<u8>> = Vec::with_capacity(4);
        for path in q.split(|b| *b == 0).filter(|p| !p.is_empty()) {
            fields.clear();
            for _ in 0..4 {
                let mut buf = vec![];
                let n = st
                    .stdout
                    .read_until(0, &mut buf)
                    .unwrap_or_else(|e| machinery_failure(&format!("reading from git: {e}")));
                if n == 0 || buf.pop() != Some(0) {
                    machinery_failure("the streaming git process closed its output");
                }
                fields.push(buf);
            }
            let refs: Vec<&[u8]> = fields.iter().map(|f| f.as_slice()).collect();
            answers.push(answer_from_fields(&refs, path));
        }
        GIT_NANOS.fetch_add(t0.elapsed().as_nanos() as u64, std::sync::atomic::Ordering::Relaxed);
        (name, answers)
    }

    fn shutdown(&mut self) {
        if let Some(st) = self.stream.take() {
            let Streamer { mut child, stdin, stdout } = st;
            drop(stdin);
            drop(stdout);
            let _ = child.wait();
        }
    }
}

static STREAMERS: std::sync::atomic::AtomicU64 = std::sync::atomic::AtomicU64::new(0);

// ---------------------------------------------------------------------------------------
// jj: the walk of the snapshotter over the real GitIgnoreFile

struct Chains {
    /// `SnapshotOptions::base_ignores`
    base: Arc<GitIgnoreFile>,
    /// the chain used for the entries of the root directory
    top: Arc<GitIgnoreFile>,
    /// directory -> chain used for the entries of that directory (it has a `.gitignore`)
    enter: Vec<(String, Arc<GitIgnoreFile>)>,
}

fn rp(s: &str) -> &RepoPath {
    RepoPath::from_internal_string(s).unwrap_or_else(|e| machinery_failure(&format!("bad repo path {s:?}: {e}")))
}

/// `slot`: the directory that plays the root in arrangement sub.
fn build_chains(cfg: &Config, slot: Option<&str>) -> Result<Chains, String> {
    let base = match &cfg.global {
        // what the CLI does for core.excludesFile: chained at the root in front of everything
        Some(g) => GitIgnoreFile::empty()
            .chain(RepoPath::root(), Path::new("global-excludes"), g.as_bytes())
            .map_err(|e| e.to_string())?,
        None => GitIgnoreFile::empty(),
    };
    // FileSnapshotter::visit_directory: chain_with_file(dir, dir/.gitignore) when the file exists
    match slot {
        None => {
            let top = match &cfg.root {
                Some(r) => base
                    .chain(RepoPath::root(), Path::new(".gitignore"), r.as_bytes())
                    .map_err(|e| e.to_string())?,
                None => base.clone(),
            };
            let mut enter = vec![];
            if let Some(n) = &cfg.nested {
                let c = top
                    .chain(rp("a"), Path::new("a/.gitignore"), n.as_bytes())
                    .map_err(|e| e.to_string())?;
                enter.push(("a".to_string(), c));
            }
            Ok(Chains { base, top, enter })
        }
        Some(slot) => {
            let top = base.clone();
            let mut enter = vec![];
            let in_slot = match &cfg.root {
                Some(r) => {
                    let c = top
                        .chain(rp(slot), &Path::new(slot).join(".gitignore"), r.as_bytes())
                        .map_err(|e| e.to_string())?;
                    enter.push((slot.to_string(), c.clone()));
                    c
                }
                None => top.clone(),
            };
            if let Some(n) = &cfg.nested {
                let d = format!("{slot}/a");
                let c = in_slot
                    .chain(rp(&d), &Path::new(&d).join(".gitignore"), n.as_bytes())
                    .map_err(|e| e.to_string())?;
                enter.push((d, c));
            }
            Ok(Chains { base, top, enter })
        }
    }
}

/// Returns (ignored, decided by a pruned ancestor directory).
fn jj_ignored(ch: &Chains, q: &Query) -> (bool, bool) {
    let mut chain = &ch.top;
    let n = q.prefixes.len();
    for dir in &q.prefixes[..n - 1] {
        // process_dir_entry on a directory: pruned when it matches
        if chain.matches_dir(rp(dir)) {
            return (true, true);
        }
        // visit_directory of that directory: its .gitignore is chained
        if let Some((_, c)) = ch.enter.iter().find(|(d, _)| d == dir) {
            chain = c;
        }
    }
    let p = rp(&q.path);
    let r = if q.is_dir { chain.matches_dir(p) } else { chain.matches_file(p) };
    (r, false)
}

// ---------------------------------------------------------------------------------------
// signatures

/// Abstracts a pattern line to its form, so that a signature names a class of patterns
/// rather than one configuration: literals -> `L`, the glob tokens stay.
fn line_form(line: &str) -> String {
    if line.is_empty() {
        return "none".to_string();
    }
    let mut s = line.to_string();
    for (from, to) in [
        ("\\!a", "<esc-bang>"),
        ("a\\ ", "<esc-space>"),
        ("\\#x", "<esc-hash>"),
        ("#x", "<hash>"),
        ("[ab]", "<class>"),
        ("a*", "<lit-star>"),
    ] {
        s = s.replace(from, to);
    }
    let mut out = String::new();
    let mut in_tag = false;
    for ch in s.chars() {
        match ch {
            '<' => {
                in_tag = true;
                out.push(ch);
            }
            '>' => {
                in_tag = false;
                out.push(ch);
            }
            'a' | 'b' if !in_tag => out.push('L'),
            ' ' => out.push('_'),
            '\r' => out.push_str("<cr>"),
            c => out.push(c),
        }
    }
    out
}

const CR_AT_EOF_SIGNATURE: &str = "C28/ignore-file-ends-with-CR-without-LF";

struct Mismatch {
    signature: String,
    message: String,
    case: Value,
}

fn walk_case(cfg: &Config, rel_path: &str, is_dir: bool) -> Value {
    let mut case = cfg.to_json();
    case["route"] = json!("walk");
    case["path"] = json!(rel_path);
    case["is_dir"] = json!(is_dir);
    case
}

/// `rel_path`: the path relative to the root of the arrangement (without the slot directory).
fn compare(cfg: &Config, q: &Query, rel_path: &str, git: &GitAnswer, jj: bool, jj_pruned: bool) -> Option<Mismatch> {
    if git.ignored == jj {
        return None;
    }
    let is_dir = q.is_dir;
    let dir = if jj { "jj-ignores-git-does-not" } else { "git-ignores-jj-does-not" };
    let kind = if is_dir { "dir" } else { "file" };
    let via = if jj_pruned { "/via-parent-dir" } else { "" };
    let mut signature = format!("C28/{dir}/{kind}{via}/git-rule:{}", line_form(&git.pattern));
    // Attribution of one known cause: an ignore file whose last line ends in CR without LF.
    // git appends a newline to the buffer before parsing, so the CR is a CRLF line ending for
    // git; if jj agrees with git as soon as the missing LF is added, the mismatch is that.
    let fix = |o: &Option<String>| o.as_ref().map(|c| if c.ends_with('\r') { format!("{c}\n") } else { c.clone() });
    let fixed = Config { sub: cfg.sub, global: fix(&cfg.global), root: fix(&cfg.root), nested: fix(&cfg.nested) };
    if fixed != *cfg {
        let slot = (q.path.len() > rel_path.len()).then(|| &q.path[..q.path.len() - rel_path.len() - 1]);
        if let Ok(Ok(chains)) = catch(|| build_chains(&fixed, slot))
            && let Ok((jj_fixed, _)) = catch(|| jj_ignored(&chains, q))
            && jj_fixed == git.ignored
        {
            signature = CR_AT_EOF_SIGNATURE.to_string();
        }
    }
    let message = format!(
        "{} {:?}: git check-ignore says {} (deciding pattern {:?} from {}:{}), jj's snapshot walk says {}{}; configuration: {}",
        if is_dir { "directory" } else { "file" },
        rel_path,
        if git.ignored { "ignored" } else { "not ignored" },
        git.pattern,
        if git.source.is_empty() { "-" } else { &git.source },
        if git.line.is_empty() { "-" } else { &git.line },
        if jj { "ignored" } else { "not ignored" },
        if jj_pruned { " (an ancestor directory matched)" } else { "" },
        cfg.show()
    );
    Some(Mismatch { signature, message, case: walk_case(cfg, rel_path, is_dir) })
}

// ---------------------------------------------------------------------------------------
// route 2: the real snapshotter

fn snapshot_tracked(cfg: &Config, layout: &Layout) -> Result<BTreeSet<String>, String> {
    let mut ws = TestWorkspace::init_with_backend(TestRepoBackend::Simple);
    let root = ws.workspace.workspace_root().to_path_buf();
    let must = |r: std::io::Result<()>| r.unwrap_or_else(|e| machinery_failure(&format!("working-copy setup: {e}")));
    for d in &layout.dirs {
        must(std::fs::create_dir_all(root.join(d)));
    }
    for f in &layout.files {
        must(std::fs::write(root.join(f), b"x"));
    }
    if let Some(r) = &cfg.root {
        must(std::fs::write(root.join(".gitignore"), r.as_bytes()));
    }
    if let Some(n) = &cfg.nested {
        must(std::fs::write(root.join("a/.gitignore"), n.as_bytes()));
    }
    let chains = build_chains(cfg, None)?;
    let options = SnapshotOptions {
        base_ignores: chains.base.clone(),
        progress: None,
        start_tracking_matcher: &EverythingMatcher,
        force_tracking_matcher: &NothingMatcher,
        max_new_file_size: u64::MAX,
    };
    let (tree, _stats) = ws.snapshot_with_options(&options).map_err(|e| e.to_string())?;
    let mut tracked = BTreeSet::new();
    for (path, value) in tree.entries() {
        value.map_err(|e| e.to_string())?;
        tracked.insert(path.as_internal_file_string().to_string());
    }
    Ok(tracked)
}

/// Files of the layout (+ the ignore files) that the walk of route 1 calls not ignored.
fn predicted_tracked(cfg: &Config, layout: &Layout) -> Result<BTreeSet<String>, String> {
    let chains = build_chains(cfg, None)?;
    let mut files: Vec<String> = layout.files.clone();
    if cfg.root.is_some() {
        files.push(".gitignore".to_string());
    }
    if cfg.nested.is_some() {
        files.push("a/.gitignore".to_string());
    }
    Ok(files
        .into_iter()
        .filter(|f| !jj_ignored(&chains, &query(f, false)).0)
        .collect())
}

fn check_snapshot(cfg: &Config, layout: &Layout) -> Result<(usize, usize), Mismatch> {
    let mk = |what: &str, msg: String| {
        let mut case = cfg.to_json();
        case["route"] = json!("snapshot");
        case["layout"] = json!(layout.name);
        Mismatch { signature: format!("C28/snapshot/{what}"), message: msg, case }
    };
    let predicted = catch(|| predicted_tracked(cfg, layout))
        .map_err(|e| mk("panic", format!("panic in GitIgnoreFile: {e}; {}", cfg.show())))?
        .map_err(|e| mk("chain-error", format!("{e}; {}", cfg.show())))?;
    let tracked = catch(|| snapshot_tracked(cfg, layout))
        .map_err(|e| mk("panic", format!("panic in snapshot: {e}; {}", cfg.show())))?
        .map_err(|e| mk("error", format!("snapshot failed: {e}; {}", cfg.show())))?;
    if predicted != tracked {
        let extra: Vec<&String> = tracked.difference(&predicted).take(5).collect();
        let missing: Vec<&String> = predicted.difference(&tracked).take(5).collect();
        let what = if !extra.is_empty() { "tracks-ignored-path" } else { "skips-unignored-path" };
        return Err(mk(
            what,
            format!(
                "layout {}: the snapshot tracks {} paths, the ignore walk predicts {}; tracked although ignored: {:?}; \
                 not tracked although not ignored: {:?}; {}",
                layout.name,
                tracked.len(),
                predicted.len(),
                extra,
                missing,
                cfg.show()
            ),
        ));
    }
    let total = layout.files.len() + cfg.root.is_some() as usize + cfg.nested.is_some() as usize;
    Ok((tracked.len(), total - tracked.len()))
}

// ---------------------------------------------------------------------------------------

#[derive(Default)]
struct Tally {
    comparisons: u64,
    nontrivial: u64,
    git_ignored: u64,
    git_negative_decides: u64,
    jj_pruned_by_parent: u64,
    configs: u64,
    configs_with_ignored: u64,
    configs_with_negative: u64,
    git_processes: u64,
    /// deciding (position, line) -> number of queries decided
    deciding: BTreeMap<(String, String), u64>,
}

impl Tally {
    fn merge(&mut self, o: Tally) {
        self.comparisons += o.comparisons;
        self.nontrivial += o.nontrivial;
        self.git_ignored += o.git_ignored;
        self.git_negative_decides += o.git_negative_decides;
        self.jj_pruned_by_parent += o.jj_pruned_by_parent;
        self.configs += o.configs;
        self.configs_with_ignored += o.configs_with_ignored;
        self.configs_with_negative += o.configs_with_negative;
        self.git_processes += o.git_processes;
        for (k, v) in o.deciding {
            *self.deciding.entry(k).or_insert(0) += v;
        }
    }
}

fn position_of_source(source: &str) -> &'static str {
    if source.is_empty() {
        "-"
    } else if source == ".gitignore" {
        "root"
    } else if source == "a/.gitignore" {
        "nested"
    } else if source.ends_with("/a/.gitignore") && !source.starts_with('/') {
        "sub-nested"
    } else if source.ends_with("/.gitignore") && !source.starts_with('/') {
        "sub-root"
    } else {
        "global"
    }
}

fn chain_failure(cfg: &Config, r: Result<Result<Chains, String>, String>) -> Result<Chains, Mismatch> {
    match r {
        Ok(Ok(c)) => Ok(c),
        Ok(Err(e)) => Err(Mismatch {
            signature: "C28/chain/error".into(),
            message: format!("GitIgnoreFile::chain failed: {e}; {}", cfg.show()),
            case: walk_case(cfg, "a", false),
        }),
        Err(e) => Err(Mismatch {
            signature: "C28/chain/panic".into(),
            message: format!("GitIgnoreFile::chain panicked: {e}; {}", cfg.show()),
            case: walk_case(cfg, "a", false),
        }),
    }
}

struct PerConfig {
    any_ignored: bool,
    any_negative: bool,
}

/// One comparison.
#[allow(clippy::too_many_arguments)]
fn judge(
    cfg: &Config,
    chains: &Chains,
    q: &Query,
    rel_path: &str,
    g: &GitAnswer,
    tally: &mut Tally,
    pc: &mut PerConfig,
    out: &mut Vec<Mismatch>,
) {
    let (jj, pruned) = match catch(|| jj_ignored(chains, q)) {
        Ok(r) => r,
        Err(e) => {
            out.push(Mismatch {
                signature: "C28/matches/panic".into(),
                message: format!("GitIgnoreFile::matches panicked on {:?}: {e}; {}", rel_path, cfg.show()),
                case: walk_case(cfg, rel_path, q.is_dir),
            });
            return;
        }
    };
    tally.comparisons += 1;
    if !g.pattern.is_empty() {
        tally.nontrivial += 1;
        *tally
            .deciding
            .entry((position_of_source(&g.source).to_string(), g.pattern.clone()))
            .or_insert(0) += 1;
        if g.ignored {
            tally.git_ignored += 1;
            pc.any_ignored = true;
        } else {
            tally.git_negative_decides += 1;
            pc.any_negative = true;
        }
    }
    if pruned {
        tally.jj_pruned_by_parent += 1;
    }
    if let Some(m) = compare(cfg, q, rel_path, g, jj, pruned) {
        out.push(m);
    }
}

fn run_top(cfg: &Config, env: &GitEnv, layouts: &[Layout], all_layouts: bool, tally: &mut Tally) -> Vec<Mismatch> {
    let chains = match chain_failure(cfg, catch(|| build_chains(cfg, None))) {
        Ok(c) => c,
        Err(m) => return vec![m],
    };
    let mut out = vec![];
    let mut pc = PerConfig { any_ignored: false, any_negative: false };
    for li in layouts_for(cfg, all_layouts) {
        let answers = env.ask_top(cfg, layouts, li);
        tally.git_processes += 1;
        for (q, g) in layouts[li].queries.iter().zip(&answers) {
            judge(cfg, &chains, q, &q.path, g, tally, &mut pc, &mut out);
        }
    }
    tally.configs += 1;
    tally.configs_with_ignored += pc.any_ignored as u64;
    tally.configs_with_negative += pc.any_negative as u64;
    out
}

#[derive(Clone, Copy, PartialEq, Eq)]
enum SubMode {
    Stream,
    Oneshot,
    /// both, and the two must agree (validates the long-lived process)
    Both,
}

fn run_sub(cfg: &Config, env: &mut GitEnv, layouts: &[Layout], mode: SubMode, tally: &mut Tally) -> Vec<Mismatch> {
    let mut out = vec![];
    let mut pc = PerConfig { any_ignored: false, any_negative: false };
    for li in layouts_for(cfg, true) {
        let (name, answers) = match mode {
            SubMode::Stream => env.ask_sub_stream(cfg, layouts, li),
            SubMode::Oneshot => {
                tally.git_processes += 1;
                env.ask_sub_oneshot(cfg, layouts, li)
            }
            SubMode::Both => {
                tally.git_processes += 1;
                let (n1, a1) = env.ask_sub_oneshot(cfg, layouts, li);
                let (n2, a2) = env.ask_sub_stream(cfg, layouts, li);
                let strip = |n: &str, a: &[GitAnswer]| -> Vec<GitAnswer> {
                    a.iter()
                        .map(|x| GitAnswer { source: x.source.strip_prefix(n).unwrap_or(&x.source).to_string(), ..x.clone() })
                        .collect()
                };
                if strip(&n1, &a1) != strip(&n2, &a2) {
                    machinery_failure(&format!(
                        "the long-lived git check-ignore process and a fresh one disagree on {}",
                        cfg.show()
                    ));
                }
                (n2, a2)
            }
        };
        let chains = match chain_failure(cfg, catch(|| build_chains(cfg, Some(&name)))) {
            Ok(c) => c,
            Err(m) => {
                out.push(m);
                break;
            }
        };
        for (q, g) in layouts[li].queries.iter().zip(&answers) {
            let full = query(&format!("{name}/{}", q.path), q.is_dir);
            judge(cfg, &chains, &full, &q.path, g, tally, &mut pc, &mut out);
        }
    }
    tally.configs += 1;
    tally.configs_with_ignored += pc.any_ignored as u64;
    tally.configs_with_negative += pc.any_negative as u64;
    out
}

fn replay(ctx: &Ctx, case: &Value, layouts: &[Layout]) {
    let cfg = Config::from_json(case);
    if case["route"] == "snapshot" {
        let name = case["layout"].as_str().unwrap_or("L3");
        let layout = layouts
            .iter()
            .find(|l| l.name == name)
            .unwrap_or_else(|| machinery_failure("unknown layout in replay file"));
        if let Err(m) = check_snapshot(&cfg, layout) {
            ctx.violation(&m.signature, m.message, m.case);
        }
        return;
    }
    let mut env = GitEnv::new(&ctx.scratch().join("git-replay"), layouts);
    let mut tally = Tally::default();
    let want_path = case["path"].as_str().map(|s| s.to_string());
    let want_dir = case["is_dir"].as_bool();
    let found = if cfg.sub {
        run_sub(&cfg, &mut env, layouts, SubMode::Oneshot, &mut tally)
    } else {
        run_top(&cfg, &env, layouts, true, &mut tally)
    };
    for m in found {
        let same_query = match (&want_path, want_dir) {
            (Some(p), Some(d)) => m.case["path"] == json!(p) && m.case["is_dir"] == json!(d),
            _ => true,
        };
        if same_query {
            ctx.violation(&m.signature, m.message, m.case);
        }
    }
}

fn main() {
    let ctx = Ctx::from_args("C28", Level::Exploration);
    vcommon::silence_panics();
    testutils::hermetic_git();
    let layouts = layouts();
    if let Some((_sig, case)) = ctx.replay_case() {
        replay(&ctx, &case, &layouts);
        ctx.finish(Coverage { evaluations: 1, ..Default::default() });
    }

    // the git version is part of the reference
    let version = git_command(ctx.scratch())
        .arg("--version")
        .output()
        .map(|o| String::from_utf8_lossy(&o.stdout).trim().to_string())
        .unwrap_or_else(|e| machinery_failure(&format!("git is not runnable: {e}")));
    if !version.starts_with("git version") {
        machinery_failure(&format!("unexpected git --version output: {version:?}"));
    }

    let threads = rayon::current_num_threads().max(1);
    let envs: Vec<Mutex<GitEnv>> = (0..threads + 1)
        .into_par_iter()
        .map(|i| Mutex::new(GitEnv::new(&ctx.scratch().join(format!("git{i}")), &layouts)))
        .collect();
    let env_for_thread = || {
        let i = rayon::current_thread_index().map(|i| i % threads).unwrap_or(threads);
        envs[i].lock().unwrap()
    };
    eprintln!("[C28] scratch work trees ready, {:.1}s", ctx.elapsed_s());

    // self-test of the reference driver: configurations whose answers are fixed by git's
    // documentation; a wrong answer means the driver (not jj) is broken. The sub arrangement
    // is asked through the long-lived process and through fresh processes, alternating two
    // configurations with opposite answers, so that a stale cache would show.
    {
        let mut env = env_for_thread();
        let cfg = Config { sub: false, global: None, root: Some("a/\n!b\n".into()), nested: None };
        let l4 = env.ask_top(&cfg, &layouts, L4);
        let l2 = env.ask_top(&cfg, &layouts, L2);
        let l1 = env.ask_top(&cfg, &layouts, L1);
        let find = |ans: &[GitAnswer], li: usize, p: &str| {
            let i = layouts[li].queries.iter().position(|q| q.path == p).unwrap();
            ans[i].clone()
        };
        let ok = find(&l4, L4, "a").ignored
            && !find(&l1, L1, "a").ignored
            && find(&l2, L2, "a/b").ignored
            && !find(&l2, L2, "b/b").ignored
            && find(&l2, L2, "b/b").pattern == "!b"
            && !find(&l2, L2, "b/ab").ignored
            && find(&l2, L2, "b/ab").pattern.is_empty();
        if !ok {
            machinery_failure("the git check-ignore driver does not give the documented answers on the self-test (top)");
        }
        let one = Config { sub: true, global: None, root: Some("/a\n".into()), nested: None };
        let two = Config { sub: true, global: None, root: Some("b\n".into()), nested: Some("!b\n".into()) };
        for round in 0..2 {
            for stream in [true, false] {
                if !stream && round > 0 {
                    continue;
                }
                let mut ask = |cfg: &Config, li: usize| {
                    if stream { env.ask_sub_stream(cfg, &layouts, li).1 } else { env.ask_sub_oneshot(cfg, &layouts, li).1 }
                };
                let a2 = ask(&one, L2);
                let b2 = ask(&two, L2);
                let b4 = ask(&two, L4);
                let a1 = ask(&one, L1);
                let ok = find(&a1, L1, "a").ignored
                    && !find(&a1, L1, "b").ignored
                    && !find(&a2, L2, "b/a").ignored
                    && find(&a2, L2, "a/b").ignored
                    && find(&b2, L2, "ab/b").ignored
                    && !find(&b2, L2, "a/b").ignored
                    && find(&b2, L2, "a/b").pattern == "!b"
                    && !find(&b2, L2, "b/a").pattern.is_empty()
                    && find(&b4, L4, "b/b/b").ignored
                    && !find(&b4, L4, "ab").ignored;
                if !ok {
                    machinery_failure(&format!(
                        "the git check-ignore driver does not give the documented answers on the self-test (sub, round {round}, {})",
                        if stream { "long-lived process" } else { "fresh process" }
                    ));
                }
            }
        }
    }

    let ls = line_sets();
    let fams = families(ctx.thorough(), &ls);
    let snap_cfgs = snapshot_family(ctx.thorough(), &ls);
    let samples = Samples::new(8);
    let cross_checked = Counter::new();
    // violations other than the one attributed cause (vacuity is only enforced without them)
    let other_violations = Counter::new();
    let snap_runs = Counter::new();
    let snap_tracked = Counter::new();
    let snap_ignored = Counter::new();

    // Work items: a (configuration, layout) pair of arrangement top (one git process), a
    // configuration of arrangement sub (long-lived process), a snapshot of route 2. The three
    // kinds run one after the other (mixing them was measurably slower: they contend on the
    // scratch file system), each kind in parallel over all families.
    enum Work<'a> {
        Top { fam: usize, ci: usize, cfg: &'a Config, li: usize },
        Sub { fam: usize, ci: usize, cfg: &'a Config },
        Snap { cfg: &'a Config, li: usize },
    }
    let mut slow: Vec<Work> = vec![];
    let mut fast: Vec<Work> = vec![];
    let mut snaps: Vec<Work> = vec![];
    for (fam, (_, cfgs)) in fams.iter().enumerate() {
        for (ci, cfg) in cfgs.iter().enumerate() {
            if cfg.sub {
                fast.push(Work::Sub { fam, ci, cfg });
            } else {
                for li in layouts_for(cfg, ctx.thorough()) {
                    slow.push(Work::Top { fam, ci, cfg, li });
                }
            }
        }
    }
    for cfg in &snap_cfgs {
        let l1 = if cfg.nested.is_some() { L1N } else { L1 };
        for li in [l1, L2, L3] {
            snaps.push(Work::Snap { cfg, li });
        }
    }
    // per configuration of arrangement top: bit 1 = some path ignored, bit 2 = a negation decided
    let top_flags: Vec<Vec<std::sync::atomic::AtomicU8>> = fams
        .iter()
        .map(|(_, cfgs)| cfgs.iter().map(|_| std::sync::atomic::AtomicU8::new(0)).collect())
        .collect();
    let new_tallies = || -> Vec<Tally> { fams.iter().map(|_| Tally::default()).collect() };
    let process = |items: &[Work], max_len: usize| -> Vec<Tally> {
        items
        .par_iter()
        .with_max_len(max_len)
        .fold(new_tallies, |mut tallies, work| {
            let mut found: Vec<Mismatch> = vec![];
            match work {
                Work::Top { fam, ci, cfg, li } => {
                    let env = env_for_thread();
                    let tally = &mut tallies[*fam];
                    match chain_failure(cfg, catch(|| build_chains(cfg, None))) {
                        Ok(chains) => {
                            let answers = env.ask_top(cfg, &layouts, *li);
                            tally.git_processes += 1;
                            let mut pc = PerConfig { any_ignored: false, any_negative: false };
                            for (q, g) in layouts[*li].queries.iter().zip(&answers) {
                                judge(cfg, &chains, q, &q.path, g, tally, &mut pc, &mut found);
                            }
                            top_flags[*fam][*ci].fetch_or(
                                pc.any_ignored as u8 | (pc.any_negative as u8) << 1,
                                std::sync::atomic::Ordering::Relaxed,
                            );
                        }
                        Err(m) => found.push(m),
                    }
                }
                Work::Sub { fam, ci, cfg } => {
                    let mut env = env_for_thread();
                    let tally = &mut tallies[*fam];
                    let before = tally.git_ignored;
                    // every 389th configuration is also asked through a fresh git process
                    let mode = if ci % 389 == 0 { SubMode::Both } else { SubMode::Stream };
                    if mode == SubMode::Both {
                        cross_checked.inc();
                    }
                    found = run_sub(cfg, &mut env, &layouts, mode, tally);
                    if tally.git_ignored > before + 10 && samples.wants_more() && ci % 7 == 3 {
                        samples.offer(|| cfg.to_json());
                    }
                }
                Work::Snap { cfg, li } => match check_snapshot(cfg, &layouts[*li]) {
                    Ok((t, i)) => {
                        snap_runs.inc();
                        snap_tracked.add(t as u64);
                        snap_ignored.add(i as u64);
                    }
                    Err(m) => found.push(m),
                },
            }
            for m in found {
                if m.signature != CR_AT_EOF_SIGNATURE {
                    other_violations.inc();
                }
                ctx.violation(&m.signature, m.message, m.case);
            }
            tallies
        })
        .reduce(new_tallies, |mut a, b| {
            for (x, y) in a.iter_mut().zip(b) {
                x.merge(y);
            }
            a
        })
    };
    let mut fam_tallies = new_tallies();
    for (what, items, max_len) in [("arrangement top", &slow, 1), ("arrangement sub", &fast, 32), ("snapshot route", &snaps, 8)] {
        for (x, y) in fam_tallies.iter_mut().zip(process(items, max_len)) {
            x.merge(y);
        }
        eprintln!(
            "[C28] {what}: {} work items done, {:.1}s (git wait summed over threads {:.1}s)",
            items.len(),
            ctx.elapsed_s(),
            GIT_NANOS.load(std::sync::atomic::Ordering::Relaxed) as f64 / 1e9
        );
    }
    for e in &envs {
        e.lock().unwrap().shutdown();
    }
    let mut total = Tally::default();
    let mut family_counts = serde_json::Map::new();
    for (fam, (name, cfgs)) in fams.iter().enumerate() {
        let mut tally = std::mem::take(&mut fam_tallies[fam]);
        for (ci, cfg) in cfgs.iter().enumerate() {
            if !cfg.sub {
                let f = top_flags[fam][ci].load(std::sync::atomic::Ordering::Relaxed);
                tally.configs += 1;
                tally.configs_with_ignored += (f & 1) as u64;
                tally.configs_with_negative += (f >> 1 & 1) as u64;
            }
        }
        if tally.configs != cfgs.len() as u64 && other_violations.get() == 0 {
            machinery_failure(&format!("family {name}: {} of {} configurations were evaluated", tally.configs, cfgs.len()));
        }
        if tally.comparisons == 0 && other_violations.get() == 0 {
            machinery_failure(&format!("family {name}: nothing was compared"));
        }
        if let Some(c) = cfgs.get(cfgs.len() / 2) {
            samples.offer(|| c.to_json());
        }
        family_counts.insert(
            name.to_string(),
            json!({"configurations": cfgs.len(), "comparisons": tally.comparisons, "decided_by_a_rule": tally.nontrivial,
                   "git_processes": tally.git_processes}),
        );
        total.merge(tally);
    }
    eprintln!(
        "[C28] {} configurations + {} snapshots, {} git processes, {:.1}s (git wait summed over threads {:.1}s)",
        total.configs,
        snap_runs.get(),
        total.git_processes,
        ctx.elapsed_s(),
        GIT_NANOS.load(std::sync::atomic::Ordering::Relaxed) as f64 / 1e9
    );

    // vacuity: which rules decided at least one query
    let mut decided_lines: BTreeMap<&str, BTreeSet<&str>> = BTreeMap::new();
    for (pos, pattern) in total.deciding.keys() {
        decided_lines.entry(pos.as_str()).or_default().insert(pattern.as_str());
    }
    let mut token_hits: BTreeMap<&str, u64> = TOKENS.iter().map(|t| (*t, 0)).collect();
    for ((_, pattern), n) in &total.deciding {
        for t in TOKENS {
            if pattern.contains(t) {
                *token_hits.get_mut(t).unwrap() += n;
            }
        }
    }
    // git prints the pattern as written, without trailing blanks
    let mut never: Vec<String> = vec![];
    for l in &ls.full {
        let shown = l.trim_end_matches([' ', '\r']);
        let hit = decided_lines.values().any(|s| s.contains(shown) || s.contains(l.as_str()));
        if !hit {
            never.push(l.clone());
        }
    }
    let flags = |pred: &dyn Fn(&str) -> bool| -> u64 {
        total.deciding.iter().filter(|((_, p), _)| pred(p)).map(|(_, n)| *n).sum()
    };
    let neg_decides = flags(&|p| p.starts_with('!'));
    let anchored_decides = flags(&|p| p.trim_start_matches('!').starts_with('/'));
    let dironly_decides = flags(&|p| p.ends_with('/'));
    let globstar_decides = flags(&|p| p.contains("**"));
    let escape_decides = flags(&|p| p.contains('\\'));
    if other_violations.get() == 0 {
        for (what, n) in [
            ("negation", neg_decides),
            ("anchored", anchored_decides),
            ("directory-only", dironly_decides),
            ("globstar", globstar_decides),
            ("escape", escape_decides),
            ("pruned-by-parent", total.jj_pruned_by_parent),
            ("snapshots", snap_runs.get()),
            ("snapshot-ignored-files", snap_ignored.get()),
        ] {
            if n == 0 {
                machinery_failure(&format!("vacuous: no query was decided by a {what} rule"));
            }
        }
        for t in TOKENS {
            if token_hits[t] == 0 {
                machinery_failure(&format!("vacuous: no query was decided by a rule containing the token {t:?}"));
            }
        }
        for p in ["global", "root", "nested", "sub-root", "sub-nested"] {
            if !decided_lines.contains_key(p) {
                machinery_failure(&format!("vacuous: no rule of position {p} ever decided"));
            }
        }
    }

    let n_queries: usize = [L1, L2, L3, L4].iter().map(|&i| layouts[i].queries.len()).sum();
    let cov = Coverage {
        evaluations: total.comparisons + snap_runs.get(),
        distinct_nontrivial: total.nontrivial,
        rule: format!(
            "one evaluation = one (configuration, path, file|directory) comparison of jj's snapshot walk over the real \
             GitIgnoreFile with `git check-ignore --no-index` ({version}), plus one per real snapshot of route 2. \
             Configurations: arrangement top = global excludes / .gitignore / a/.gitignore, arrangement sub = \
             <slot>/.gitignore / <slot>/a/.gitignore; lines = [!][/]body[/] with bodies of 1-2 components over \
             {TOKENS:?} plus the special lines {SPECIALS:?}; line sets full={} core={} mini={} tiny={}; families {:?}; \
             configurations are de-duplicated, so all (configuration, query) pairs are distinct. Paths: every file and \
             every directory of depth <= 2 over the names {NAMES:?} and of depth 3 below {DEEP_FIRST:?} ({n_queries} \
             queries per configuration; with a nested file the file `a` is not asked). Non-trivial = git reports a \
             deciding pattern (positive or negative) for the path.",
            ls.full.len(),
            ls.core.len(),
            ls.mini.len(),
            ls.tiny.len(),
            fams.iter().map(|(n, c)| format!("{n}={}", c.len())).collect::<Vec<_>>()
        ),
        samples: samples.take(),
        exhaustive: true,
        extra: [
            ("configurations".to_string(), json!(total.configs)),
            ("families".to_string(), Value::Object(family_counts)),
            ("queries_per_configuration".to_string(), json!(n_queries)),
            ("git_version".to_string(), json!(version)),
            ("git_processes".to_string(), json!(total.git_processes)),
            ("git_long_lived_processes".to_string(), json!(STREAMERS.load(std::sync::atomic::Ordering::Relaxed))),
            ("sub_configurations_cross_checked_with_a_fresh_git_process".to_string(), json!(cross_checked.get())),
            ("git_wait_s_summed_over_threads".to_string(), json!(GIT_NANOS.load(std::sync::atomic::Ordering::Relaxed) / 1_000_000_000)),
            ("git_says_ignored".to_string(), json!(total.git_ignored)),
            ("git_negative_rule_decides".to_string(), json!(total.git_negative_decides)),
            ("ignored_because_parent_dir_pruned".to_string(), json!(total.jj_pruned_by_parent)),
            ("configurations_with_an_ignored_path".to_string(), json!(total.configs_with_ignored)),
            ("configurations_with_a_deciding_negation".to_string(), json!(total.configs_with_negative)),
            ("decided_by_negation".to_string(), json!(neg_decides)),
            ("decided_by_anchored_rule".to_string(), json!(anchored_decides)),
            ("decided_by_directory_only_rule".to_string(), json!(dironly_decides)),
            ("decided_by_globstar_rule".to_string(), json!(globstar_decides)),
            ("decided_by_escaped_rule".to_string(), json!(escape_decides)),
            ("decisions_per_token".to_string(), json!(token_hits)),
            (
                "distinct_deciding_rules_per_position".to_string(),
                json!(decided_lines.iter().map(|(k, v)| (k.to_string(), v.len())).collect::<BTreeMap<_, _>>()),
            ),
            ("full_lines".to_string(), json!(ls.full.len())),
            ("full_lines_that_never_decided".to_string(), json!(never.len())),
            ("full_lines_that_never_decided_examples".to_string(), json!(never.iter().take(16).collect::<Vec<_>>())),
            ("snapshot_route_configurations".to_string(), json!(snap_cfgs.len())),
            ("snapshot_route_snapshots".to_string(), json!(snap_runs.get())),
            ("snapshot_route_files_tracked".to_string(), json!(snap_tracked.get())),
            ("snapshot_route_files_ignored".to_string(), json!(snap_ignored.get())),
        ]
        .into_iter()
        .collect(),
        assumptions: vec![
            format!("the reference is the installed {version}, not a specification; it runs with an empty environment, no system/global configuration and core.excludesFile given explicitly"),
            "the global excludes are chained at the repository root in front of the root .gitignore (what the CLI does for core.excludesFile); .git/info/exclude is not modelled".into(),
            "route 1 re-states the directory walk of FileSnapshotter (prune on matches_dir, chain per directory); route 2 checks that re-statement against the real snapshotter on a sub-family".into(),
            "outside the bound: more than 2 lines per file, more than 2 components per pattern, other character classes, core.ignoreCase, non-UTF-8 names, tracked files inside ignored directories".into(),
        ],
        ..Default::default()
    };
    ctx.finish(cov);
}

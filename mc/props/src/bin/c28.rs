//! C28 — Ignore rules behave like Git's.
//!
//! Bounded-exhaustive enumeration of ignore *configurations* (a global excludes file, a root
//! `.gitignore`, a nested `a/.gitignore`, each with at most two lines built from a token
//! alphabet that covers negation, anchoring, directory-only patterns, `*`, `**`, `?`,
//! character classes, escapes, comments and trailing spaces) crossed with every file and every
//! directory path of depth <= 3 over six names.
//!
//! Reference: the installed `git check-ignore --no-index -v -n -z --stdin`, run hermetically
//! (empty environment, no system/global configuration, `core.excludesFile` given explicitly)
//! in scratch work trees in which every queried path really exists with the queried type.
//!
//! Code under test, route 1 (all configurations): the walk the snapshotter performs, written
//! out with the real `GitIgnoreFile::chain` / `matches_dir` / `matches_file`: the base ignores
//! are chained with the `.gitignore` of every directory on the way down; a directory that
//! matches is pruned (everything below it is ignored, its `.gitignore` is not read); the
//! entry itself is tested with `matches_file` / `matches_dir`.
//!
//! Route 2 (a sub-family): the real snapshotter (`TestWorkspace::snapshot_with_options` with
//! `base_ignores`) on a working copy that contains the same files; the set of tracked paths
//! must be exactly the files that route 1 (and therefore git) calls "not ignored". This
//! binds the emulated walk of route 1 to `local_working_copy.rs`.

use std::collections::BTreeMap;
use std::collections::BTreeSet;
use std::path::Path;
use std::path::PathBuf;
use std::process::Command;
use std::process::Stdio;
use std::sync::Arc;
use std::sync::Mutex;

use jj_lib::gitignore::GitIgnoreFile;
use jj_lib::matchers::EverythingMatcher;
use jj_lib::matchers::NothingMatcher;
use jj_lib::repo_path::RepoPath;
use jj_lib::working_copy::SnapshotOptions;
use rayon::prelude::*;
use serde_json::Value;
use serde_json::json;
use testutils::TestRepoBackend;
use testutils::TestWorkspace;
use vcommon::Counter;
use vcommon::Coverage;
use vcommon::Ctx;
use vcommon::Level;
use vcommon::Samples;
use vcommon::catch;
use vcommon::machinery_failure;

// ---------------------------------------------------------------------------------------
// the path universe

/// Names of path components. `ab` separates `a*` from `a` and `?` from `*`; `!a`, `#x` and
/// `a ` (trailing space) are the names the escaped tokens are about.
const NAMES: [&str; 6] = ["a", "b", "ab", "!a", "#x", "a "];

#[derive(Clone, Debug)]
struct Query {
    path: String,
    /// `a`, `a/b`, `a/b/c` (the path itself last).
    prefixes: Vec<String>,
    is_dir: bool,
}

fn query(path: &str, is_dir: bool) -> Query {
    let comps: Vec<&str> = path.split('/').collect();
    let prefixes = (1..=comps.len()).map(|n| comps[..n].join("/")).collect();
    Query { path: path.to_string(), prefixes, is_dir }
}

fn paths_of_depth(d: usize) -> Vec<String> {
    let mut out = vec![String::new()];
    for _ in 0..d {
        let mut next = vec![];
        for p in &out {
            for n in NAMES {
                next.push(if p.is_empty() { n.to_string() } else { format!("{p}/{n}") });
            }
        }
        out = next;
    }
    out
}

/// A disk layout: a consistent tree in which every queried path has the queried type.
#[derive(Clone, Debug)]
struct Layout {
    name: &'static str,
    dirs: Vec<String>,
    files: Vec<String>,
    queries: Vec<Query>,
    /// whether `a` is a directory (so that `a/.gitignore` can exist)
    a_is_dir: bool,
}

const L1: usize = 0;
const L1N: usize = 1;
const L2: usize = 2;
const L3: usize = 3;
const L4: usize = 4;

fn layouts() -> Vec<Layout> {
    let d1 = paths_of_depth(1);
    let d2 = paths_of_depth(2);
    let d3 = paths_of_depth(3);
    let files_q = |v: &[String]| v.iter().map(|p| query(p, false)).collect::<Vec<_>>();
    let l1 = Layout { name: "L1", dirs: vec![], files: d1.clone(), queries: files_q(&d1), a_is_dir: false };
    let d1_no_a: Vec<String> = d1.iter().filter(|p| *p != "a").cloned().collect();
    let l1n = Layout {
        name: "L1n",
        dirs: vec!["a".to_string()],
        files: d1_no_a.clone(),
        queries: files_q(&d1_no_a),
        a_is_dir: true,
    };
    let l2 = Layout { name: "L2", dirs: d1.clone(), files: d2.clone(), queries: files_q(&d2), a_is_dir: true };
    let mut d12 = d1.clone();
    d12.extend(d2.iter().cloned());
    let l3 = Layout { name: "L3", dirs: d12.clone(), files: d3.clone(), queries: files_q(&d3), a_is_dir: true };
    let mut d123 = d12.clone();
    d123.extend(d3.iter().cloned());
    let l4 = Layout {
        name: "L4",
        dirs: d123.clone(),
        files: vec![],
        queries: d123.iter().map(|p| query(p, true)).collect(),
        a_is_dir: true,
    };
    vec![l1, l1n, l2, l3, l4]
}

fn layouts_for(cfg: &Config) -> [usize; 4] {
    if cfg.nested.is_some() { [L1N, L2, L3, L4] } else { [L1, L2, L3, L4] }
}

// ---------------------------------------------------------------------------------------
// configurations

#[derive(Clone, Debug, PartialEq, Eq, PartialOrd, Ord)]
struct Config {
    /// contents of the global excludes file, the root `.gitignore`, and `a/.gitignore`
    global: Option<String>,
    root: Option<String>,
    nested: Option<String>,
}

impl Config {
    fn to_json(&self) -> Value {
        json!({"global": self.global, "root": self.root, "nested": self.nested})
    }
    fn from_json(v: &Value) -> Config {
        let get = |k: &str| v[k].as_str().map(|s| s.to_string());
        Config { global: get("global"), root: get("root"), nested: get("nested") }
    }
    fn single(pos: usize, content: String) -> Config {
        let mut c = Config { global: None, root: None, nested: None };
        c.set(pos, content);
        c
    }
    fn set(&mut self, pos: usize, content: String) {
        match pos {
            0 => self.global = Some(content),
            1 => self.root = Some(content),
            _ => self.nested = Some(content),
        }
    }
    fn show(&self) -> String {
        let f = |o: &Option<String>| match o {
            None => "-".to_string(),
            Some(s) => format!("{s:?}"),
        };
        format!("global={} root/.gitignore={} a/.gitignore={}", f(&self.global), f(&self.root), f(&self.nested))
    }
}

fn content(lines: &[&str]) -> String {
    let mut s = lines.join("\n");
    s.push('\n');
    s
}

const TOKENS: [&str; 11] = ["a", "b", "*", "**", "a*", "?", "[ab]", "\\!a", "a\\ ", "#x", "\\#x"];
const TOKENS2_CORE: [&str; 4] = ["a", "b", "*", "**"];
const SPECIALS: [&str; 12] = ["", " ", "a ", "a  ", "!", "/", "\\", "a\r", "!a ", "a/ ", "# a", "a\\"];
const MINI_BODIES: [&str; 6] = ["a", "*", "a/b", "a/*", "**/b", "a/**"];
const TINY_BODIES: [&str; 4] = ["a", "a/", "*", "a/b"];

fn gen_lines(tokens1: &[&str], tokens2: &[&str]) -> Vec<String> {
    let mut bodies: Vec<String> = tokens1.iter().map(|t| t.to_string()).collect();
    for x in tokens2 {
        for y in tokens2 {
            bodies.push(format!("{x}/{y}"));
        }
    }
    with_flags(&bodies)
}

fn with_flags(bodies: &[String]) -> Vec<String> {
    let mut out = vec![];
    for neg in ["", "!"] {
        for anchor in ["", "/"] {
            for body in bodies {
                for dir in ["", "/"] {
                    out.push(format!("{neg}{anchor}{body}{dir}"));
                }
            }
        }
    }
    out
}

fn dedup(v: Vec<String>) -> Vec<String> {
    let mut seen = BTreeSet::new();
    v.into_iter().filter(|l| seen.insert(l.clone())).collect()
}

struct LineSets {
    full: Vec<String>,
    core: Vec<String>,
    mini: Vec<String>,
    tiny: Vec<String>,
}

fn line_sets() -> LineSets {
    let mut full = gen_lines(&TOKENS, &TOKENS);
    full.extend(SPECIALS.iter().map(|s| s.to_string()));
    let core = gen_lines(&TOKENS, &TOKENS2_CORE);
    let mini = with_flags(&MINI_BODIES.iter().map(|s| s.to_string()).collect::<Vec<_>>());
    let mut tiny = vec![];
    for neg in ["", "!"] {
        for b in TINY_BODIES {
            tiny.push(format!("{neg}{b}"));
        }
    }
    LineSets { full: dedup(full), core: dedup(core), mini: dedup(mini), tiny: dedup(tiny) }
}

const POS_NAMES: [&str; 3] = ["global", "root", "nested"];

/// The enumerated families, in order, with a name for the coverage statement.
fn families(thorough: bool, ls: &LineSets) -> Vec<(&'static str, Vec<Config>)> {
    let mut fams: Vec<(&'static str, Vec<Config>)> = vec![];
    // A: one file, one line, full line set, every position (+ no final newline at the root)
    let mut a = vec![];
    for pos in 0..3 {
        for l in &ls.full {
            a.push(Config::single(pos, content(&[l])));
        }
    }
    for l in &ls.full {
        if !l.is_empty() {
            a.push(Config::single(1, l.clone()));
        }
    }
    fams.push(("A:one-file-one-line(full)", a));
    // B: one file, two lines
    let mut b = vec![];
    let (b_root, b_other): (&[String], &[String]) =
        if thorough { (&ls.core, &ls.mini) } else { (&ls.mini, &ls.tiny) };
    for pos in 0..3 {
        let set = if pos == 1 { b_root } else { b_other };
        for l1 in set {
            for l2 in set {
                b.push(Config::single(pos, content(&[l1, l2])));
            }
        }
    }
    fams.push(("B:one-file-two-lines", b));
    // C: two files, one line each
    let c_set: &[String] = if thorough { &ls.core } else { &ls.mini };
    let mut c = vec![];
    for (p1, p2) in [(0usize, 1usize), (1, 2), (0, 2)] {
        for l1 in c_set {
            for l2 in c_set {
                let mut cfg = Config::single(p1, content(&[l1]));
                cfg.set(p2, content(&[l2]));
                c.push(cfg);
            }
        }
    }
    fams.push(("C:two-files-one-line-each", c));
    // D: three files, one line each
    let d_set: &[String] = if thorough { &ls.mini } else { &ls.tiny };
    let mut d = vec![];
    for l0 in d_set {
        for l1 in d_set {
            for l2 in d_set {
                let mut cfg = Config::single(0, content(&[l0]));
                cfg.set(1, content(&[l1]));
                cfg.set(2, content(&[l2]));
                d.push(cfg);
            }
        }
    }
    fams.push(("D:three-files-one-line-each", d));
    // E: two files, two lines each (thorough)
    if thorough {
        let mut e = vec![];
        for (p1, p2) in [(0usize, 1usize), (1, 2), (0, 2)] {
            for l1 in &ls.tiny {
                for l2 in &ls.tiny {
                    for l3 in &ls.tiny {
                        for l4 in &ls.tiny {
                            let mut cfg = Config::single(p1, content(&[l1, l2]));
                            cfg.set(p2, content(&[l3, l4]));
                            e.push(cfg);
                        }
                    }
                }
            }
        }
        fams.push(("E:two-files-two-lines-each(tiny)", e));
    }
    // distinctness across and inside families
    let mut seen: BTreeSet<Config> = BTreeSet::new();
    for (_, v) in &mut fams {
        v.retain(|c| seen.insert(c.clone()));
    }
    fams
}

/// The sub-family also run through the real snapshotter.
fn snapshot_family(thorough: bool, ls: &LineSets) -> Vec<Config> {
    let mut lines: Vec<String> = if thorough { ls.core.clone() } else { ls.mini.clone() };
    if thorough {
        lines.extend(SPECIALS.iter().map(|s| s.to_string()));
    } else {
        // the escape / class tokens once each, so that the quick tier also sees them on disk
        for t in TOKENS {
            lines.push(t.to_string());
            lines.push(format!("{t}/"));
        }
    }
    let lines = dedup(lines);
    let mut out = vec![];
    for pos in 0..3 {
        for l in &lines {
            out.push(Config::single(pos, content(&[l])));
        }
    }
    // a few multi-file configurations: negation below an ignored directory, nested overrides
    for (g, r, n) in [
        (Some("*\n"), Some("!a/\n"), Some("!b\n")),
        (Some("a/\n"), Some("!a/\n"), Some("*\n!b\n")),
        (None, Some("a/b\n"), Some("!b\n")),
        (None, Some("/a/*\n"), Some("!/b\n")),
        (Some("!b\n"), Some("b\n"), None),
        (None, Some("*\n!.gitignore\n"), Some("!*\n")),
    ] {
        out.push(Config {
            global: g.map(|s: &str| s.to_string()),
            root: r.map(|s: &str| s.to_string()),
            nested: n.map(|s: &str| s.to_string()),
        });
    }
    out
}

// ---------------------------------------------------------------------------------------
// the reference: git check-ignore in scratch work trees

struct GitEnv {
    /// one work tree per layout
    trees: Vec<PathBuf>,
    global_file: PathBuf,
    home: PathBuf,
}

#[derive(Clone, Debug, Default)]
struct GitAnswer {
    ignored: bool,
    source: String,
    line: String,
    pattern: String,
}

fn git_command(home: &Path) -> Command {
    let mut cmd = Command::new("git");
    cmd.env_clear()
        .env("PATH", "/usr/local/bin:/usr/bin:/bin")
        .env("HOME", home)
        .env("XDG_CONFIG_HOME", home.join("xdg"))
        .env("GIT_CONFIG_GLOBAL", "/dev/null")
        .env("GIT_CONFIG_SYSTEM", "/dev/null")
        .env("GIT_CONFIG_NOSYSTEM", "1")
        .env("GIT_CEILING_DIRECTORIES", home)
        .env("LC_ALL", "C");
    cmd
}

impl GitEnv {
    fn new(dir: &Path, layouts: &[Layout]) -> GitEnv {
        let fail = |what: &str, e: String| -> ! { machinery_failure(&format!("git scratch setup: {what}: {e}")) };
        std::fs::create_dir_all(dir).unwrap_or_else(|e| fail("mkdir", e.to_string()));
        let home = dir.join("home");
        std::fs::create_dir_all(&home).unwrap_or_else(|e| fail("mkdir home", e.to_string()));
        let mut trees = vec![];
        for l in layouts {
            let t = dir.join(l.name);
            std::fs::create_dir_all(&t).unwrap_or_else(|e| fail("mkdir tree", e.to_string()));
            let out = git_command(&home)
                .args(["init", "-q", "--template="])
                .arg(&t)
                .output()
                .unwrap_or_else(|e| fail("spawn git init", e.to_string()));
            if !out.status.success() {
                fail("git init", String::from_utf8_lossy(&out.stderr).to_string());
            }
            for d in &l.dirs {
                std::fs::create_dir_all(t.join(d)).unwrap_or_else(|e| fail("mkdir layout dir", e.to_string()));
            }
            for f in &l.files {
                std::fs::write(t.join(f), b"x").unwrap_or_else(|e| fail("write layout file", e.to_string()));
            }
            // the query list is fixed per layout: NUL separated
            let mut q = vec![];
            for query in &l.queries {
                q.extend_from_slice(query.path.as_bytes());
                q.push(0);
            }
            std::fs::write(dir.join(format!("{}.queries", l.name)), q)
                .unwrap_or_else(|e| fail("write queries", e.to_string()));
            trees.push(t);
        }
        GitEnv { trees, global_file: dir.join("global-excludes"), home }
    }

    fn install(&self, cfg: &Config, layouts: &[Layout], used: &[usize]) {
        let put = |path: PathBuf, content: &Option<String>| match content {
            Some(c) => std::fs::write(&path, c.as_bytes())
                .unwrap_or_else(|e| machinery_failure(&format!("write {}: {e}", path.display()))),
            None => {
                let _ = std::fs::remove_file(&path);
            }
        };
        put(self.global_file.clone(), &Some(cfg.global.clone().unwrap_or_default()));
        for &li in used {
            put(self.trees[li].join(".gitignore"), &cfg.root);
            if layouts[li].a_is_dir {
                put(self.trees[li].join("a/.gitignore"), &cfg.nested);
            } else if cfg.nested.is_some() {
                machinery_failure("layout without directory a used for a nested configuration");
            }
        }
    }

    fn ask(&self, layouts: &[Layout], li: usize) -> Vec<GitAnswer> {
        let layout = &layouts[li];
        let tree = &self.trees[li];
        let qfile = tree.parent().unwrap().join(format!("{}.queries", layout.name));
        let stdin = std::fs::File::open(&qfile)
            .unwrap_or_else(|e| machinery_failure(&format!("open queries: {e}")));
        let out = git_command(&self.home)
            .arg("-C")
            .arg(tree)
            .arg("-c")
            .arg(format!("core.excludesFile={}", self.global_file.display()))
            .args(["check-ignore", "--no-index", "-v", "-n", "-z", "--stdin"])
            .stdin(Stdio::from(stdin))
            .stdout(Stdio::piped())
            .stderr(Stdio::piped())
            .output()
            .unwrap_or_else(|e| machinery_failure(&format!("cannot run git: {e}")));
        let code = out.status.code().unwrap_or(-1);
        if code != 0 && code != 1 {
            machinery_failure(&format!(
                "git check-ignore failed with status {code}: {}",
                String::from_utf8_lossy(&out.stderr)
            ));
        }
        let mut fields: Vec<&[u8]> = out.stdout.split(|b| *b == 0).collect();
        if fields.last().is_some_and(|f| f.is_empty()) {
            fields.pop();
        }
        if fields.len() != 4 * layout.queries.len() {
            machinery_failure(&format!(
                "git check-ignore printed {} fields for {} queries in {}",
                fields.len(),
                layout.queries.len(),
                layout.name
            ));
        }
        let mut answers = Vec::with_capacity(layout.queries.len());
        for (i, q) in layout.queries.iter().enumerate() {
            let f = &fields[4 * i..4 * i + 4];
            if f[3] != q.path.as_bytes() {
                machinery_failure(&format!(
                    "git check-ignore answered for {:?} where {:?} was asked",
                    String::from_utf8_lossy(f[3]),
                    q.path
                ));
            }
            let pattern = String::from_utf8_lossy(f[2]).to_string();
            answers.push(GitAnswer {
                ignored: !pattern.is_empty() && !pattern.starts_with('!'),
                source: String::from_utf8_lossy(f[0]).to_string(),
                line: String::from_utf8_lossy(f[1]).to_string(),
                pattern,
            });
        }
        answers
    }
}

// ---------------------------------------------------------------------------------------
// jj: the walk of the snapshotter over the real GitIgnoreFile

struct Chains {
    base: Arc<GitIgnoreFile>,
    root: Arc<GitIgnoreFile>,
    nested: Option<Arc<GitIgnoreFile>>,
}

fn rp(s: &str) -> &RepoPath {
    RepoPath::from_internal_string(s).unwrap_or_else(|e| machinery_failure(&format!("bad repo path {s:?}: {e}")))
}

fn build_chains(cfg: &Config) -> Result<Chains, String> {
    let base = match &cfg.global {
        // what the CLI does for core.excludesFile: chained at the root in front of everything
        Some(g) => GitIgnoreFile::empty()
            .chain(RepoPath::root(), Path::new("global-excludes"), g.as_bytes())
            .map_err(|e| e.to_string())?,
        None => GitIgnoreFile::empty(),
    };
    // FileSnapshotter::visit_directory: chain_with_file(dir, dir/.gitignore) when it exists
    let root = match &cfg.root {
        Some(r) => base
            .chain(RepoPath::root(), Path::new(".gitignore"), r.as_bytes())
            .map_err(|e| e.to_string())?,
        None => base.clone(),
    };
    let nested = match &cfg.nested {
        Some(n) => Some(
            root.chain(rp("a"), Path::new("a/.gitignore"), n.as_bytes())
                .map_err(|e| e.to_string())?,
        ),
        None => None,
    };
    Ok(Chains { base, root, nested })
}

/// Returns (ignored, decided by a pruned ancestor directory).
fn jj_ignored(ch: &Chains, q: &Query) -> (bool, bool) {
    let mut chain = &ch.root;
    let n = q.prefixes.len();
    for dir in &q.prefixes[..n - 1] {
        // process_dir_entry on a directory
        if chain.matches_dir(rp(dir)) {
            return (true, true);
        }
        // visit_directory of that directory
        if dir == "a"
            && let Some(nested) = &ch.nested
        {
            chain = nested;
        }
    }
    let p = rp(&q.path);
    let r = if q.is_dir { chain.matches_dir(p) } else { chain.matches_file(p) };
    (r, false)
}

// ---------------------------------------------------------------------------------------
// signatures

/// Abstracts a pattern line to its form, so that a signature names a class of patterns
/// rather than one configuration: literals -> `L`, the glob tokens stay.
fn line_form(line: &str) -> String {
    if line.is_empty() {
        return "none".to_string();
    }
    let mut s = line.to_string();
    for (from, to) in [
        ("\\!a", "<esc-bang>"),
        ("a\\ ", "<esc-space>"),
        ("\\#x", "<esc-hash>"),
        ("#x", "<hash>"),
        ("[ab]", "<class>"),
        ("a*", "<lit-star>"),
    ] {
        s = s.replace(from, to);
    }
    let mut out = String::new();
    let mut in_tag = false;
    for ch in s.chars() {
        match ch {
            '<' => {
                in_tag = true;
                out.push(ch);
            }
            '>' => {
                in_tag = false;
                out.push(ch);
            }
            'a' | 'b' if !in_tag => out.push('L'),
            ' ' => out.push('_'),
            '\r' => out.push_str("<cr>"),
            c => out.push(c),
        }
    }
    out
}

struct Mismatch {
    signature: String,
    message: String,
    case: Value,
}

fn compare(cfg: &Config, q: &Query, git: &GitAnswer, jj: bool, jj_pruned: bool) -> Option<Mismatch> {
    if git.ignored == jj {
        return None;
    }
    let dir = if jj { "jj-ignores-git-does-not" } else { "git-ignores-jj-does-not" };
    let kind = if q.is_dir { "dir" } else { "file" };
    let via = if jj_pruned { "/via-parent-dir" } else { "" };
    let signature = format!("C28/{dir}/{kind}{via}/git-rule:{}", line_form(&git.pattern));
    let message = format!(
        "{} {:?}: git check-ignore says {} (deciding pattern {:?} from {}:{}), jj's snapshot walk says {}{}; configuration: {}",
        if q.is_dir { "directory" } else { "file" },
        q.path,
        if git.ignored { "ignored" } else { "not ignored" },
        git.pattern,
        if git.source.is_empty() { "-" } else { &git.source },
        if git.line.is_empty() { "-" } else { &git.line },
        if jj { "ignored" } else { "not ignored" },
        if jj_pruned { " (an ancestor directory matched)" } else { "" },
        cfg.show()
    );
    let mut case = cfg.to_json();
    case["route"] = json!("walk");
    case["path"] = json!(q.path);
    case["is_dir"] = json!(q.is_dir);
    Some(Mismatch { signature, message, case })
}

// ---------------------------------------------------------------------------------------
// route 2: the real snapshotter

fn snapshot_tracked(cfg: &Config, layout: &Layout) -> Result<BTreeSet<String>, String> {
    let mut ws = TestWorkspace::init_with_backend(TestRepoBackend::Simple);
    let root = ws.workspace.workspace_root().to_path_buf();
    let must = |r: std::io::Result<()>| r.unwrap_or_else(|e| machinery_failure(&format!("working-copy setup: {e}")));
    for d in &layout.dirs {
        must(std::fs::create_dir_all(root.join(d)));
    }
    for f in &layout.files {
        must(std::fs::write(root.join(f), b"x"));
    }
    if let Some(r) = &cfg.root {
        must(std::fs::write(root.join(".gitignore"), r.as_bytes()));
    }
    if let Some(n) = &cfg.nested {
        must(std::fs::write(root.join("a/.gitignore"), n.as_bytes()));
    }
    let chains = build_chains(cfg)?;
    let options = SnapshotOptions {
        base_ignores: chains.base.clone(),
        progress: None,
        start_tracking_matcher: &EverythingMatcher,
        force_tracking_matcher: &NothingMatcher,
        max_new_file_size: u64::MAX,
    };
    let (tree, _stats) = ws.snapshot_with_options(&options).map_err(|e| e.to_string())?;
    let mut tracked = BTreeSet::new();
    for (path, value) in tree.entries() {
        value.map_err(|e| e.to_string())?;
        tracked.insert(path.as_internal_file_string().to_string());
    }
    Ok(tracked)
}

/// Files of the layout (+ the ignore files) that the walk of route 1 calls not ignored.
fn predicted_tracked(cfg: &Config, layout: &Layout) -> Result<BTreeSet<String>, String> {
    let chains = build_chains(cfg)?;
    let mut files: Vec<String> = layout.files.clone();
    if cfg.root.is_some() {
        files.push(".gitignore".to_string());
    }
    if cfg.nested.is_some() {
        files.push("a/.gitignore".to_string());
    }
    Ok(files
        .into_iter()
        .filter(|f| !jj_ignored(&chains, &query(f, false)).0)
        .collect())
}

fn check_snapshot(cfg: &Config, layout: &Layout) -> Result<(usize, usize), Mismatch> {
    let mk = |what: &str, msg: String| {
        let mut case = cfg.to_json();
        case["route"] = json!("snapshot");
        case["layout"] = json!(layout.name);
        Mismatch { signature: format!("C28/snapshot/{what}"), message: msg, case }
    };
    let predicted = catch(|| predicted_tracked(cfg, layout))
        .map_err(|e| mk("panic", format!("panic in GitIgnoreFile: {e}; {}", cfg.show())))?
        .map_err(|e| mk("chain-error", format!("{e}; {}", cfg.show())))?;
    let tracked = catch(|| snapshot_tracked(cfg, layout))
        .map_err(|e| mk("panic", format!("panic in snapshot: {e}; {}", cfg.show())))?
        .map_err(|e| mk("error", format!("snapshot failed: {e}; {}", cfg.show())))?;
    if predicted != tracked {
        let extra: Vec<&String> = tracked.difference(&predicted).take(5).collect();
        let missing: Vec<&String> = predicted.difference(&tracked).take(5).collect();
        let what = if !extra.is_empty() { "tracks-ignored-path" } else { "skips-unignored-path" };
        return Err(mk(
            what,
            format!(
                "layout {}: the snapshot tracks {} paths, the ignore walk predicts {}; tracked although ignored: {:?}; \
                 not tracked although not ignored: {:?}; {}",
                layout.name,
                tracked.len(),
                predicted.len(),
                extra,
                missing,
                cfg.show()
            ),
        ));
    }
    let total = layout.files.len() + cfg.root.is_some() as usize + cfg.nested.is_some() as usize;
    Ok((tracked.len(), total - tracked.len()))
}

// ---------------------------------------------------------------------------------------

#[derive(Default)]
struct Tally {
    comparisons: u64,
    nontrivial: u64,
    git_ignored: u64,
    git_negative_decides: u64,
    jj_pruned_by_parent: u64,
    configs_with_ignored: u64,
    configs_with_negative: u64,
    /// deciding (position, line) -> number of queries decided
    deciding: BTreeMap<(String, String), u64>,
}

impl Tally {
    fn merge(&mut self, o: Tally) {
        self.comparisons += o.comparisons;
        self.nontrivial += o.nontrivial;
        self.git_ignored += o.git_ignored;
        self.git_negative_decides += o.git_negative_decides;
        self.jj_pruned_by_parent += o.jj_pruned_by_parent;
        self.configs_with_ignored += o.configs_with_ignored;
        self.configs_with_negative += o.configs_with_negative;
        for (k, v) in o.deciding {
            *self.deciding.entry(k).or_insert(0) += v;
        }
    }
}

fn position_of_source(source: &str) -> &'static str {
    if source == ".gitignore" {
        "root"
    } else if source == "a/.gitignore" {
        "nested"
    } else if source.is_empty() {
        "-"
    } else {
        "global"
    }
}

fn run_config(cfg: &Config, env: &GitEnv, layouts: &[Layout], tally: &mut Tally) -> Vec<Mismatch> {
    let used = layouts_for(cfg);
    env.install(cfg, layouts, &used);
    let chains = match catch(|| build_chains(cfg)) {
        Ok(Ok(c)) => c,
        Ok(Err(e)) => {
            let mut case = cfg.to_json();
            case["route"] = json!("walk");
            return vec![Mismatch {
                signature: "C28/chain/error".into(),
                message: format!("GitIgnoreFile::chain failed: {e}; {}", cfg.show()),
                case,
            }];
        }
        Err(e) => {
            let mut case = cfg.to_json();
            case["route"] = json!("walk");
            return vec![Mismatch {
                signature: "C28/chain/panic".into(),
                message: format!("GitIgnoreFile::chain panicked: {e}; {}", cfg.show()),
                case,
            }];
        }
    };
    let mut out = vec![];
    let mut any_ignored = false;
    let mut any_negative = false;
    for &li in &used {
        let answers = env.ask(layouts, li);
        for (q, g) in layouts[li].queries.iter().zip(&answers) {
            let (jj, pruned) = match catch(|| jj_ignored(&chains, q)) {
                Ok(r) => r,
                Err(e) => {
                    let mut case = cfg.to_json();
                    case["route"] = json!("walk");
                    case["path"] = json!(q.path);
                    case["is_dir"] = json!(q.is_dir);
                    out.push(Mismatch {
                        signature: "C28/matches/panic".into(),
                        message: format!("GitIgnoreFile::matches panicked on {:?}: {e}; {}", q.path, cfg.show()),
                        case,
                    });
                    continue;
                }
            };
            tally.comparisons += 1;
            if !g.pattern.is_empty() {
                tally.nontrivial += 1;
                *tally
                    .deciding
                    .entry((position_of_source(&g.source).to_string(), g.pattern.clone()))
                    .or_insert(0) += 1;
                if g.ignored {
                    tally.git_ignored += 1;
                    any_ignored = true;
                } else {
                    tally.git_negative_decides += 1;
                    any_negative = true;
                }
            }
            if pruned {
                tally.jj_pruned_by_parent += 1;
            }
            if let Some(m) = compare(cfg, q, g, jj, pruned) {
                out.push(m);
            }
        }
    }
    tally.configs_with_ignored += any_ignored as u64;
    tally.configs_with_negative += any_negative as u64;
    out
}

fn replay(ctx: &Ctx, case: &Value, layouts: &[Layout]) {
    let cfg = Config::from_json(case);
    if case["route"] == "snapshot" {
        let name = case["layout"].as_str().unwrap_or("L3");
        let layout = layouts
            .iter()
            .find(|l| l.name == name)
            .unwrap_or_else(|| machinery_failure("unknown layout in replay file"));
        if let Err(m) = check_snapshot(&cfg, layout) {
            ctx.violation(&m.signature, m.message, m.case);
        }
        return;
    }
    let env = GitEnv::new(&ctx.scratch().join("git-replay"), layouts);
    let mut tally = Tally::default();
    let want_path = case["path"].as_str().map(|s| s.to_string());
    let want_dir = case["is_dir"].as_bool();
    for m in run_config(&cfg, &env, layouts, &mut tally) {
        let same_query = match (&want_path, want_dir) {
            (Some(p), Some(d)) => m.case["path"] == json!(p) && m.case["is_dir"] == json!(d),
            _ => true,
        };
        if same_query {
            ctx.violation(&m.signature, m.message, m.case);
        }
    }
}

fn main() {
    let ctx = Ctx::from_args("C28", Level::Exploration);
    vcommon::silence_panics();
    testutils::hermetic_git();
    let layouts = layouts();
    if let Some((_sig, case)) = ctx.replay_case() {
        replay(&ctx, &case, &layouts);
        ctx.finish(Coverage { evaluations: 1, ..Default::default() });
    }

    // the git version is part of the reference
    let version = git_command(ctx.scratch())
        .arg("--version")
        .output()
        .map(|o| String::from_utf8_lossy(&o.stdout).trim().to_string())
        .unwrap_or_else(|e| machinery_failure(&format!("git is not runnable: {e}")));
    if !version.starts_with("git version") {
        machinery_failure(&format!("unexpected git --version output: {version:?}"));
    }

    let threads = rayon::current_num_threads().max(1);
    let envs: Vec<Mutex<GitEnv>> = (0..threads + 1)
        .into_par_iter()
        .map(|i| Mutex::new(GitEnv::new(&ctx.scratch().join(format!("git{i}")), &layouts)))
        .collect();
    let env_for_thread = || {
        let i = rayon::current_thread_index().map(|i| i % threads).unwrap_or(threads);
        envs[i].lock().unwrap()
    };

    // self-test of the reference driver: three configurations whose answers are fixed by
    // git's documentation; a wrong answer means the driver (not jj) is broken.
    {
        let env = env_for_thread();
        let cfg = Config { global: None, root: Some("a/\n!b\n".into()), nested: None };
        env.install(&cfg, &layouts, &layouts_for(&cfg));
        let l4 = env.ask(&layouts, L4);
        let l2 = env.ask(&layouts, L2);
        let l1 = env.ask(&layouts, L1);
        let find = |ans: &[GitAnswer], li: usize, p: &str| {
            let i = layouts[li].queries.iter().position(|q| q.path == p).unwrap();
            ans[i].clone()
        };
        let ok = find(&l4, L4, "a").ignored
            && !find(&l1, L1, "a").ignored
            && find(&l2, L2, "a/b").ignored
            && !find(&l2, L2, "b/b").ignored
            && find(&l2, L2, "b/b").pattern == "!b"
            && !find(&l2, L2, "b/ab").ignored
            && find(&l2, L2, "b/ab").pattern.is_empty();
        if !ok {
            machinery_failure("the git check-ignore driver does not give the documented answers on the self-test");
        }
    }

    let ls = line_sets();
    let fams = families(ctx.thorough(), &ls);
    let samples = Samples::new(8);
    let configs_run = Counter::new();
    let mut total = Tally::default();
    let mut family_counts = serde_json::Map::new();
    for (name, cfgs) in &fams {
        let tally = cfgs
            .par_iter()
            .with_min_len(8)
            .fold(Tally::default, |mut tally, cfg| {
                let env = env_for_thread();
                let before = tally.git_ignored;
                for m in run_config(cfg, &env, &layouts, &mut tally) {
                    ctx.violation(&m.signature, m.message, m.case);
                }
                configs_run.inc();
                if tally.git_ignored > before + 20 && samples.wants_more() {
                    samples.offer(|| cfg.to_json());
                }
                tally
            })
            .reduce(Tally::default, |mut a, b| {
                a.merge(b);
                a
            });
        family_counts.insert(
            name.to_string(),
            json!({"configurations": cfgs.len(), "comparisons": tally.comparisons, "decided_by_a_rule": tally.nontrivial}),
        );
        total.merge(tally);
        eprintln!("[C28] family {name}: {} configurations, {:.1}s", cfgs.len(), ctx.elapsed_s());
    }

    // route 2
    let snap_cfgs = snapshot_family(ctx.thorough(), &ls);
    let snap_runs = Counter::new();
    let snap_tracked = Counter::new();
    let snap_ignored = Counter::new();
    snap_cfgs.par_iter().for_each(|cfg| {
        let l1 = if cfg.nested.is_some() { L1N } else { L1 };
        for li in [l1, L2, L3] {
            match check_snapshot(cfg, &layouts[li]) {
                Ok((t, i)) => {
                    snap_runs.inc();
                    snap_tracked.add(t as u64);
                    snap_ignored.add(i as u64);
                }
                Err(m) => ctx.violation(&m.signature, m.message, m.case),
            }
        }
    });
    eprintln!("[C28] snapshot route: {} snapshots, {:.1}s", snap_runs.get(), ctx.elapsed_s());

    // vacuity: which lines of the full set decided at least one query, per position
    let mut decided_lines: BTreeMap<&str, BTreeSet<&str>> = BTreeMap::new();
    for ((pos, pattern), _) in &total.deciding {
        decided_lines.entry(pos.as_str()).or_default().insert(pattern.as_str());
    }
    // git prints the pattern as written except trailing blanks; compare on the trimmed form
    let mut never: Vec<String> = vec![];
    let mut token_hits: BTreeMap<&str, u64> = TOKENS.iter().map(|t| (*t, 0)).collect();
    for ((_, pattern), n) in &total.deciding {
        for t in TOKENS {
            if pattern.contains(t) {
                *token_hits.get_mut(t).unwrap() += n;
            }
        }
    }
    for l in &ls.full {
        let shown = l.trim_end_matches([' ', '\r']);
        let hit = decided_lines.values().any(|s| s.contains(shown) || s.contains(l.as_str()));
        if !hit {
            never.push(l.clone());
        }
    }
    let flags = |pred: &dyn Fn(&str) -> bool| -> u64 {
        total.deciding.iter().filter(|((_, p), _)| pred(p)).map(|(_, n)| *n).sum()
    };
    let neg_decides = flags(&|p| p.starts_with('!'));
    let anchored_decides = flags(&|p| p.trim_start_matches('!').starts_with('/'));
    let dironly_decides = flags(&|p| p.ends_with('/'));
    let globstar_decides = flags(&|p| p.contains("**"));
    let escape_decides = flags(&|p| p.contains('\\'));
    for (what, n) in [
        ("negation", neg_decides),
        ("anchored", anchored_decides),
        ("directory-only", dironly_decides),
        ("globstar", globstar_decides),
        ("escape", escape_decides),
        ("pruned-by-parent", total.jj_pruned_by_parent),
        ("snapshots", snap_runs.get()),
        ("snapshot-ignored-files", snap_ignored.get()),
    ] {
        if n == 0 && ctx.violation_count() == 0 {
            machinery_failure(&format!("vacuous: no query was decided by a {what} rule"));
        }
    }
    for (pos, set) in &decided_lines {
        if set.is_empty() {
            machinery_failure(&format!("vacuous: no rule of position {pos} ever decided"));
        }
    }
    for p in ["global", "root", "nested"] {
        if !decided_lines.contains_key(p) {
            machinery_failure(&format!("vacuous: no rule of position {p} ever decided"));
        }
    }

    let n_queries: usize = [L1, L2, L3, L4].iter().map(|&i| layouts[i].queries.len()).sum();
    let cov = Coverage {
        evaluations: total.comparisons + snap_runs.get(),
        distinct_nontrivial: total.nontrivial,
        rule: format!(
            "one evaluation = one (configuration, path, file|directory) comparison of jj's snapshot walk over the real \
             GitIgnoreFile with `git check-ignore --no-index` ({version}), plus one per real snapshot of route 2. \
             Configurations: global excludes / root .gitignore / a/.gitignore, lines = [!][/]body[/] with bodies of 1-2 \
             components over {TOKENS:?} plus the special lines {SPECIALS:?}; families {:?}; configurations are \
             de-duplicated, so all (configuration, query) pairs are distinct. Paths: every file and every directory of \
             depth <= 3 over the names {NAMES:?} ({n_queries} queries per configuration; with a nested file the file \
             `a` is not asked). Non-trivial = git reports a deciding pattern (positive or negative) for the path.",
            fams.iter().map(|(n, c)| format!("{n}={}", c.len())).collect::<Vec<_>>()
        ),
        samples: samples.take(),
        exhaustive: true,
        extra: [
            ("configurations".to_string(), json!(configs_run.get())),
            ("families".to_string(), Value::Object(family_counts)),
            ("queries_per_configuration".to_string(), json!(n_queries)),
            ("git_version".to_string(), json!(version)),
            ("git_says_ignored".to_string(), json!(total.git_ignored)),
            ("git_negative_rule_decides".to_string(), json!(total.git_negative_decides)),
            ("ignored_because_parent_dir_pruned".to_string(), json!(total.jj_pruned_by_parent)),
            ("configurations_with_an_ignored_path".to_string(), json!(total.configs_with_ignored)),
            ("configurations_with_a_deciding_negation".to_string(), json!(total.configs_with_negative)),
            ("decided_by_negation".to_string(), json!(neg_decides)),
            ("decided_by_anchored_rule".to_string(), json!(anchored_decides)),
            ("decided_by_directory_only_rule".to_string(), json!(dironly_decides)),
            ("decided_by_globstar_rule".to_string(), json!(globstar_decides)),
            ("decided_by_escaped_rule".to_string(), json!(escape_decides)),
            ("decisions_per_token".to_string(), json!(token_hits)),
            (
                "distinct_deciding_rules_per_position".to_string(),
                json!(decided_lines.iter().map(|(k, v)| (k.to_string(), v.len())).collect::<BTreeMap<_, _>>()),
            ),
            ("full_lines".to_string(), json!(ls.full.len())),
            ("full_lines_that_never_decided".to_string(), json!(never.len())),
            ("full_lines_that_never_decided_examples".to_string(), json!(never.iter().take(12).collect::<Vec<_>>())),
            ("snapshot_route_configurations".to_string(), json!(snap_cfgs.len())),
            ("snapshot_route_snapshots".to_string(), json!(snap_runs.get())),
            ("snapshot_route_files_tracked".to_string(), json!(snap_tracked.get())),
            ("snapshot_route_files_ignored".to_string(), json!(snap_ignored.get())),
        ]
        .into_iter()
        .collect(),
        assumptions: vec![
            format!("the reference is the installed {version}, not a specification; it runs with an empty environment, no system/global configuration and core.excludesFile given explicitly"),
            "the global excludes are chained at the repository root in front of the root .gitignore (what the CLI does for core.excludesFile); .git/info/exclude is not modelled".into(),
            "route 1 re-states the directory walk of FileSnapshotter (prune on matches_dir, chain per directory); route 2 checks that re-statement against the real snapshotter on a sub-family".into(),
            "outside the bound: more than 2 lines per file, more than 2 components per pattern, other character classes, core.ignoreCase, non-UTF-8 names, tracked files inside ignored directories".into(),
        ],
        ..Default::default()
    };
    ctx.finish(cov);
}

//! C13 — Concurrent operations are merged without losing work.
//!
//! Bounded exhaustive exploration of the real reconciliation code: for every base repository
//! of a small family, every ordered pair (and, over a smaller alphabet, every ordered triple)
//! of single-action transactions started at the same base operation by separate "processes"
//! (separate `RepoLoader`s with their own clock and randomness) is committed, and the
//! resulting divergent operation heads are reconciled through `RepoLoader::merge_operations`
//! in *every* order of the heads and through `RepoLoader::load_at_head`. Criss-cross shapes
//! (two independent reconciliations of the same heads, each extended by one more action, then
//! reconciled again, which exercises the recursive merge of several closest common ancestor
//! operations) are enumerated on top.
//!
//! The oracle is written on plain data extracted from the stored repositories (ids,
//! change labels, descriptions, parent tables, ref term lists) and never calls the merge
//! code: ancestry is a DFS over the parent table, "what did a side do" is the difference
//! between the base snapshot and the side's snapshot.

use std::collections::BTreeMap;
use std::collections::BTreeSet;
use std::sync::Arc;

use jj_lib::backend::ChangeId;
use jj_lib::backend::CommitId;
use jj_lib::backend::CopyId;
use jj_lib::backend::MillisSinceEpoch;
use jj_lib::backend::Signature;
use jj_lib::backend::Timestamp;
use jj_lib::backend::TreeValue;
use jj_lib::commit::Commit;
use jj_lib::config::ConfigLayer;
use jj_lib::config::ConfigSource;
use jj_lib::merge::Merge;
use jj_lib::merged_tree::MergedTree;
use jj_lib::merged_tree_builder::MergedTreeBuilder;
use jj_lib::object_id::ObjectId as _;
use jj_lib::op_store::RefTarget;
use jj_lib::operation::Operation;
use jj_lib::op_store::RemoteRef;
use jj_lib::op_store::RemoteRefState;
use jj_lib::ref_name::GitRefName;
use jj_lib::ref_name::RefName;
use jj_lib::ref_name::RemoteName;
use jj_lib::ref_name::RemoteRefSymbol;
use jj_lib::ref_name::WorkspaceName;
use jj_lib::ref_name::WorkspaceNameBuf;
use jj_lib::repo::MutableRepo;
use jj_lib::repo::ReadonlyRepo;
use jj_lib::repo::Repo as _;
use jj_lib::repo::RepoLoader;
use jj_lib::rewrite::merge_commit_trees;
use jj_lib::rewrite::rebase_commit;
use jj_lib::settings::UserSettings;
use jj_lib::store::Store;
use pollster::FutureExt as _;
use rayon::prelude::*;
use serde::Deserialize;
use serde::Serialize;
use serde_json::Value;
use serde_json::json;
use testutils::TestRepo;
use testutils::TestRepoBackend;
use vcommon::Counter;
use vcommon::Coverage;
use vcommon::Ctx;
use vcommon::Level;
use vcommon::Samples;
use vcommon::catch;
use vcommon::enumerate::permutations;
use vcommon::machinery_failure;

// ---------------------------------------------------------------------------------------
// Inputs: base repositories and actions

#[derive(Clone, Debug, Serialize, Deserialize, PartialEq)]
struct CommitSpec {
    label: String,
    parents: Vec<String>,
    /// an empty, description-less commit (a fresh working-copy commit)
    empty: bool,
}

#[derive(Clone, Debug, Serialize, Deserialize, PartialEq)]
struct BaseSpec {
    name: String,
    commits: Vec<CommitSpec>,
    bookmarks: Vec<(String, String)>,
    tags: Vec<(String, String)>,
    workspaces: Vec<(String, String)>,
    /// tracked remote bookmarks `name@origin` (and the git ref refs/remotes/origin/name)
    #[serde(default)]
    remotes: Vec<(String, String)>,
}

fn cs(label: &str, parents: &[&str], empty: bool) -> CommitSpec {
    CommitSpec { label: label.into(), parents: parents.iter().map(|s| s.to_string()).collect(), empty }
}

fn pairs(v: &[(&str, &str)]) -> Vec<(String, String)> {
    v.iter().map(|(a, b)| (a.to_string(), b.to_string())).collect()
}

fn base_family() -> Vec<BaseSpec> {
    vec![
        BaseSpec {
            name: "linear".into(),
            commits: vec![cs("a", &[], false), cs("b", &["a"], false), cs("c", &["b"], false)],
            bookmarks: pairs(&[("b1", "b"), ("b2", "c")]),
            tags: pairs(&[("t", "a")]),
            workspaces: pairs(&[("default", "c"), ("w2", "b")]),
            remotes: vec![],
        },
        BaseSpec {
            name: "fork".into(),
            commits: vec![cs("a", &[], false), cs("b", &["a"], false), cs("c", &["a"], false)],
            bookmarks: pairs(&[("b1", "b"), ("b2", "c")]),
            tags: pairs(&[("t", "a")]),
            workspaces: pairs(&[("default", "c"), ("w2", "b")]),
            remotes: vec![],
        },
        BaseSpec {
            name: "wcleaf".into(),
            // default's working copy is a fresh empty commit on top of c
            commits: vec![
                cs("a", &[], false),
                cs("b", &["a"], false),
                cs("c", &["b"], false),
                cs("w", &["c"], true),
            ],
            bookmarks: pairs(&[("b1", "b"), ("b2", "c")]),
            tags: pairs(&[("t", "a")]),
            workspaces: pairs(&[("default", "w"), ("w2", "b")]),
            remotes: vec![],
        },
        BaseSpec {
            name: "merge".into(),
            commits: vec![cs("a", &[], false), cs("b", &[], false), cs("c", &["a", "b"], false)],
            bookmarks: pairs(&[("b1", "b"), ("b2", "c")]),
            tags: pairs(&[("t", "a")]),
            workspaces: pairs(&[("default", "c"), ("w2", "b")]),
            remotes: vec![],
        },
        BaseSpec {
            name: "deep".into(),
            commits: vec![
                cs("a", &[], false),
                cs("b", &["a"], false),
                cs("c", &["b"], false),
                cs("d", &["c"], false),
            ],
            bookmarks: pairs(&[("b1", "b"), ("b2", "d")]),
            tags: pairs(&[("t", "a")]),
            workspaces: pairs(&[("default", "d"), ("w2", "b")]),
            remotes: vec![],
        },
        BaseSpec {
            name: "remote".into(),
            commits: vec![cs("a", &[], false), cs("b", &["a"], false), cs("c", &["b"], false)],
            bookmarks: pairs(&[("b1", "b"), ("b2", "c")]),
            tags: pairs(&[("t", "a")]),
            workspaces: pairs(&[("default", "c"), ("w2", "b")]),
            remotes: pairs(&[("b1", "b")]),
        },
    ]
}

#[derive(Clone, Debug, Serialize, Deserialize, PartialEq)]
#[serde(tag = "op")]
enum Action {
    /// a new commit (with its own file) on top of `on`
    NewCommit { on: String },
    /// rewrite `x` with a new description, rebase descendants
    Describe { x: String },
    /// abandon `x`, rebase descendants
    Abandon { x: String },
    /// rebase `x` (and descendants) onto `onto`
    Rebase { x: String, onto: String },
    /// create / move / delete (to = None) a local bookmark
    SetBookmark { name: String, to: Option<String> },
    SetTag { name: String, to: Option<String> },
    /// `jj edit`: point the workspace at an existing commit
    Edit { ws: String, x: String },
    /// `jj new`: fresh empty working-copy commit on top of `on`
    New { ws: String, on: String },
    /// `jj workspace forget`
    Forget { ws: String },
    /// rewrite `x` and move `bookmark` to the rewrite
    RewriteAndMove { x: String, bookmark: String },
    /// what a fetch records: remote bookmark `name@origin` and its git ref now point to `to`
    SetRemote { name: String, to: Option<String> },
}

fn label_of_action(a: &Action) -> String {
    match a {
        Action::NewCommit { .. } => "NewCommit",
        Action::Describe { .. } => "Describe",
        Action::Abandon { .. } => "Abandon",
        Action::Rebase { .. } => "Rebase",
        Action::SetBookmark { to: None, .. } => "DeleteBookmark",
        Action::SetBookmark { .. } => "SetBookmark",
        Action::SetTag { to: None, .. } => "DeleteTag",
        Action::SetTag { .. } => "SetTag",
        Action::Edit { .. } => "Edit",
        Action::New { .. } => "New",
        Action::Forget { .. } => "Forget",
        Action::RewriteAndMove { .. } => "RewriteAndMove",
        Action::SetRemote { to: None, .. } => "DeleteRemote",
        Action::SetRemote { .. } => "SetRemote",
    }
    .to_string()
}

fn s(x: &str) -> String {
    x.to_string()
}

/// The full alphabet, instantiated on the commit labels a, b, c that every base has.
fn full_alphabet(base: &BaseSpec) -> Vec<Action> {
    let tip = base.commits.last().unwrap().label.clone(); // c, w or d
    let mut v = vec![
        Action::NewCommit { on: s("a") },
        Action::NewCommit { on: s("b") },
        Action::NewCommit { on: s("c") },
        Action::Describe { x: s("a") },
        Action::Describe { x: s("b") },
        Action::Describe { x: s("c") },
        Action::Abandon { x: s("a") },
        Action::Abandon { x: s("b") },
        Action::Abandon { x: s("c") },
        Action::Rebase { x: s("c"), onto: s("a") },
        Action::Rebase { x: s("b"), onto: s("root") },
        Action::SetBookmark { name: s("b1"), to: Some(s("c")) },
        Action::SetBookmark { name: s("b1"), to: Some(s("a")) },
        Action::SetBookmark { name: s("b1"), to: None },
        Action::SetBookmark { name: s("b2"), to: Some(s("a")) },
        Action::SetBookmark { name: s("b3"), to: Some(s("b")) },
        Action::SetTag { name: s("t"), to: Some(s("c")) },
        Action::SetTag { name: s("t"), to: Some(s("b")) },
        Action::SetTag { name: s("t"), to: None },
        Action::SetTag { name: s("t2"), to: Some(s("b")) },
        Action::Edit { ws: s("default"), x: s("a") },
        Action::Edit { ws: s("default"), x: s("b") },
        Action::Edit { ws: s("w2"), x: s("c") },
        Action::New { ws: s("default"), on: s("b") },
        Action::New { ws: s("w2"), on: s("c") },
        Action::Forget { ws: s("w2") },
        Action::Forget { ws: s("default") },
        Action::RewriteAndMove { x: s("c"), bookmark: s("b1") },
    ];
    if tip != "c" {
        v.push(Action::Describe { x: tip.clone() });
        v.push(Action::Abandon { x: tip.clone() });
        v.push(Action::NewCommit { on: tip.clone() });
        v.push(Action::SetBookmark { name: s("b1"), to: Some(tip) });
    }
    if !base.remotes.is_empty() {
        v.push(Action::SetRemote { name: s("b1"), to: Some(s("c")) });
        v.push(Action::SetRemote { name: s("b1"), to: Some(s("a")) });
        v.push(Action::SetRemote { name: s("b1"), to: None });
    }
    v
}

/// Shared transactions of the staggered-fork family (the operations between the base and the
/// deeper fork points). Their commits get the side number 5 (6 for the second one).
fn stagger_chain_alphabet(size: usize) -> Vec<Action> {
    let v = vec![
        Action::NewCommit { on: s("b") },
        Action::SetBookmark { name: s("b1"), to: Some(s("c")) },
        Action::Edit { ws: s("w2"), x: s("c") },
        Action::SetTag { name: s("t"), to: Some(s("c")) },
        Action::SetBookmark { name: s("b3"), to: Some(s("b")) },
        Action::Describe { x: s("b") },
        Action::New { ws: s("w2"), on: s("c") },
        Action::Abandon { x: s("c") },
        Action::NewCommit { on: s("c") },
        Action::Rebase { x: s("c"), onto: s("a") },
        Action::SetBookmark { name: s("b1"), to: None },
        Action::Forget { ws: s("w2") },
    ];
    v.into_iter().take(size).collect()
}

/// Head actions of the staggered-fork family: they undo / redo what a shared transaction did
/// (abandon or describe its commit n5, move or delete the bookmark, tag or working copy it
/// set) or touch the same items from the base.
fn stagger_head_alphabet(size: usize) -> Vec<Action> {
    let v = vec![
        Action::Abandon { x: s("n5") },
        Action::SetBookmark { name: s("b1"), to: Some(s("a")) },
        Action::NewCommit { on: s("b") },
        Action::Edit { ws: s("w2"), x: s("a") },
        Action::Describe { x: s("b") },
        Action::SetTag { name: s("t"), to: Some(s("b")) },
        Action::SetBookmark { name: s("b3"), to: None },
        Action::Describe { x: s("n5") },
        Action::SetBookmark { name: s("b1"), to: None },
        Action::Abandon { x: s("b") },
        Action::Forget { ws: s("w2") },
        Action::SetTag { name: s("t"), to: None },
        Action::NewCommit { on: s("n5") },
        Action::SetBookmark { name: s("b3"), to: Some(s("c")) },
        Action::Rebase { x: s("c"), onto: s("a") },
        Action::Abandon { x: s("k5") },
    ];
    v.into_iter().take(size).collect()
}

/// First-round alphabet of the criss-cross shapes: actions that do not rewrite commits, so
/// that the two first-round reconciliations usually are the same repository.
fn first_round_alphabet(size: usize) -> Vec<Action> {
    let v = vec![
        Action::NewCommit { on: s("b") },
        Action::SetBookmark { name: s("b1"), to: Some(s("c")) },
        Action::Edit { ws: s("w2"), x: s("c") },
        Action::SetTag { name: s("t"), to: Some(s("c")) },
        Action::SetBookmark { name: s("b3"), to: Some(s("b")) },
        Action::New { ws: s("default"), on: s("b") },
        Action::NewCommit { on: s("c") },
        Action::Forget { ws: s("w2") },
    ];
    v.into_iter().take(size).collect()
}

/// A smaller alphabet for triples and criss-cross extensions: one or two of each kind, chosen
/// so that they interact (same commits, same bookmark, same workspace).
fn small_alphabet(size: usize) -> Vec<Action> {
    let v = vec![
        Action::Describe { x: s("b") },
        Action::Abandon { x: s("b") },
        Action::NewCommit { on: s("b") },
        Action::SetBookmark { name: s("b1"), to: Some(s("c")) },
        Action::Edit { ws: s("w2"), x: s("c") },
        Action::SetBookmark { name: s("b1"), to: None },
        Action::Forget { ws: s("w2") },
        Action::Describe { x: s("c") },
        Action::Rebase { x: s("c"), onto: s("a") },
        Action::SetTag { name: s("t"), to: Some(s("c")) },
        Action::New { ws: s("w2"), on: s("c") },
        Action::SetBookmark { name: s("b1"), to: Some(s("a")) },
        Action::Abandon { x: s("c") },
        Action::SetTag { name: s("t"), to: None },
        Action::RewriteAndMove { x: s("c"), bookmark: s("b1") },
        Action::NewCommit { on: s("c") },
    ];
    v.into_iter().take(size).collect()
}

#[derive(Clone, Debug, Serialize, Deserialize)]
struct Case {
    base: BaseSpec,
    /// concurrent single-action transactions started at the base operation; side k is
    /// `sides[k-1]`
    sides: Vec<Action>,
    /// criss-cross: the two reconciliations (sides in order 1,2 and 2,1) are extended by one
    /// action each (as sides 3 and 4) and reconciled again
    ext: Option<(Action, Action)>,
    /// staggered fork points: a short linear chain of shared transactions on top of the base
    /// operation; side k is forked from chain operation `depths[k-1]` (0 = the base operation)
    #[serde(default, skip_serializing_if = "Option::is_none")]
    stagger: Option<Stagger>,
    /// replay only: the single reconciliation to re-execute
    #[serde(default, skip_serializing_if = "Option::is_none")]
    reconciliation: Option<Recon>,
}

#[derive(Clone, Debug, Serialize, Deserialize)]
struct Stagger {
    chain: Vec<Action>,
    depths: Vec<usize>,
}

#[derive(Clone, Debug, Serialize, Deserialize)]
struct Recon {
    via: String,
    order: Vec<usize>,
}

// ---------------------------------------------------------------------------------------
// Plain-data snapshots of repositories

type Id = String;
type Terms = Vec<Option<Id>>;

#[derive(Clone, Debug, PartialEq)]
struct CInfo {
    change: String,
    desc: String,
    parents: Vec<Id>,
    own_file: bool,
}

#[derive(Clone, Debug, Default)]
struct Snap {
    vis: BTreeMap<Id, CInfo>,
    heads: BTreeSet<Id>,
    bookmarks: BTreeMap<String, Terms>,
    tags: BTreeMap<String, Terms>,
    /// remote bookmarks ("name@remote") and git refs ("git:<ref>")
    remotes: BTreeMap<String, Terms>,
    wcs: BTreeMap<String, Id>,
}

fn change_id_for(store: &Store, label: &str) -> ChangeId {
    let mut bytes = label.as_bytes().to_vec();
    let len = store.change_id_length();
    assert!(bytes.len() < len);
    bytes.resize(len, 0);
    ChangeId::new(bytes)
}

/// Label of a change id: the harness's label, or "~<hex>" for ids generated by jj itself.
fn change_label(id: &ChangeId) -> String {
    let bytes = id.as_bytes();
    let trimmed: Vec<u8> = {
        let mut b = bytes.to_vec();
        while b.last() == Some(&0) {
            b.pop();
        }
        b
    };
    if trimmed.is_empty() {
        return "root".into();
    }
    if trimmed.len() <= 4 && trimmed.iter().all(|c| c.is_ascii_alphanumeric()) {
        String::from_utf8(trimmed).unwrap()
    } else {
        format!("~{}", id.hex())
    }
}

fn terms_of(t: &RefTarget) -> Terms {
    t.as_merge().iter().map(|x| x.as_ref().map(|id| id.hex())).collect()
}

fn own_file_name(label: &str) -> String {
    format!("f_{label}")
}

fn snapshot(repo: &Arc<ReadonlyRepo>) -> Snap {
    let store = repo.store();
    let mut snap = Snap::default();
    let mut stack: Vec<CommitId> = repo.view().heads().iter().cloned().collect();
    for h in &stack {
        snap.heads.insert(h.hex());
    }
    while let Some(id) = stack.pop() {
        if snap.vis.contains_key(&id.hex()) {
            continue;
        }
        let commit = store
            .get_commit(&id)
            .unwrap_or_else(|e| machinery_failure(&format!("cannot read commit {id:?}: {e}")));
        let change = change_label(commit.change_id());
        let own_file = if change.starts_with('~') || change == "root" {
            false
        } else {
            let path = testutils::repo_path_buf(own_file_name(&change));
            commit
                .tree()
                .path_value(&path)
                .block_on()
                .unwrap_or_else(|e| machinery_failure(&format!("cannot read tree: {e}")))
                .is_present()
        };
        snap.vis.insert(
            id.hex(),
            CInfo {
                change,
                desc: commit.description().to_string(),
                parents: commit.parent_ids().iter().map(|p| p.hex()).collect(),
                own_file,
            },
        );
        stack.extend(commit.parent_ids().iter().cloned());
    }
    for (name, target) in repo.view().local_bookmarks() {
        snap.bookmarks.insert(name.as_str().to_string(), terms_of(target));
    }
    for (name, target) in repo.view().local_tags() {
        snap.tags.insert(name.as_str().to_string(), terms_of(target));
    }
    for (symbol, remote_ref) in repo.view().all_remote_bookmarks() {
        snap.remotes
            .insert(format!("{}@{}", symbol.name.as_str(), symbol.remote.as_str()), terms_of(&remote_ref.target));
    }
    for (name, target) in repo.view().git_refs() {
        snap.remotes.insert(format!("git:{}", name.as_str()), terms_of(target));
    }
    for (name, id) in repo.view().wc_commit_ids() {
        snap.wcs.insert(name.as_str().to_string(), id.hex());
    }
    snap
}

// ---------------------------------------------------------------------------------------
// Driving the real code

fn settings(seed: u64, second: u32) -> UserSettings {
    let mut config = testutils::base_user_config();
    let ts = format!("2001-01-01T00:{:02}:{:02}+00:00", second / 60, second % 60);
    let text = format!(
        "debug.randomness-seed = {seed}\ndebug.commit-timestamp = \"{ts}\"\ndebug.operation-timestamp = \"{ts}\"\n"
    );
    config.add_layer(
        ConfigLayer::parse(ConfigSource::CommandArg, &text)
            .unwrap_or_else(|e| machinery_failure(&format!("bad settings: {e}"))),
    );
    UserSettings::from_config(config).unwrap_or_else(|e| machinery_failure(&format!("bad settings: {e}")))
}

fn signature(millis: i64) -> Signature {
    Signature {
        name: "C13".into(),
        email: "c13@example.com".into(),
        timestamp: Timestamp { timestamp: MillisSinceEpoch(millis), tz_offset: 0 },
    }
}

fn add_file(store: &Arc<Store>, tree: MergedTree, name: &str, content: &str) -> MergedTree {
    let path = testutils::repo_path_buf(name);
    let id = testutils::write_file(store, &path, content);
    let mut builder = MergedTreeBuilder::new(tree);
    builder.set_or_remove(
        path,
        Merge::normal(TreeValue::File { id, executable: false, copy_id: CopyId::placeholder() }),
    );
    builder.write_tree().block_on().unwrap_or_else(|e| machinery_failure(&format!("cannot write tree: {e}")))
}

struct World {
    test_repo: TestRepo,
    base_repo: Arc<ReadonlyRepo>,
}

fn ws_name(n: &str) -> WorkspaceNameBuf {
    WorkspaceNameBuf::from(n)
}

fn build_base(spec: &BaseSpec) -> World {
    let test_repo = TestRepo::init_with_backend_and_settings(TestRepoBackend::Simple, &settings(42, 0));
    let repo = test_repo.repo.clone();
    let store = repo.store().clone();
    let mut tx = repo.start_transaction();
    let mut by_label: BTreeMap<String, Commit> = BTreeMap::new();
    for (i, c) in spec.commits.iter().enumerate() {
        let parents: Vec<Commit> = if c.parents.is_empty() {
            vec![store.root_commit()]
        } else {
            c.parents.iter().map(|p| by_label[p].clone()).collect()
        };
        let mut tree = merge_commit_trees(tx.repo(), &parents)
            .block_on()
            .unwrap_or_else(|e| machinery_failure(&format!("cannot merge trees: {e}")));
        if !c.empty {
            tree = add_file(&store, tree, &own_file_name(&c.label), &format!("{}\n", c.label));
        }
        let sig = signature(1_000_000 + i as i64 * 1000);
        let commit = tx
            .repo_mut()
            .new_commit(parents.iter().map(|p| p.id().clone()).collect(), tree)
            .set_change_id(change_id_for(&store, &c.label))
            .set_description(if c.empty { String::new() } else { c.label.clone() })
            .set_author(sig.clone())
            .set_committer(sig)
            .write()
            .block_on()
            .unwrap_or_else(|e| machinery_failure(&format!("cannot write commit: {e}")));
        by_label.insert(c.label.clone(), commit);
    }
    for (name, at) in &spec.bookmarks {
        let name: &RefName = name.as_str().as_ref();
        tx.repo_mut().set_local_bookmark_target(name, RefTarget::normal(by_label[at].id().clone()));
    }
    for (name, at) in &spec.tags {
        let name: &RefName = name.as_str().as_ref();
        tx.repo_mut().set_local_tag_target(name, RefTarget::normal(by_label[at].id().clone()));
    }
    for (name, at) in &spec.remotes {
        set_remote(tx.repo_mut(), name, RefTarget::normal(by_label[at].id().clone()));
    }
    for (name, at) in &spec.workspaces {
        tx.repo_mut()
            .set_wc_commit(ws_name(name), by_label[at].id().clone())
            .unwrap_or_else(|e| machinery_failure(&format!("cannot set wc: {e}")));
    }
    let base_repo = tx
        .commit("base")
        .block_on()
        .unwrap_or_else(|e| machinery_failure(&format!("cannot commit base: {e}")));
    World { test_repo, base_repo }
}

fn new_loader(world: &World, seed: u64, second: u32) -> RepoLoader {
    RepoLoader::init_from_file_system(
        &settings(seed, second),
        world.test_repo.repo_path(),
        &world.test_repo.env.default_backend_factories(),
    )
    .unwrap_or_else(|e| machinery_failure(&format!("cannot open repo: {e}")))
}

fn is_anc(table: &BTreeMap<Id, CInfo>, a: &Id, d: &Id) -> bool {
    let mut stack = vec![d.clone()];
    let mut seen = BTreeSet::new();
    while let Some(x) = stack.pop() {
        if &x == a {
            return true;
        }
        if !seen.insert(x.clone()) {
            continue;
        }
        if let Some(info) = table.get(&x) {
            stack.extend(info.parents.iter().cloned());
        }
    }
    false
}

fn set_remote(mut_repo: &mut MutableRepo, name: &str, target: RefTarget) {
    let remote: &RemoteName = "origin".as_ref();
    let symbol = RemoteRefSymbol { name: name.as_ref(), remote };
    mut_repo.set_remote_bookmark(symbol, RemoteRef { target: target.clone(), state: RemoteRefState::Tracked });
    let git_ref = format!("refs/remotes/origin/{name}");
    let git_ref: &GitRefName = git_ref.as_str().as_ref();
    mut_repo.set_git_ref_target(git_ref, target);
}

fn rn(n: &str) -> &RefName {
    n.as_ref()
}

/// Applies one action in a transaction. `Err` = the action is not applicable in this state.
fn apply(mut_repo: &mut MutableRepo, snap: &Snap, side: usize, action: &Action) -> Result<(), String> {
    let store = mut_repo.store().clone();
    let resolve = |label: &str| -> Result<Commit, String> {
        if label == "root" {
            return Ok(store.root_commit());
        }
        let ids: Vec<&Id> = snap.vis.iter().filter(|(_, c)| c.change == label).map(|(id, _)| id).collect();
        match ids.as_slice() {
            [id] => store
                .get_commit(&CommitId::try_from_hex(id.as_str()).unwrap())
                .map_err(|e| format!("cannot read {label}: {e}")),
            [] => Err(format!("no visible commit for {label}")),
            _ => Err(format!("{label} is divergent")),
        }
    };
    let sig = signature(10_000_000 * side as i64);
    match action {
        Action::NewCommit { on } => {
            let p = resolve(on)?;
            let label = format!("n{side}");
            let tree = add_file(&store, p.tree(), &own_file_name(&label), &format!("{label}\n"));
            mut_repo
                .new_commit(vec![p.id().clone()], tree)
                .set_change_id(change_id_for(&store, &label))
                .set_description(label)
                .set_author(sig.clone())
                .set_committer(sig)
                .write()
                .block_on()
                .map_err(|e| e.to_string())?;
        }
        Action::Describe { x } => {
            let c = resolve(x)?;
            mut_repo
                .rewrite_commit(&c)
                .set_description(format!("{x} described by side {side}"))
                .set_committer(sig)
                .write()
                .block_on()
                .map_err(|e| e.to_string())?;
        }
        Action::Abandon { x } => {
            let c = resolve(x)?;
            mut_repo.record_abandoned_commit(&c);
        }
        Action::Rebase { x, onto } => {
            let c = resolve(x)?;
            let p = resolve(onto)?;
            if is_anc(&snap.vis, &c.id().hex(), &p.id().hex()) {
                return Err("would create a cycle".into());
            }
            if c.parent_ids() == [p.id().clone()] {
                return Err("already there".into());
            }
            rebase_commit(mut_repo, c, vec![p.id().clone()]).block_on().map_err(|e| e.to_string())?;
        }
        Action::SetBookmark { name, to } => {
            let target = match to {
                Some(l) => RefTarget::normal(resolve(l)?.id().clone()),
                None => RefTarget::absent(),
            };
            if mut_repo.get_local_bookmark(rn(name)) == &target {
                return Err("no change".into());
            }
            mut_repo.set_local_bookmark_target(rn(name), target);
        }
        Action::SetTag { name, to } => {
            let target = match to {
                Some(l) => RefTarget::normal(resolve(l)?.id().clone()),
                None => RefTarget::absent(),
            };
            if mut_repo.get_local_tag(rn(name)) == &target {
                return Err("no change".into());
            }
            mut_repo.set_local_tag_target(rn(name), target);
        }
        Action::Edit { ws, x } => {
            let c = resolve(x)?;
            if snap.wcs.get(ws) == Some(&c.id().hex()) {
                return Err("no change".into());
            }
            mut_repo.edit(ws_name(ws), &c).block_on().map_err(|e| e.to_string())?;
        }
        Action::New { ws, on } => {
            let p = resolve(on)?;
            let label = format!("k{side}");
            let wc = mut_repo
                .new_commit(vec![p.id().clone()], p.tree())
                .set_change_id(change_id_for(&store, &label))
                .set_author(sig.clone())
                .set_committer(sig)
                .write()
                .block_on()
                .map_err(|e| e.to_string())?;
            mut_repo.edit(ws_name(ws), &wc).block_on().map_err(|e| e.to_string())?;
        }
        Action::Forget { ws } => {
            if !snap.wcs.contains_key(ws) {
                return Err("no such workspace".into());
            }
            let name = ws_name(ws);
            let name: &WorkspaceName = name.as_ref();
            mut_repo.remove_workspace(name).block_on().map_err(|e| e.to_string())?;
        }
        Action::SetRemote { name, to } => {
            let target = match to {
                Some(l) => RefTarget::normal(resolve(l)?.id().clone()),
                None => RefTarget::absent(),
            };
            let key = format!("{name}@origin");
            if !snap.remotes.contains_key(&key) || snap.remotes.get(&key) == Some(&terms_of(&target)) {
                return Err("no remote bookmark / no change".into());
            }
            set_remote(mut_repo, name, target);
        }
        Action::RewriteAndMove { x, bookmark } => {
            let c = resolve(x)?;
            let new = mut_repo
                .rewrite_commit(&c)
                .set_description(format!("{x} rewritten by side {side}"))
                .set_committer(sig)
                .write()
                .block_on()
                .map_err(|e| e.to_string())?;
            mut_repo.set_local_bookmark_target(rn(bookmark), RefTarget::normal(new.id().clone()));
        }
    }
    mut_repo.rebase_descendants().block_on().map_err(|e| e.to_string())?;
    Ok(())
}

/// One side: a separate loader ("process") starting at `at`, one action, committed and
/// published. Returns `None` when the action is not applicable.
fn run_side(
    world: &World,
    at: &Operation,
    at_snap: &Snap,
    side: usize,
    second: u32,
    action: &Action,
    stats: &Stats,
) -> Option<(Operation, Snap)> {
    let loader = new_loader(world, 100 + side as u64, second);
    let repo = loader
        .load_at(at)
        .block_on()
        .unwrap_or_else(|e| machinery_failure(&format!("cannot load base op: {e}")));
    let mut tx = repo.start_transaction();
    let res = catch(|| apply(tx.repo_mut(), at_snap, side, action));
    match res {
        Err(panic) => {
            stats.side_panics.inc();
            eprintln!("note: side action {action:?} panicked: {panic}");
            None
        }
        Ok(Err(_)) => None,
        Ok(Ok(())) => {
            let committed = tx
                .commit(format!("side {side}: {}", label_of_action(action)))
                .block_on()
                .unwrap_or_else(|e| machinery_failure(&format!("cannot commit side: {e}")));
            let snap = snapshot(&committed);
            Some((committed.operation().clone(), snap))
        }
    }
}

// ---------------------------------------------------------------------------------------
// Oracle

#[derive(Default)]
struct Stats {
    cases: Counter,
    cases_not_applicable: Counter,
    merges: Counter,
    merges_with_rebase: Counter,
    side_panics: Counter,
    created_checked: Counter,
    created_then_hidden_downstream: Counter,
    chain_value_superseded: Counter,
    staggered: Counter,
    staggered_judged: Counter,
    hidden_commit_made_by_shared_transaction: Counter,
    hidden_checked: Counter,
    hidden_by_one_kept_descendant_of_other: Counter,
    ref_untouched: Counter,
    ref_one_side: Counter,
    ref_one_side_followed: Counter,
    ref_identical: Counter,
    ref_fast_forward: Counter,
    ref_agree_after_follow: Counter,
    ref_conflict: Counter,
    tag_conflict: Counter,
    remote_conflict: Counter,
    remote_changed: Counter,
    wc_untouched: Counter,
    wc_one_side: Counter,
    wc_followed_rewrite: Counter,
    wc_recreated: Counter,
    wc_removal_wins: Counter,
    wc_conflict_first_wins: Counter,
    divergent_results: Counter,
    order_dependent: Counter,
    order_dependent_ref_conflict: Counter,
    order_dependent_wc_conflict: Counter,
    order_dependent_divergent: Counter,
    order_dependent_unexplained: Counter,
    crisscross_judged: Counter,
    load_at_head: Counter,
    crisscross: Counter,
    crisscross_skipped_differing_views: Counter,
    crisscross_multi_ancestor: Counter,
    triples: Counter,
}

fn ref_map<'s>(sn: &'s Snap, kind: &str) -> &'s BTreeMap<String, Terms> {
    match kind {
        "tag" => &sn.tags,
        "remote" => &sn.remotes,
        _ => &sn.bookmarks,
    }
}

struct Judge<'a> {
    /// the repository at the operation all heads descend from (= chain[0])
    base: &'a Snap,
    /// in reconciliation order
    sides: Vec<&'a Snap>,
    /// linear chain of operations below the heads: chain[0] is the base, chain[k+1] is one
    /// transaction on top of chain[k]. Flat cases have only chain[0].
    chain: Vec<&'a Snap>,
    /// depths[i] = index in `chain` of the operation side i was forked from
    depths: Vec<usize>,
    merged: &'a Snap,
    union: BTreeMap<Id, CInfo>,
    stats: &'a Stats,
    problems: Vec<(String, String)>,
    /// what made the result order dependent, if anything could
    flags: BTreeSet<&'static str>,
}

fn show_terms(j: &Judge, t: &Terms) -> String {
    let mut out = String::from("[");
    for (i, x) in t.iter().enumerate() {
        if i > 0 {
            out.push_str(if i % 2 == 1 { " - " } else { " + " });
        }
        match x {
            None => out.push_str("absent"),
            Some(id) => out.push_str(&j.name(id)),
        }
    }
    out.push(']');
    out
}

impl<'a> Judge<'a> {
    fn new(base: &'a Snap, sides: Vec<&'a Snap>, merged: &'a Snap, stats: &'a Stats) -> Self {
        let depths = vec![0; sides.len()];
        Self::new_staggered(vec![base], sides, depths, merged, stats)
    }

    /// Heads forked at different operations of a linear chain: what a side changed is
    /// relative to its own fork point, and the chain's own transactions are changes too.
    fn new_staggered(
        chain: Vec<&'a Snap>,
        sides: Vec<&'a Snap>,
        depths: Vec<usize>,
        merged: &'a Snap,
        stats: &'a Stats,
    ) -> Self {
        let mut union = BTreeMap::new();
        for sn in chain.iter().copied().chain(sides.iter().copied()).chain(std::iter::once(merged)) {
            for (id, info) in &sn.vis {
                union.insert(id.clone(), info.clone());
            }
        }
        let base = chain[0];
        Judge { base, sides, chain, depths, merged, union, stats, problems: vec![], flags: BTreeSet::new() }
    }

    /// Every transaction below the reconciliation as (before, after, depth of `before` in the
    /// chain, depth of `after` in the chain or usize::MAX for a head, label).
    fn deltas(&self) -> Vec<(&'a Snap, &'a Snap, usize, usize, String)> {
        self.pairs()
            .into_iter()
            .enumerate()
            .map(|(n, (x, y, f, t))| {
                let label = if t == usize::MAX {
                    format!("side #{}", n + 2 - self.chain.len())
                } else {
                    format!("the shared transaction #{t} below the heads")
                };
                (x, y, f, t, label)
            })
            .collect()
    }

    /// `deltas` without the labels (hot path).
    fn pairs(&self) -> Vec<(&'a Snap, &'a Snap, usize, usize)> {
        let mut out = Vec::with_capacity(self.chain.len() + self.sides.len());
        for k in 1..self.chain.len() {
            out.push((self.chain[k - 1], self.chain[k], k - 1, k));
        }
        for (i, sn) in self.sides.iter().enumerate() {
            out.push((self.chain[self.depths[i]], *sn, self.depths[i], usize::MAX));
        }
        out
    }

    fn inputs(&self) -> Vec<&'a Snap> {
        self.chain.iter().copied().chain(self.sides.iter().copied()).collect()
    }

    fn in_some_fork_point(&self, id: &Id) -> bool {
        self.chain.iter().any(|sn| sn.vis.contains_key(id))
    }

    /// The value of one item at the base and the values that are still candidates for the
    /// result: per level of the chain, the values of the heads forked there plus what comes up
    /// from the deeper level (its changed values, or the chain's own value if no deeper head
    /// changed the item). In flat cases this is simply the sides' values in order.
    fn live_values<T: Clone + PartialEq>(&self, get: impl Fn(&Snap) -> T) -> (T, Vec<(T, bool)>) {
        // the bool: the value is one of several different changes made above a deeper fork point
        // (a conflict there), so it counts as a change even if it happens to equal the base value
        let top = self.chain.len() - 1;
        let mut from_below: Option<Vec<(T, bool)>> = None;
        for k in (0..=top).rev() {
            let mut vals: Vec<(T, bool)> = vec![];
            for (i, sn) in self.sides.iter().enumerate() {
                if self.depths[i] == k {
                    vals.push((get(sn), false));
                }
            }
            if let Some(deeper) = from_below.take() {
                let deeper_base = get(self.chain[k + 1]);
                let mut distinct: Vec<(T, bool)> = vec![];
                for (v, forced) in deeper.into_iter().filter(|(v, forced)| *forced || *v != deeper_base) {
                    if !distinct.iter().any(|(d, _)| *d == v) {
                        distinct.push((v, forced));
                    }
                }
                if distinct.is_empty() {
                    vals.push((deeper_base, false));
                } else {
                    if deeper_base != get(self.chain[k]) {
                        // a shared transaction changed the item and a head forked above it changed it again
                        self.stats.chain_value_superseded.inc();
                    }
                    let several = distinct.len() > 1;
                    vals.extend(distinct.into_iter().map(|(v, f)| (v, f || several)));
                }
            }
            from_below = Some(vals);
        }
        (get(self.chain[0]), from_below.unwrap())
    }

    /// Staggered forks only: commits a shared transaction pointed this ref at which a head
    /// rewrote or abandoned; their successors may legitimately show up in the result (the ref
    /// follows the rewrite) next to what the heads forked above that transaction did.
    fn followed_history_adds(&self, kind: &str, name: &str, follow: bool) -> BTreeSet<Id> {
        let mut out = BTreeSet::new();
        if !follow {
            return out;
        }
        for k in 1..self.chain.len() {
            let h = ref_map(self.chain[k], kind).get(name).cloned().unwrap_or_else(|| vec![None]);
            for a in h.iter().step_by(2).flatten() {
                if self.hidden_by_some_side(a) {
                    out.extend(self.follow_set(follow, a).into_iter().filter(|x| x != a));
                }
            }
        }
        out
    }

    /// Staggered forks only: every commit a shared transaction pointed this ref at.
    fn history_adds(&self, kind: &str, name: &str) -> Vec<Id> {
        let mut out = vec![];
        for k in 1..self.chain.len() {
            let h = ref_map(self.chain[k], kind).get(name).cloned().unwrap_or_else(|| vec![None]);
            out.extend(h.iter().step_by(2).flatten().cloned());
        }
        out
    }

    fn name(&self, id: &Id) -> String {
        match self.union.get(id) {
            Some(info) => format!("{}:{}{}", &id[..6.min(id.len())], info.change, if info.desc.contains(' ') { "*" } else { "" }),
            None => format!("{}:?", &id[..6.min(id.len())]),
        }
    }

    fn fail(&mut self, sig: &str, msg: String) {
        self.problems.push((sig.to_string(), msg));
    }

    /// Some side hid this base commit (rewrote or abandoned it).
    fn hidden_by_some_side(&self, id: &Id) -> bool {
        self.pairs().iter().any(|(x, y, ..)| x.vis.contains_key(id) && !y.vis.contains_key(id))
    }

    /// Some side abandoned this base commit (hid it and has no other commit of its change).
    fn abandoned_by_some_side(&self, id: &Id) -> bool {
        let Some(info) = self.union.get(id) else { return false };
        self.pairs().iter().any(|(x, y, ..)| {
            x.vis.contains_key(id) && !y.vis.contains_key(id) && !y.vis.values().any(|c| c.change == info.change)
        })
    }

    fn same_change_visible(&self, id: &Id) -> BTreeSet<Id> {
        let Some(info) = self.union.get(id) else { return BTreeSet::new() };
        self.merged
            .vis
            .iter()
            .filter(|(i, c)| c.change == info.change && *i != id)
            .map(|(i, _)| i.clone())
            .collect()
    }

    /// Where a commit named by one side may end up after the other sides' rewrites and
    /// abandonments: itself if still visible and untouched; otherwise the visible commits with
    /// its change id and, if a side abandoned it (or nothing of its change is left), the
    /// replacements of its parents. An allowed *set*: when one side rewrote and another
    /// abandoned the same commit, either successor is accepted.
    fn repl(&self, id: &Id) -> BTreeSet<Id> {
        let visible = self.merged.vis.contains_key(id);
        if visible && !self.hidden_by_some_side(id) {
            return [id.clone()].into();
        }
        let Some(info) = self.union.get(id) else {
            return BTreeSet::new();
        };
        let mut out = self.same_change_visible(id);
        if visible {
            out.insert(id.clone());
        }
        if out.is_empty() || self.abandoned_by_some_side(id) {
            out.extend(info.parents.iter().flat_map(|p| self.repl(p)));
        }
        out
    }

    /// `id` (a base commit some side hid) is visible in the reconciled repo only below commits
    /// that another side added on top of a commit which at least two sides rewrote: jj leaves
    /// the descendants of a divergently rewritten commit alone (documented on
    /// `set_divergent_rewrite`), which keeps the old commit and its ancestors visible.
    fn explained_by_divergent_rewrite(&self, id: &Id) -> bool {
        if self.merged.heads.contains(id)
            || self.merged.wcs.values().any(|w| w == id)
            || self.merged.bookmarks.values().any(|t| t.iter().step_by(2).flatten().any(|x| x == id))
        {
            return false;
        }
        let Some(info) = self.union.get(id) else { return false };
        // number of different rewrites of this change that the concurrent heads carry
        let rewriting_sides = self
            .sides
            .iter()
            .flat_map(|sn| sn.vis.iter().filter(|(i, c)| c.change == info.change && *i != id).map(|(i, _)| i.clone()))
            .collect::<BTreeSet<Id>>()
            .len();
        let children: Vec<&Id> =
            self.merged.vis.iter().filter(|(_, c)| c.parents.contains(id)).map(|(m, _)| m).collect();
        !children.is_empty()
            && children.iter().all(|c| {
                let added_while_id_present = self
                    .pairs()
                    .iter()
                    .any(|(x, y, ..)| !x.vis.contains_key(*c) && y.vis.contains_key(*c) && y.vis.contains_key(id));
                if added_while_id_present && !self.hidden_by_some_side(c) {
                    // a commit added by a transaction that still had `id`, on a divergently rewritten `id`
                    rewriting_sides >= 2
                } else {
                    // an old commit that is itself kept visible for the same reason
                    self.hidden_by_some_side(c) && self.explained_by_divergent_rewrite(c)
                }
            })
    }

    fn judge_commits(&mut self) {
        let deltas = self.deltas();
        // every commit a transaction created (or rewrote to) is kept, possibly rebased, unless a
        // later transaction on top of it hid it again
        for (x, y, _, to_depth, who) in &deltas {
            for id in y.vis.keys() {
                if x.vis.contains_key(id) {
                    continue;
                }
                let hidden_later = deltas.iter().any(|(x2, y2, from2, ..)| {
                    *to_depth != usize::MAX && *from2 >= *to_depth && x2.vis.contains_key(id) && !y2.vis.contains_key(id)
                });
                if hidden_later {
                    self.stats.created_then_hidden_downstream.inc();
                    continue;
                }
                let info = self.union[id].clone();
                self.stats.created_checked.inc();
                let kept = self
                    .merged
                    .vis
                    .values()
                    .any(|m| m.change == info.change && m.desc == info.desc && (m.own_file || !info.own_file));
                if !kept {
                    let shape = if x.vis.values().any(|b| b.change == info.change) {
                        "rewritten-commit-lost"
                    } else {
                        "created-commit-lost"
                    };
                    self.fail(
                        &format!("C13/commits/{shape}"),
                        format!(
                            "{who} (sides numbered in reconciliation order) made commit {} (change {}, description                              {:?}); no visible commit of the reconciled repo carries that change with that description{}",
                            self.name(id),
                            info.change,
                            info.desc,
                            if info.own_file { " and its file" } else { "" }
                        ),
                    );
                }
            }
        }
        // everything a transaction abandoned or rewrote is hidden
        for (x, y, from_depth, _, who) in &deltas {
            for id in x.vis.keys() {
                if y.vis.contains_key(id) {
                    continue;
                }
                self.stats.hidden_checked.inc();
                if *from_depth > 0 && !self.chain[0].vis.contains_key(id) {
                    self.stats.hidden_commit_made_by_shared_transaction.inc();
                }
                if self.merged.vis.contains_key(id) {
                    let kept_by_descendant = self
                        .merged
                        .vis
                        .iter()
                        .any(|(m, info)| info.parents.contains(id) && !self.in_some_fork_point(m));
                    let shape = if self.explained_by_divergent_rewrite(id) {
                        "below-child-after-divergent-rewrite"
                    } else if kept_by_descendant {
                        "visible-through-unrebased-child"
                    } else {
                        "still-visible"
                    };
                    self.fail(
                        &format!("C13/commits/hidden-commit-{shape}"),
                        format!("{who} abandoned or rewrote {}, but it is visible in the reconciled repo", self.name(id)),
                    );
                } else if self.sides.iter().any(|o| {
                    o.vis.iter().any(|(oid, oinfo)| oinfo.parents.contains(id) && !self.in_some_fork_point(oid))
                }) {
                    self.stats.hidden_by_one_kept_descendant_of_other.inc();
                }
            }
        }
        // divergence statistics
        let mut per_change: BTreeMap<&str, usize> = BTreeMap::new();
        for c in self.merged.vis.values() {
            *per_change.entry(c.change.as_str()).or_default() += 1;
        }
        if per_change.values().any(|n| *n > 1) {
            self.stats.divergent_results.inc();
            self.flags.insert("divergent-change");
        }
    }

    fn follow_set(&self, follow: bool, id: &Id) -> BTreeSet<Id> {
        if follow { self.repl(id) } else { [id.clone()].into() }
    }

    /// `v` is the only (distinct) changed value: the result must be `v`, followed through
    /// the other sides' rewrites when `follow`.
    fn judge_single_value(&mut self, kind: &str, name: &str, follow: bool, v: &Terms, m: &Terms) {
        let absent: Terms = vec![None];
        if *v == absent {
            if *m != absent {
                let msg = format!("{kind} {name} was deleted by the only side that changed it, result {}", show_terms(self, m));
                self.fail(&format!("C13/{kind}/deletion-lost"), msg);
            }
            return;
        }
        let mut allowed: BTreeSet<Id> = BTreeSet::new();
        for a in v.iter().step_by(2).flatten() {
            allowed.extend(self.follow_set(follow, a));
        }
        let own_allowed = allowed.clone();
        // staggered forks: successors of commits a shared transaction pointed the ref at, rewritten
        // by some head, may appear next to the value
        let optional = self.followed_history_adds(kind, name, follow);
        let history_extends = !optional.is_subset(&allowed);
        allowed.extend(optional);
        let m_adds: Vec<&Id> = m.iter().step_by(2).flatten().collect();
        let mut ok = !m_adds.is_empty()
            && m_adds.iter().all(|x| allowed.contains(*x))
            && m_adds.iter().any(|x| own_allowed.contains(*x));
        if v.len() == 1 && !history_extends {
            let r = self.follow_set(follow, v[0].as_ref().unwrap());
            if r.len() == 1 {
                ok = *m == vec![Some(r.iter().next().unwrap().clone())];
            }
            if m != v {
                self.stats.ref_one_side_followed.inc();
            }
        } else if !follow {
            ok = m == v;
        }
        if !ok {
            let msg = format!(
                "{kind} {name}: base {}, the only changed value is {}, reconciled value {} (allowed targets: {:?})",
                show_terms(self, &self.base_ref(kind, name)),
                show_terms(self, v),
                show_terms(self, m),
                allowed.iter().map(|x| self.name(x)).collect::<Vec<_>>()
            );
            self.fail(&format!("C13/{kind}/one-side-change-lost"), msg);
        }
    }

    fn base_ref(&self, kind: &str, name: &str) -> Terms {
        ref_map(self.base, kind).get(name).cloned().unwrap_or_else(|| vec![None])
    }

    fn judge_ref(&mut self, kind: &'static str, name: &str) {
        let follow = kind == "bookmark";
        let get = |sn: &Snap| -> Terms { ref_map(sn, kind).get(name).cloned().unwrap_or_else(|| vec![None]) };
        let m = get(self.merged);
        let (b, vals): (Terms, Vec<(Terms, bool)>) = self.live_values(&get);
        let mut distinct: Vec<Terms> = vec![];
        for (v, _) in vals.iter().filter(|(v, forced)| *forced || *v != b) {
            if !distinct.contains(v) {
                distinct.push(v.clone());
            }
        }
        let changed_count = vals.iter().filter(|(v, forced)| *forced || *v != b).count();
        let optional = self.followed_history_adds(kind, name, follow);
        match distinct.len() {
            0 => {
                self.stats.ref_untouched.inc();
                let m_adds: Vec<&Id> = m.iter().step_by(2).flatten().collect();
                let follows_history =
                    !optional.is_empty() && !m_adds.is_empty() && m_adds.iter().all(|x| optional.contains(*x));
                if m != b && !follows_history {
                    let msg = format!(
                        "{kind} {name} was changed by no side (base {}), reconciled value {}",
                        show_terms(self, &b),
                        show_terms(self, &m)
                    );
                    self.fail(&format!("C13/{kind}/untouched-changed"), msg);
                }
            }
            1 => {
                if changed_count > 1 {
                    self.stats.ref_identical.inc();
                } else {
                    self.stats.ref_one_side.inc();
                }
                self.judge_single_value(kind, name, follow, &distinct[0], &m);
            }
            _ => {
                let all_adds: Vec<Id> =
                    distinct.iter().flat_map(|v| v.iter().step_by(2).flatten().cloned()).collect();
                if m.len() == 1 {
                    // resolved: acceptable only if, with every side's value followed through the other
                    // sides' rewrites and abandonments, the sides that still differ from the base agree
                    // or lie on one line of history above the base (fast-forward)
                    let mut ok = false;
                    let history = self.history_adds(kind, name);
                    let options: Option<Vec<Vec<Option<Id>>>> = distinct
                        .iter()
                        .map(|v| match v.as_slice() {
                            [None] => Some(vec![None]),
                            [Some(id)] => {
                                let mut o: Vec<Option<Id>> =
                                    self.follow_set(follow, id).into_iter().map(Some).collect();
                                o.push(Some(id.clone()));
                                o.dedup();
                                Some(o)
                            }
                            _ => None,
                        })
                        .collect();
                    let base_set: Vec<Option<Id>> = match b.as_slice() {
                        [None] => vec![None],
                        [Some(bc)] => {
                            let mut o: Vec<Option<Id>> = vec![Some(bc.clone())];
                            o.extend(self.follow_set(follow, bc).into_iter().map(Some));
                            o
                        }
                        _ => vec![],
                    };
                    if let (Some(options), false) = (options, base_set.is_empty()) {
                        let dims: Vec<usize> = options.iter().map(|o| o.len()).collect();
                        vcommon::enumerate::odometer(&dims, |choice| {
                            let mut remaining: Vec<Option<Id>> = vec![];
                            for (k, &c) in choice.iter().enumerate() {
                                let g = &options[k][c];
                                // staggered forks: a value that was fast-forwarded into what a shared
                                // transaction set (which a later head then replaced) is used up
                                let absorbed = matches!(g, Some(x) if history.iter().any(|h| h != x && is_anc(&self.union, x, h))
                                    && base_set.iter().any(|bi| match bi {
                                        None => true,
                                        Some(bc) => is_anc(&self.union, bc, x),
                                    }));
                                if !base_set.contains(g) && !remaining.contains(g) && !absorbed {
                                    remaining.push(g.clone());
                                }
                            }
                            let accept = match remaining.as_slice() {
                                [] => base_set.contains(&m[0]),
                                [one] => {
                                    // a raw id stands for any of its successors
                                    *one == m[0]
                                        || matches!((one, &m[0]), (Some(o), Some(x)) if self.follow_set(follow, o).contains(x))
                                }
                                many => {
                                    let ids: Option<Vec<Id>> = many.iter().cloned().collect();
                                    match ids {
                                        None => false,
                                        Some(ids) => {
                                            let chain = ids.iter().all(|x| {
                                                ids.iter().all(|y| is_anc(&self.union, x, y) || is_anc(&self.union, y, x))
                                            });
                                            let base_below = base_set.iter().any(|bi| match bi {
                                                None => true,
                                                Some(bc) => ids.iter().all(|x| is_anc(&self.union, bc, x)),
                                            });
                                            chain && base_below && {
                                                let top =
                                                    ids.iter().find(|x| ids.iter().all(|y| is_anc(&self.union, y, x))).unwrap();
                                                matches!(&m[0], Some(x) if x == top || self.follow_set(follow, top).contains(x))
                                            }
                                        }
                                    }
                                }
                            };
                            if accept {
                                ok = true;
                                if remaining.len() > 1 {
                                    self.stats.ref_fast_forward.inc();
                                } else {
                                    self.stats.ref_agree_after_follow.inc();
                                }
                            }
                            !accept
                        });
                    }
                    if ok {
                    } else {
                        let shape = if m == b {
                            "conflict-resolved-to-base"
                        } else if m == vec![None] {
                            "conflict-resolved-to-absent"
                        } else {
                            "conflict-resolved-to-one-side"
                        };
                        let msg = format!(
                            "{kind} {name}: base {}, sides changed it to {}, reconciled value {} is neither a conflict \
                             nor a fast-forward",
                            show_terms(self, &b),
                            distinct.iter().map(|v| show_terms(self, v)).collect::<Vec<_>>().join(" / "),
                            show_terms(self, &m)
                        );
                        self.fail(&format!("C13/{kind}/{shape}"), msg);
                    }
                } else {
                    self.flags.insert("ref-conflict");
                    if kind == "remote" {
                        self.stats.remote_conflict.inc();
                    } else if kind == "tag" {
                        self.stats.tag_conflict.inc();
                    } else {
                        self.stats.ref_conflict.inc();
                    }
                    let m_adds: Vec<Option<Id>> = m.iter().step_by(2).cloned().collect();
                    for v in &distinct {
                        for a in v.iter().step_by(2) {
                            let covered = match a {
                                None => m_adds.contains(&None),
                                Some(id) => {
                                    // some add of the conflict is a (followed) value of some side and is
                                    // the (followed) value `id` itself or a descendant of it
                                    let mut from: BTreeSet<Id> = self.follow_set(follow, id);
                                    from.insert(id.clone());
                                    all_adds.iter().any(|u| {
                                        let mut fu = self.follow_set(follow, u);
                                        fu.insert(u.clone());
                                        fu.iter().any(|x| {
                                            m_adds.contains(&Some(x.clone()))
                                                && from.iter().any(|a2| is_anc(&self.union, a2, x))
                                        })
                                    })
                                }
                            };
                            if !covered {
                                let msg = format!(
                                    "{kind} {name}: base {}, sides changed it to {}, the recorded conflict {} does not \
                                     contain (a successor of) {}",
                                    show_terms(self, &b),
                                    distinct.iter().map(|v| show_terms(self, v)).collect::<Vec<_>>().join(" / "),
                                    show_terms(self, &m),
                                    a.as_ref().map_or("absent".to_string(), |x| self.name(x))
                                );
                                self.fail(&format!("C13/{kind}/conflict-drops-a-side"), msg);
                            }
                        }
                    }
                }
            }
        }
    }

    fn judge_wc(&mut self, ws: &str) {
        let m = self.merged.wcs.get(ws).cloned();
        let (b, vals_forced): (Option<Id>, Vec<(Option<Id>, bool)>) =
            self.live_values(|sn: &Snap| sn.wcs.get(ws).cloned());
        let vals: Vec<Option<Id>> = vals_forced.iter().map(|(v, _)| v.clone()).collect();
        // with heads forked at one operation the documented rule names the winner; with staggered
        // fork points the side whose value is "self" at each step is not a head, so any of the
        // candidate values is accepted there
        let strict_order = self.chain.len() == 1;
        let changed: Vec<&Option<Id>> = vals.iter().filter(|v| **v != b).collect();
        let nm = |j: &Judge, x: &Option<Id>| x.as_ref().map_or("absent".to_string(), |i| j.name(i));
        if changed.is_empty() {
            self.stats.wc_untouched.inc();
            if m != b {
                let msg = format!("workspace {ws} was changed by no side (base {}), result {}", nm(self, &b), nm(self, &m));
                self.fail("C13/wc/untouched-changed", msg);
            }
            return;
        }
        let mut distinct: Vec<&Option<Id>> = vec![];
        for v in &changed {
            if !distinct.contains(v) {
                distinct.push(v);
            }
        }
        if changed.iter().any(|v| v.is_none()) {
            if distinct.len() > 1 {
                self.stats.wc_removal_wins.inc();
            } else {
                self.stats.wc_one_side.inc();
            }
            if m.is_some() {
                let msg = format!("workspace {ws} was forgotten by a side, but the result has it at {}", nm(self, &m));
                self.fail("C13/wc/removal-lost", msg);
            }
            return;
        }
        if distinct.len() > 1 {
            self.stats.wc_conflict_first_wins.inc();
            self.flags.insert("wc-conflict");
        } else {
            self.stats.wc_one_side.inc();
        }
        // documented rule: on conflict the side reconciled first keeps its working copy
        let sig = if distinct.len() > 1 { "C13/wc/conflict-rule" } else { "C13/wc/one-side-change-lost" };
        let mut candidates: Vec<Id> = if strict_order {
            vec![changed[0].clone().unwrap()]
        } else {
            distinct.iter().map(|v| (**v).clone().unwrap()).collect()
        };
        if !strict_order && distinct.len() > 1 {
            // in a conflict the value a shared transaction set may be the "self" value that wins
            for k in 1..self.chain.len() {
                if let Some(h) = self.chain[k].wcs.get(ws) {
                    if !candidates.contains(h) {
                        candidates.push(h.clone());
                    }
                }
            }
        }
        let Some(mid) = m.clone() else {
            let msg = format!("workspace {ws}: expected {} (followed), but the workspace is gone", self.name(&candidates[0]));
            self.fail(sig, msg);
            return;
        };
        let mut ok = false;
        for v in &candidates {
            let visible = self.merged.vis.contains_key(v);
            let this_ok = if visible && !self.hidden_by_some_side(v) {
                mid == *v
            } else {
                let info = self.union[v].clone();
                let same_change = self.same_change_visible(v);
                let may_be_recreated = (same_change.is_empty() && !visible) || self.abandoned_by_some_side(v);
                if (visible && mid == *v) || same_change.contains(&mid) {
                    self.stats.wc_followed_rewrite.inc();
                    true
                } else if may_be_recreated {
                    // abandoned by another side: a new commit on top of the (followed) parents
                    let allowed_parents: BTreeSet<Id> = info.parents.iter().flat_map(|p| self.repl(p)).collect();
                    let fresh = self.inputs().iter().all(|sn| !sn.vis.contains_key(&mid));
                    match self.merged.vis.get(&mid) {
                        Some(mi)
                            if fresh
                                && mi.change.starts_with('~')
                                && !mi.parents.is_empty()
                                && mi.parents.iter().all(|p| allowed_parents.contains(p)) =>
                        {
                            self.stats.wc_recreated.inc();
                            true
                        }
                        _ => false,
                    }
                } else {
                    false
                }
            };
            if this_ok {
                ok = true;
                break;
            }
        }
        if !ok {
            let msg = format!(
                "workspace {ws}: base {}, candidate values (sides in reconciliation order) {}, expected {} (followed \
                 through rewrites), result {}",
                nm(self, &b),
                vals.iter().map(|x| nm(self, x)).collect::<Vec<_>>().join(" / "),
                candidates.iter().map(|x| self.name(x)).collect::<Vec<_>>().join(" or "),
                nm(self, &m)
            );
            self.fail(sig, msg);
        }
    }

    fn run(mut self) -> (Vec<(String, String)>, BTreeSet<&'static str>) {
        self.judge_commits();
        let mut names: BTreeSet<String> = BTreeSet::new();
        let mut tag_names: BTreeSet<String> = BTreeSet::new();
        let mut remote_names: BTreeSet<String> = BTreeSet::new();
        let mut ws_names: BTreeSet<String> = BTreeSet::new();
        for sn in self.inputs().into_iter().chain(std::iter::once(self.merged)) {
            names.extend(sn.bookmarks.keys().cloned());
            tag_names.extend(sn.tags.keys().cloned());
            remote_names.extend(sn.remotes.keys().cloned());
            ws_names.extend(sn.wcs.keys().cloned());
        }
        for n in names {
            self.judge_ref("bookmark", &n);
        }
        for n in tag_names {
            self.judge_ref("tag", &n);
        }
        for n in remote_names {
            if self.sides.iter().any(|sn| sn.remotes.get(&n) != self.base.remotes.get(&n)) {
                self.stats.remote_changed.inc();
            }
            self.judge_ref("remote", &n);
        }
        for n in ws_names {
            self.judge_wc(&n);
        }
        (self.problems, self.flags)
    }
}

/// Id-free rendering of a repository, to compare reconciliation orders.
fn canonical(snap: &Snap, union: &BTreeMap<Id, CInfo>) -> String {
    fn key(id: &Id, union: &BTreeMap<Id, CInfo>, memo: &mut BTreeMap<Id, String>) -> String {
        if let Some(k) = memo.get(id) {
            return k.clone();
        }
        let k = match union.get(id) {
            None => "?".to_string(),
            Some(info) => {
                let mut ps: Vec<String> = info.parents.iter().map(|p| key(p, union, memo)).collect();
                ps.sort();
                let change = if info.change.starts_with('~') { "~gen" } else { info.change.as_str() };
                format!("{:016x}", vcommon::fnv(format!("{change}|{}|{ps:?}", info.desc).as_bytes()))
            }
        };
        memo.insert(id.clone(), k.clone());
        k
    }
    let mut memo = BTreeMap::new();
    let mut commits: Vec<String> = snap.vis.keys().map(|id| key(id, union, &mut memo)).collect();
    commits.sort();
    let mut render = |m: &BTreeMap<String, Terms>| -> Vec<(String, Vec<String>, Vec<String>)> {
        m.iter()
            .map(|(n, t)| {
                let mut adds: Vec<String> =
                    t.iter().step_by(2).map(|x| x.as_ref().map_or("0".into(), |i| key(i, union, &mut memo))).collect();
                let mut removes: Vec<String> = t
                    .iter()
                    .skip(1)
                    .step_by(2)
                    .map(|x| x.as_ref().map_or("0".into(), |i| key(i, union, &mut memo)))
                    .collect();
                adds.sort();
                removes.sort();
                (n.clone(), adds, removes)
            })
            .collect()
    };
    let bookmarks = render(&snap.bookmarks);
    let tags = render(&snap.tags);
    let remotes = render(&snap.remotes);
    let wcs: Vec<(String, String)> = snap.wcs.iter().map(|(n, i)| (n.clone(), key(i, union, &mut memo))).collect();
    format!("{commits:?}|{bookmarks:?}|{tags:?}|{remotes:?}|{wcs:?}")
}


// ---------------------------------------------------------------------------------------
// One case

struct Outcome {
    violations: Vec<(String, String, Value)>,
    canonical_states: Vec<String>,
    applicable: bool,
    order_dependent_unexplained: bool,
    /// some reconciliation rebased commits, recorded a conflict, kept a divergent change or had
    /// to pick a working copy: the sides really interacted
    interacting: bool,
}

fn reconcile(
    world: &World,
    loader_seed: u64,
    ops: Vec<Operation>,
    stats: &Stats,
) -> Result<(Arc<ReadonlyRepo>, usize), (String, String)> {
    let loader = new_loader(world, loader_seed, 30 + (loader_seed % 20) as u32);
    stats.merges.inc();
    let res = catch(|| loader.merge_operations(ops, None, Some("reconcile"), []).block_on())
        .map_err(|e| ("C13/reconcile/panic".to_string(), e))?
        .map_err(|e| ("C13/reconcile/error".to_string(), format!("{e:?}")))?;
    if res.1 > 0 {
        stats.merges_with_rebase.inc();
    }
    Ok(res)
}

/// Heads forked at different operations of a short linear chain on top of the base operation.
fn run_staggered(case: &Case, stagger: &Stagger, stats: &Stats) -> Outcome {
    let case_value = serde_json::to_value(case).unwrap();
    let mut out = Outcome {
        violations: vec![],
        canonical_states: vec![],
        applicable: true,
        order_dependent_unexplained: false,
        interacting: false,
    };
    stats.cases.inc();
    stats.staggered.inc();
    let world = build_base(&case.base);
    let mut chain_snaps: Vec<Snap> = vec![snapshot(&world.base_repo)];
    let mut chain_ops: Vec<Operation> = vec![world.base_repo.operation().clone()];
    for (k, action) in stagger.chain.iter().enumerate() {
        // shared transactions: sides 5, 6 at seconds 1, 2 (children are always later than parents)
        match run_side(&world, &chain_ops[k], &chain_snaps[k], 5 + k, (k + 1) as u32, action, stats) {
            Some((op, snap)) => {
                chain_ops.push(op);
                chain_snaps.push(snap);
            }
            None => {
                stats.cases_not_applicable.inc();
                out.applicable = false;
                return out;
            }
        }
    }
    let mut side_ops: Vec<Operation> = vec![];
    let mut side_snaps: Vec<Snap> = vec![];
    for (i, action) in case.sides.iter().enumerate() {
        let d = stagger.depths[i];
        match run_side(&world, &chain_ops[d], &chain_snaps[d], i + 1, 10 + i as u32, action, stats) {
            Some((op, snap)) => {
                side_ops.push(op);
                side_snaps.push(snap);
            }
            None => {
                stats.cases_not_applicable.inc();
                out.applicable = false;
                return out;
            }
        }
    }
    stats.staggered_judged.inc();
    let k = side_ops.len();
    let mut canon: Vec<(String, BTreeSet<&'static str>)> = vec![];
    let mut judge = |order: &[usize], merged: &Arc<ReadonlyRepo>, what: &str, out: &mut Outcome| {
        let msnap = snapshot(merged);
        let sides: Vec<&Snap> = order.iter().map(|&i| &side_snaps[i]).collect();
        let depths: Vec<usize> = order.iter().map(|&i| stagger.depths[i]).collect();
        let j = Judge::new_staggered(chain_snaps.iter().collect(), sides, depths, &msnap, stats);
        let union = j.union.clone();
        let order1: Vec<usize> = order.iter().map(|i| i + 1).collect();
        let (problems, flags) = j.run();
        for (sig, msg) in problems {
            let mut c = case_value.clone();
            c["reconciliation"] = json!({"via": what, "order": order1});
            out.violations.push((sig, format!("[staggered forks, {what}, order {order1:?}] {msg}"), c));
        }
        canon.push((canonical(&msnap, &union), flags));
    };
    let wanted = |via: &str, order: &[usize]| -> bool {
        match &case.reconciliation {
            None => true,
            Some(r) => r.via == via && r.order == order.iter().map(|i| i + 1).collect::<Vec<_>>(),
        }
    };
    for (pi, perm) in permutations(k).iter().enumerate() {
        if !wanted("merge_operations", perm) {
            continue;
        }
        let ops: Vec<Operation> = perm.iter().map(|&i| side_ops[i].clone()).collect();
        match reconcile(&world, 200 + pi as u64, ops, stats) {
            Ok((merged, n_rebased)) => {
                if n_rebased > 0 {
                    out.interacting = true;
                }
                judge(perm, &merged, "merge_operations", &mut out);
            }
            Err((sig, msg)) => {
                let mut c = case_value.clone();
                c["reconciliation"] =
                    json!({"via": "merge_operations", "order": perm.iter().map(|i| i + 1).collect::<Vec<_>>()});
                out.violations.push((sig, msg, c));
            }
        }
    }
    if case.reconciliation.as_ref().is_none_or(|r| r.via == "load_at_head") {
        let loader = new_loader(&world, 300, 59);
        stats.merges.inc();
        stats.load_at_head.inc();
        match catch(|| loader.load_at_head().block_on()) {
            Err(e) => out.violations.push(("C13/load-at-head/panic".into(), e, case_value.clone())),
            Ok(Err(e)) => out.violations.push(("C13/load-at-head/error".into(), format!("{e:?}"), case_value.clone())),
            Ok(Ok(merged)) => {
                let order: Option<Vec<usize>> = merged
                    .operation()
                    .parent_ids()
                    .iter()
                    .map(|p| side_ops.iter().position(|o| o.id() == p))
                    .collect();
                match order {
                    Some(order) if order.len() == k => judge(&order, &merged, "load_at_head", &mut out),
                    _ => out.violations.push((
                        "C13/load-at-head/heads-not-all-merged".into(),
                        format!(
                            "load_at_head produced an operation whose parents are not exactly the {k} concurrent operations"
                        ),
                        case_value.clone(),
                    )),
                }
            }
        }
    }
    drop(judge);
    if canon.iter().any(|(_, f)| !f.is_empty()) {
        out.interacting = true;
    }
    if let Some((first, _)) = canon.first() {
        if canon.iter().any(|(c, _)| c != first) {
            stats.order_dependent.inc();
            let flags: BTreeSet<&'static str> = canon.iter().flat_map(|(_, f)| f.iter().copied()).collect();
            if flags.is_empty() {
                stats.order_dependent_unexplained.inc();
                out.order_dependent_unexplained = true;
            }
            for f in flags {
                match f {
                    "ref-conflict" => stats.order_dependent_ref_conflict.inc(),
                    "wc-conflict" => stats.order_dependent_wc_conflict.inc(),
                    _ => stats.order_dependent_divergent.inc(),
                }
            }
        }
    }
    out.canonical_states = canon.into_iter().map(|(c, _)| c).collect();
    out
}

fn run_case(case: &Case, stats: &Stats) -> Outcome {
    if let Some(stagger) = &case.stagger {
        return run_staggered(case, stagger, stats);
    }
    let case_value = serde_json::to_value(case).unwrap();
    let mut out = Outcome { violations: vec![], canonical_states: vec![], applicable: true, order_dependent_unexplained: false, interacting: false };
    stats.cases.inc();
    let world = build_base(&case.base);
    let base_snap = snapshot(&world.base_repo);
    let base_op = world.base_repo.operation().clone();
    let mut side_ops: Vec<Operation> = vec![];
    let mut side_snaps: Vec<Snap> = vec![];
    for (i, action) in case.sides.iter().enumerate() {
        match run_side(&world, &base_op, &base_snap, i + 1, (i + 1) as u32, action, stats) {
            Some((op, snap)) => {
                side_ops.push(op);
                side_snaps.push(snap);
            }
            None => {
                stats.cases_not_applicable.inc();
                out.applicable = false;
                return out;
            }
        }
    }
    let k = side_ops.len();
    let judge_one = |order: &[usize],
                     merged: &Arc<ReadonlyRepo>,
                     what: &str,
                     base: &Snap,
                     sides_all: &[Snap],
                     sink: &mut Vec<(String, String, Value)>|
     -> (String, BTreeSet<&'static str>) {
        let msnap = snapshot(merged);
        let sides: Vec<&Snap> = order.iter().map(|&i| &sides_all[i]).collect();
        let judge = Judge::new(base, sides, &msnap, stats);
        let union = judge.union.clone();
        let order1: Vec<usize> = order.iter().map(|i| i + 1).collect();
        let (problems, flags) = judge.run();
        for (sig, msg) in problems {
            let mut c = case_value.clone();
            c["reconciliation"] = json!({"via": what, "order": order1});
            sink.push((sig, format!("[{what}, order {order1:?}] {msg}"), c));
        }
        (canonical(&msnap, &union), flags)
    };
    let wanted = |via: &str, order: &[usize]| -> bool {
        match &case.reconciliation {
            None => true,
            Some(r) => r.via == via && r.order == order.iter().map(|i| i + 1).collect::<Vec<_>>(),
        }
    };
    let note_order_dependence = |canon: &[(String, BTreeSet<&'static str>)], out: &mut Outcome| {
        if canon.iter().any(|(_, f)| !f.is_empty()) {
            out.interacting = true;
        }
        if let Some((first, _)) = canon.first() {
            if canon.iter().any(|(c, _)| c != first) {
                stats.order_dependent.inc();
                let flags: BTreeSet<&'static str> = canon.iter().flat_map(|(_, f)| f.iter().copied()).collect();
                if flags.is_empty() {
                    stats.order_dependent_unexplained.inc();
                    out.order_dependent_unexplained = true;
                }
                for f in flags {
                    match f {
                        "ref-conflict" => stats.order_dependent_ref_conflict.inc(),
                        "wc-conflict" => stats.order_dependent_wc_conflict.inc(),
                        _ => stats.order_dependent_divergent.inc(),
                    }
                }
            }
        }
    };

    if case.ext.is_none() {
        let mut canon: Vec<(String, BTreeSet<&'static str>)> = vec![];
        for (pi, perm) in permutations(k).iter().enumerate() {
            if !wanted("merge_operations", perm) {
                continue;
            }
            let ops: Vec<Operation> = perm.iter().map(|&i| side_ops[i].clone()).collect();
            match reconcile(&world, 200 + pi as u64, ops, stats) {
                Ok((merged, n_rebased)) => {
                    if n_rebased > 0 {
                        out.interacting = true;
                    }
                    let parents: Vec<_> = merged.operation().parent_ids().to_vec();
                    let want: Vec<_> = perm.iter().map(|&i| side_ops[i].id().clone()).collect();
                    if parents != want {
                        machinery_failure("merged operation does not have the requested parents");
                    }
                    canon.push(judge_one(perm, &merged, "merge_operations", &base_snap, &side_snaps, &mut out.violations));
                }
                Err((sig, msg)) => {
                    let mut c = case_value.clone();
                    c["reconciliation"] = json!({"via": "merge_operations", "order": perm.iter().map(|i| i + 1).collect::<Vec<_>>()});
                    out.violations.push((sig, msg, c));
                }
            }
        }
        // the production path
        if case.reconciliation.as_ref().is_some_and(|r| r.via != "load_at_head") {
            out.canonical_states = canon.into_iter().map(|(c, _)| c).collect();
            return out;
        }
        let loader = new_loader(&world, 300, 59);
        stats.merges.inc();
        stats.load_at_head.inc();
        match catch(|| loader.load_at_head().block_on()) {
            Err(e) => out.violations.push(("C13/load-at-head/panic".into(), e, case_value.clone())),
            Ok(Err(e)) => out.violations.push(("C13/load-at-head/error".into(), format!("{e:?}"), case_value.clone())),
            Ok(Ok(merged)) => {
                let order: Option<Vec<usize>> = merged
                    .operation()
                    .parent_ids()
                    .iter()
                    .map(|p| side_ops.iter().position(|o| o.id() == p))
                    .collect();
                match order {
                    Some(order) if order.len() == k => {
                        canon.push(judge_one(&order, &merged, "load_at_head", &base_snap, &side_snaps, &mut out.violations));
                    }
                    _ => out.violations.push((
                        "C13/load-at-head/heads-not-all-merged".into(),
                        format!(
                            "load_at_head produced an operation whose parents are not exactly the {k} concurrent operations"
                        ),
                        case_value.clone(),
                    )),
                }
                let heads = loader
                    .op_heads_store()
                    .get_op_heads()
                    .block_on()
                    .unwrap_or_else(|e| machinery_failure(&format!("cannot read op heads: {e}")));
                if heads != vec![merged.operation().id().clone()] {
                    out.violations.push((
                        "C13/load-at-head/op-heads-not-resolved".into(),
                        format!("after load_at_head the op heads are {heads:?}"),
                        case_value.clone(),
                    ));
                }
            }
        }
        note_order_dependence(&canon, &mut out);
        out.canonical_states = canon.into_iter().map(|(c, _)| c).collect();
        return out;
    }

    // criss-cross
    let (ext_x, ext_y) = case.ext.clone().unwrap();
    stats.crisscross.inc();
    let x = reconcile(&world, 200, vec![side_ops[0].clone(), side_ops[1].clone()], stats);
    let y = reconcile(&world, 201, vec![side_ops[1].clone(), side_ops[0].clone()], stats);
    let (x, y) = match (x, y) {
        (Ok(x), Ok(y)) => (x.0, y.0),
        (Err((sig, msg)), _) | (_, Err((sig, msg))) => {
            out.violations.push((sig, msg, case_value.clone()));
            return out;
        }
    };
    if x.view().store_view() != y.view().store_view() {
        // the two reconciliations rebased commits (different commit ids): the common base of
        // the second round is not a single well-defined repository; not judged here
        stats.crisscross_skipped_differing_views.inc();
        out.applicable = false;
        return out;
    }
    let x_snap = snapshot(&x);
    let xc = run_side(&world, x.operation(), &x_snap, 3, 35, &ext_x, stats);
    let yd = run_side(&world, y.operation(), &x_snap, 4, 36, &ext_y, stats);
    let (Some((op_xc, snap_xc)), Some((op_yd, snap_yd))) = (xc, yd) else {
        stats.cases_not_applicable.inc();
        out.applicable = false;
        return out;
    };
    let ancestors = jj_lib::op_walk::closest_common_ancestors([op_xc.clone()], [op_yd.clone()])
        .block_on()
        .unwrap_or_else(|e| machinery_failure(&format!("cannot walk operations: {e}")));
    if ancestors.len() > 1 {
        stats.crisscross_multi_ancestor.inc();
    }
    stats.crisscross_judged.inc();
    let ext_snaps = vec![snap_xc, snap_yd];
    let ext_ops = [op_xc, op_yd];
    let mut canon = vec![];
    for (pi, perm) in permutations(2).iter().enumerate() {
        if !wanted("criss-cross merge_operations", perm) {
            continue;
        }
        let ops: Vec<Operation> = perm.iter().map(|&i| ext_ops[i].clone()).collect();
        match reconcile(&world, 210 + pi as u64, ops, stats) {
            Ok((merged, n_rebased)) => {
                if n_rebased > 0 {
                    out.interacting = true;
                }
                canon.push(judge_one(perm, &merged, "criss-cross merge_operations", &x_snap, &ext_snaps, &mut out.violations));
            }
            Err((sig, msg)) => out.violations.push((sig, msg, case_value.clone())),
        }
    }
    note_order_dependence(&canon, &mut out);
    out.canonical_states = canon.into_iter().map(|(c, _)| c).collect();
    out
}

/// Signature of the one deviation observed on the unchanged tree (reported to the coordinator);
/// the vacuity gates stay armed when only this shape occurs.
const KNOWN_DIVERGENT_SHAPE: &str = "C13/commits/hidden-commit-below-child-after-divergent-rewrite";

// ---------------------------------------------------------------------------------------

fn main() {
    // the in-memory test backend would otherwise start one thread per core per loader
    // SAFETY: single-threaded at this point.
    unsafe { std::env::set_var("TOKIO_WORKER_THREADS", "1") };
    let ctx = Ctx::from_args("C13", Level::ModelChecking);
    vcommon::silence_panics();
    testutils::hermetic_git();
    let stats = Stats::default();

    if let Some((sig, case)) = ctx.replay_case() {
        let parsed: Case = serde_json::from_value(case.clone())
            .unwrap_or_else(|e| machinery_failure(&format!("bad replay case: {e}")));
        let out = run_case(&parsed, &stats);
        let mut reported = false;
        for (s2, msg, c) in out.violations {
            // report the recorded signature first if it reproduces, otherwise whatever fails
            if s2 == sig || !reported {
                ctx.violation(&s2, msg, c);
                reported = true;
            }
        }
        ctx.finish(Coverage { evaluations: 1, ..Default::default() });
    }

    let family = base_family();
    let pair_bases: Vec<&BaseSpec> = family.iter().collect();
    // triples: (base, alphabet)
    let mut triple_sets: Vec<(&BaseSpec, Vec<Action>)> = vec![];
    if ctx.quick() {
        triple_sets.push((&family[0], small_alphabet(10)));
        triple_sets.push((&family[2], small_alphabet(8)));
    } else {
        triple_sets.push((&family[0], full_alphabet(&family[0])));
        triple_sets.push((&family[1], full_alphabet(&family[1])));
        triple_sets.push((&family[2], full_alphabet(&family[2])));
        triple_sets.push((&family[3], small_alphabet(16)));
        triple_sets.push((&family[4], small_alphabet(16)));
    }
    let cross_bases: Vec<&BaseSpec> = family.iter().take(ctx.pick(1, 3)).collect();
    let cross_first = first_round_alphabet(ctx.pick(6, 8));
    let cross_second = small_alphabet(ctx.pick(6, 12));

    let mut cases: Vec<Case> = vec![];
    for base in &pair_bases {
        let alpha = full_alphabet(base);
        for a in &alpha {
            for b in &alpha {
                cases.push(Case { base: (*base).clone(), sides: vec![a.clone(), b.clone()], ext: None, stagger: None, reconciliation: None });
            }
        }
    }
    let n_pairs = cases.len();
    for (base, alpha) in &triple_sets {
        for a in alpha {
            for b in alpha {
                for c in alpha {
                    cases.push(Case {
                        base: (*base).clone(),
                        sides: vec![a.clone(), b.clone(), c.clone()],
                        ext: None,
                        stagger: None,
                        reconciliation: None,
                    });
                }
            }
        }
    }
    let n_triples = cases.len() - n_pairs;
    for base in &cross_bases {
        for a in &cross_first {
            for b in &cross_first {
                for c in &cross_second {
                    for d in &cross_second {
                        cases.push(Case {
                            base: (*base).clone(),
                            sides: vec![a.clone(), b.clone()],
                            ext: Some((c.clone(), d.clone())),
                            stagger: None,
                        reconciliation: None,
                        });
                    }
                }
            }
        }
    }
    let n_cross = cases.len() - n_pairs - n_triples;
    // staggered fork points: (base, chain length, depths of the sides, chain alphabet, head alphabet)
    let mut stagger_sets: Vec<(&BaseSpec, usize, Vec<usize>, Vec<Action>, Vec<Action>)> = vec![];
    if ctx.quick() {
        stagger_sets.push((&family[0], 1, vec![0, 1, 1], stagger_chain_alphabet(5), stagger_head_alphabet(6)));
        stagger_sets.push((&family[0], 1, vec![0, 0, 1], stagger_chain_alphabet(5), stagger_head_alphabet(5)));
        stagger_sets.push((&family[0], 2, vec![0, 1, 2], stagger_chain_alphabet(3), stagger_head_alphabet(5)));
        stagger_sets.push((&family[0], 1, vec![0, 1], stagger_chain_alphabet(5), stagger_head_alphabet(8)));
    } else {
        for b in [0usize, 1] {
            stagger_sets.push((&family[b], 1, vec![0, 1, 1], stagger_chain_alphabet(10), stagger_head_alphabet(12)));
        }
        stagger_sets.push((&family[0], 1, vec![0, 0, 1], stagger_chain_alphabet(10), stagger_head_alphabet(12)));
        stagger_sets.push((&family[0], 2, vec![0, 1, 2], stagger_chain_alphabet(6), stagger_head_alphabet(8)));
        stagger_sets.push((&family[0], 2, vec![0, 2, 2], stagger_chain_alphabet(5), stagger_head_alphabet(7)));
        stagger_sets.push((&family[0], 1, vec![0, 1], stagger_chain_alphabet(12), stagger_head_alphabet(16)));
        stagger_sets.push((&family[2], 1, vec![0, 1], stagger_chain_alphabet(12), stagger_head_alphabet(16)));
    }
    for (base, chain_len, depths, chain_alpha, head_alpha) in &stagger_sets {
        let mut chains: Vec<Vec<Action>> = vec![];
        vcommon::enumerate::odometer(&vec![chain_alpha.len(); *chain_len], |t| {
            chains.push(t.iter().map(|&i| chain_alpha[i].clone()).collect());
            true
        });
        for chain in &chains {
            vcommon::enumerate::odometer(&vec![head_alpha.len(); depths.len()], |t| {
                cases.push(Case {
                    base: (*base).clone(),
                    sides: t.iter().map(|&i| head_alpha[i].clone()).collect(),
                    ext: None,
                    stagger: Some(Stagger { chain: chain.clone(), depths: depths.clone() }),
                    reconciliation: None,
                });
                true
            });
        }
    }
    let n_stagger = cases.len() - n_pairs - n_triples - n_cross;
    stats.triples.add(n_triples as u64);

    // determinism gate: the same case twice must give the same observations
    {
        let probe = &cases[cases.len().min(40) - 1];
        let a = run_case(probe, &Stats::default());
        let b = run_case(probe, &Stats::default());
        if a.canonical_states != b.canonical_states || a.violations.len() != b.violations.len() {
            machinery_failure("nondeterministic replay of a probe case");
        }
    }

    let samples = Samples::new(3);
    let samples_triples = Samples::new(3);
    let samples_stagger = Samples::new(3);
    let applicable_cases = Counter::new();
    let states: std::sync::Mutex<BTreeSet<u64>> = std::sync::Mutex::new(BTreeSet::new());
    let per_action: std::sync::Mutex<BTreeMap<String, (u64, u64)>> = std::sync::Mutex::new(BTreeMap::new());
    let nontrivial = Counter::new();
    let unexpected = Counter::new();
    let order_examples: std::sync::Mutex<Vec<String>> = std::sync::Mutex::new(vec![]);
    cases.par_iter().for_each(|case| {
        let out = run_case(case, &stats);
        if out.order_dependent_unexplained {
            let v = json!({"base": case.base.name, "sides": case.sides, "ext": case.ext, "stagger": case.stagger});
            order_examples.lock().unwrap().push(v.to_string());
        }
        {
            let mut pa = per_action.lock().unwrap();
            for a in case.sides.iter().chain(case.ext.iter().flat_map(|(c, d)| [c, d])) {
                let e = pa.entry(label_of_action(a)).or_insert((0, 0));
                e.0 += 1;
                if out.applicable {
                    e.1 += 1;
                }
            }
        }
        if out.applicable {
            let mut st = states.lock().unwrap();
            for c in &out.canonical_states {
                st.insert(vcommon::fnv(c.as_bytes()));
            }
            applicable_cases.inc();
            if out.interacting {
                nontrivial.inc();
                if case.stagger.is_some() {
                    samples_stagger.offer(|| json!({"base": case.base.name, "sides": case.sides, "stagger": case.stagger}));
                } else if (case.sides.len() == 3 && samples_triples.wants_more()) || case.ext.is_some() {
                    let which = if case.ext.is_some() { &samples } else { &samples_triples };
                    which.offer(|| json!({"base": case.base.name, "sides": case.sides, "ext": case.ext}));
                }
            }
        }
        for (sig, msg, c) in out.violations {
            if sig != KNOWN_DIVERGENT_SHAPE {
                unexpected.inc();
            }
            ctx.violation(&sig, msg, c);
        }
    });

    // vacuity gates
    let gates: Vec<(&str, u64)> = vec![
        ("reconciliations that rebased commits", stats.merges_with_rebase.get()),
        ("bookmark followed another side's rewrite", stats.ref_one_side_followed.get()),
        ("bookmark conflicts", stats.ref_conflict.get()),
        ("bookmark fast-forwards", stats.ref_fast_forward.get()),
        ("identical changes by several sides", stats.ref_identical.get()),
        ("tag conflicts", stats.tag_conflict.get()),
        ("remote bookmark / git ref conflicts", stats.remote_conflict.get()),
        ("working copy followed a rewrite", stats.wc_followed_rewrite.get()),
        ("working copy recreated after abandonment", stats.wc_recreated.get()),
        ("working-copy conflicts", stats.wc_conflict_first_wins.get()),
        ("workspace removal against a change", stats.wc_removal_wins.get()),
        ("criss-cross with several common ancestors", stats.crisscross_multi_ancestor.get()),
        ("staggered forks: a head hid a commit made by a shared transaction", stats.hidden_commit_made_by_shared_transaction.get()),
        ("staggered forks: created commit hidden again by a later transaction", stats.created_then_hidden_downstream.get()),
        ("staggered forks: a head changed again what a shared transaction changed", stats.chain_value_superseded.get()),
        ("hidden commit with a child created by another side", stats.hidden_by_one_kept_descendant_of_other.get()),
    ];
    if unexpected.get() == 0 {
        for (name, n) in &gates {
            if *n == 0 {
                machinery_failure(&format!("vacuous: no case exercised '{name}'"));
            }
        }
        for (label, (_, applicable)) in per_action.lock().unwrap().iter() {
            if *applicable == 0 {
                machinery_failure(&format!("vacuous: action {label} was never applicable"));
            }
        }
    }

    let mut extra = BTreeMap::new();
    extra.insert("bases_pairs".into(), json!(pair_bases.iter().map(|b| b.name.clone()).collect::<Vec<_>>()));
    extra.insert(
        "triples_base_and_alphabet_size".into(),
        json!(triple_sets.iter().map(|(b, a)| json!([b.name, a.len()])).collect::<Vec<_>>()),
    );
    extra.insert(
        "alphabet_pairs_per_base".into(),
        json!(pair_bases.iter().map(|b| json!([b.name, full_alphabet(b).len()])).collect::<Vec<_>>()),
    );
    extra.insert("bases_crisscross".into(), json!(cross_bases.iter().map(|b| b.name.clone()).collect::<Vec<_>>()));
    extra.insert("alphabet_crisscross_first_round".into(), json!(cross_first.len()));
    extra.insert("alphabet_crisscross_second_round".into(), json!(cross_second.len()));
    extra.insert("cases_pairs".into(), json!(n_pairs));
    extra.insert("cases_triples".into(), json!(n_triples));
    extra.insert("cases_crisscross".into(), json!(n_cross));
    extra.insert("cases_staggered_forks".into(), json!(n_stagger));
    extra.insert("cases_staggered_forks_judged".into(), json!(stats.staggered_judged.get()));
    extra.insert(
        "staggered_fork_sets".into(),
        json!(stagger_sets
            .iter()
            .map(|(b, l, d, ca, ha)| json!({"base": b.name, "shared_transactions": l, "fork_depth_of_sides": d, "chain_alphabet": ca.len(), "head_alphabet": ha.len()}))
            .collect::<Vec<_>>()),
    );
    extra.insert("cases_not_applicable".into(), json!(stats.cases_not_applicable.get()));
    extra.insert("cases_applicable".into(), json!(applicable_cases.get()));
    extra.insert("crisscross_skipped_differing_views".into(), json!(stats.crisscross_skipped_differing_views.get()));
    extra.insert("crisscross_with_several_common_ancestors".into(), json!(stats.crisscross_multi_ancestor.get()));
    extra.insert("reconciliations".into(), json!(stats.merges.get()));
    extra.insert("reconciliations_that_rebased".into(), json!(stats.merges_with_rebase.get()));
    extra.insert("load_at_head_runs".into(), json!(stats.load_at_head.get()));
    extra.insert("side_action_panics".into(), json!(stats.side_panics.get()));
    extra.insert(
        "oracle_clauses_exercised".into(),
        json!({
            "created_or_rewritten_commit_kept": stats.created_checked.get(),
            "staggered_created_commit_hidden_again_downstream": stats.created_then_hidden_downstream.get(),
            "staggered_head_hid_commit_of_shared_transaction": stats.hidden_commit_made_by_shared_transaction.get(),
            "staggered_head_changed_again_what_shared_transaction_changed": stats.chain_value_superseded.get(),
            "abandoned_or_rewritten_commit_hidden": stats.hidden_checked.get(),
            "hidden_commit_had_child_from_other_side": stats.hidden_by_one_kept_descendant_of_other.get(),
            "ref_untouched": stats.ref_untouched.get(),
            "ref_changed_by_one_side": stats.ref_one_side.get(),
            "ref_followed_other_sides_rewrite": stats.ref_one_side_followed.get(),
            "ref_identical_change": stats.ref_identical.get(),
            "ref_fast_forward": stats.ref_fast_forward.get(),
            "ref_sides_agree_after_following_rewrites": stats.ref_agree_after_follow.get(),
            "bookmark_conflict": stats.ref_conflict.get(),
            "tag_conflict": stats.tag_conflict.get(),
            "remote_bookmark_or_git_ref_changed": stats.remote_changed.get(),
            "remote_bookmark_or_git_ref_conflict": stats.remote_conflict.get(),
            "wc_untouched": stats.wc_untouched.get(),
            "wc_changed_by_one_side": stats.wc_one_side.get(),
            "wc_followed_rewrite": stats.wc_followed_rewrite.get(),
            "wc_recreated_after_abandon": stats.wc_recreated.get(),
            "wc_removal_wins": stats.wc_removal_wins.get(),
            "wc_conflict_first_side_wins": stats.wc_conflict_first_wins.get(),
        }),
    );
    extra.insert("results_with_divergent_changes".into(), json!(stats.divergent_results.get()));
    extra.insert("cases_whose_result_depends_on_order".into(), json!(stats.order_dependent.get()));
    extra.insert(
        "order_dependence_breakdown".into(),
        json!({
            "with_ref_conflict": stats.order_dependent_ref_conflict.get(),
            "with_wc_conflict": stats.order_dependent_wc_conflict.get(),
            "with_divergent_change": stats.order_dependent_divergent.get(),
            "with_none_of_these": stats.order_dependent_unexplained.get(),
        }),
    );
    let mut unexplained = order_examples.into_inner().unwrap();
    unexplained.sort();
    unexplained.truncate(5);
    extra.insert(
        "order_dependent_examples_without_conflict_or_divergence".into(),
        json!(unexplained.iter().map(|x| serde_json::from_str::<Value>(x).unwrap()).collect::<Vec<_>>()),
    );
    extra.insert("crisscross_judged".into(), json!(stats.crisscross_judged.get()));
    extra.insert(
        "per_action_used_applicable".into(),
        json!(per_action.lock().unwrap().iter().map(|(k, v)| (k.clone(), json!([v.0, v.1]))).collect::<BTreeMap<_, _>>()),
    );
    let n_states = states.lock().unwrap().len() as u64;
    let merges = stats.merges.get();
    let cov = Coverage {
        evaluations: stats.cases.get(),
        distinct_nontrivial: nontrivial.get(),
        rule: "every ordered pair of actions of the full alphabet on each pair base, every ordered triple of the \
               triple alphabet on each triple base, every (pair, pair of extensions) criss-cross shape of the \
               criss-cross alphabets, every (shared transactions, heads) combination of each staggered-fork set \
               (heads forked at different operations of a 1-2 step chain); each reconciled in every order of the operation heads through \
               merge_operations plus once through load_at_head. A case counts when all its actions are applicable \
               (divergent operation heads really exist); non-trivial = in addition some reconciliation rebased \
               commits, recorded a ref conflict, kept a divergent change or had to choose between two working-copy \
               values (the sides interacted); states = distinct id-free reconciled repositories, transitions = \
               reconciliations executed by the real code"
            .into(),
        samples: samples_triples.take().into_iter().chain(samples.take()).chain(samples_stagger.take()).collect(),
        exhaustive: true,
        states: Some(n_states),
        transitions: Some(merges),
        traces_validated_against_impl: Some(merges),
        extra,
        assumptions: vec![
            "each transaction is atomic up to publication (interleavings of the publication steps are C14's subject)".into(),
            "one action per concurrent transaction; at most 3 concurrent sides; criss-cross depth 1".into(),
            "where both sides changed a working copy differently the documented rule of merge_wc_commit is the \
             reference (removal wins, otherwise the side reconciled first)"
                .into(),
            "conflicted bookmark/tag results are accepted when every side's value (or a descendant named by another \
             side) is among the adds; a resolved result is accepted only as identical change or fast-forward"
                .into(),
            "criss-cross shapes whose two first-round reconciliations differ (they rebased commits with different \
             clocks) are counted and skipped"
                .into(),
            "dependence of the result on the reconciliation order is measured, not judged (not part of the statement)".into(),
        ],
    };
    ctx.finish(cov);
}

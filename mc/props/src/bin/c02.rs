//! C02 — Automatic conflict resolution is exactly the cancellation rule.
//!
//! Exhaustive over every equality pattern of the term list for every odd arity up to the
//! bound, under both same-change settings, through `trivial_merge` and
//! `Merge::resolve_trivial`, with a `Copy` and a non-`Copy` value type.

use jj_lib::merge::Merge;
use jj_lib::merge::SameChange;
use jj_lib::merge::trivial_merge;
use rayon::prelude::*;
use serde_json::json;
use vcommon::Counter;
use vcommon::Coverage;
use vcommon::Ctx;
use vcommon::Level;
use vcommon::Samples;
use vcommon::catch;
use vcommon::enumerate::rgs_prefixes;
use vcommon::enumerate::rgs_with_prefix;

#[derive(Debug, PartialEq, Eq, Clone, Copy)]
enum Expect {
    Must(u8),
    /// statement allows resolving to this value or leaving it unresolved
    May(u8),
    MustNot,
}

/// The counting definition, written with sorted vectors only.
fn reference(terms: &[u8], same_change: SameChange) -> Expect {
    let mut vals: Vec<u8> = terms.to_vec();
    vals.sort();
    vals.dedup();
    let mut pos: Vec<(u8, i32)> = vec![]; // remaining sides with multiplicity
    let mut neg: Vec<(u8, i32)> = vec![]; // remaining bases with multiplicity
    for v in vals {
        let adds = terms.iter().step_by(2).filter(|t| **t == v).count() as i32;
        let removes = terms.iter().skip(1).step_by(2).filter(|t| **t == v).count() as i32;
        let c = adds - removes;
        if c > 0 {
            pos.push((v, c));
        } else if c < 0 {
            neg.push((v, -c));
        }
    }
    let total_pos: i32 = pos.iter().map(|p| p.1).sum();
    if total_pos == 1 {
        // one remaining side; the remaining bases then sum to 0
        assert!(neg.is_empty());
        return Expect::Must(pos[0].0);
    }
    if same_change == SameChange::Accept && pos.len() == 1 {
        // all remaining sides agree
        if neg.len() == 1 {
            return Expect::Must(pos[0].0); // every side made the same change B -> A
        }
        return Expect::May(pos[0].0);
    }
    Expect::MustNot
}

fn sc_name(sc: SameChange) -> &'static str {
    match sc {
        SameChange::Keep => "keep",
        SameChange::Accept => "accept",
    }
}

fn check(terms: &[u8], sc: SameChange) -> Result<bool, (String, String)> {
    let expect = reference(terms, sc);
    let via_fn = catch(|| trivial_merge(terms, sc).copied())
        .map_err(|e| (format!("C02/{}/panic", sc_name(sc)), format!("{terms:?}: {e}")))?;
    let m = Merge::from_vec(terms.to_vec());
    let via_method = catch(|| m.resolve_trivial(sc).copied())
        .map_err(|e| (format!("C02/{}/panic", sc_name(sc)), format!("{terms:?}: {e}")))?;
    let strs: Vec<Option<String>> = terms
        .iter()
        .map(|t| if *t == 0 { None } else { Some(format!("v{t}")) })
        .collect();
    let via_str = catch(|| trivial_merge(&strs, sc).cloned())
        .map_err(|e| (format!("C02/{}/panic", sc_name(sc)), format!("{terms:?}: {e}")))?;
    let via_str_u8 = via_str.map(|s| match s {
        None => 0u8,
        Some(s) => s[1..].parse::<u8>().unwrap(),
    });
    if via_fn != via_method || via_fn != via_str_u8 {
        return Err((
            format!("C02/{}/entry-points-disagree", sc_name(sc)),
            format!("{terms:?}: fn {via_fn:?} method {via_method:?} strings {via_str_u8:?}"),
        ));
    }
    let ok = match (expect, via_fn) {
        (Expect::Must(v), Some(g)) => v == g,
        (Expect::Must(_), None) => false,
        (Expect::May(v), Some(g)) => v == g,
        (Expect::May(_), None) => true,
        (Expect::MustNot, None) => true,
        (Expect::MustNot, Some(_)) => false,
    };
    if !ok {
        let arity_class = if terms.len() == 3 { "3way" } else { "general" };
        return Err((
            format!("C02/{}/{}/wrong-resolution", sc_name(sc), arity_class),
            format!("trivial_merge({terms:?}, {sc:?}) = {via_fn:?}, counting rule says {expect:?}"),
        ));
    }
    Ok(terms.len() >= 3 && !matches!(expect, Expect::MustNot))
}

fn main() {
    let ctx = Ctx::from_args("C02", Level::Exploration);
    vcommon::silence_panics();
    if let Some((_sig, case)) = ctx.replay_case() {
        let terms: Vec<u8> = serde_json::from_value(case["terms"].clone()).unwrap();
        let sc = if case["same_change"] == "accept" { SameChange::Accept } else { SameChange::Keep };
        if let Err((sig, msg)) = check(&terms, sc) {
            ctx.violation(&sig, msg, case);
        }
        ctx.finish(Coverage { evaluations: 1, ..Default::default() });
    }
    let max_arity = ctx.pick(11, 13);
    let evals = Counter::new();
    let nontrivial = Counter::new();
    let samples = Samples::new(6);
    for n in (1..=max_arity).step_by(2) {
        rgs_prefixes(n.min(5)).par_iter().for_each(|prefix| {
            rgs_with_prefix(n, prefix, |pattern| {
                for sc in [SameChange::Keep, SameChange::Accept] {
                    evals.inc();
                    let case = || json!({"terms": pattern, "same_change": sc_name(sc)});
                    match check(pattern, sc) {
                        Ok(nt) => {
                            if nt {
                                nontrivial.inc();
                                if n >= 5 {
                                    samples.offer(case);
                                }
                            }
                        }
                        Err((sig, msg)) => ctx.violation(&sig, msg, case()),
                    }
                }
            });
        });
    }
    let cov = Coverage {
        evaluations: evals.get(),
        distinct_nontrivial: nontrivial.get(),
        rule: format!(
            "every equality pattern of every odd-length term list up to arity {max_arity} x \
             {{keep, accept}}; each (pattern, setting) is generated once; non-trivial = arity >= 3 and the \
             counting rule says the conflict resolves (cancellation actually happens)"
        ),
        samples: samples.take(),
        exhaustive: true,
        extra: [("max_arity".to_string(), json!(max_arity))].into_iter().collect(),
        assumptions: vec![
            "parametricity in the value type (only Eq + Hash are used); checked with u8 and Option<String>".into(),
            "when the remaining sides agree but the remaining bases differ, both 'resolved to that side' and 'unresolved' are accepted".into(),
        ],
        ..Default::default()
    };
    ctx.finish(cov);
}

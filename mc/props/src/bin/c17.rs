//! C17 — Commit backends return on read exactly what write reported.
//!
//! Bounded-exhaustive enumeration of `backend::Commit` values (t-wise products of per-field
//! alphabets around two base commits) written through `Store::write_commit` into a fresh
//! `GitBackend` (with and without the change-id header) or `SimpleBackend` on tmpfs; every
//! accepted commit is read back by a *fresh* backend instance and compared field by field
//! with the commit the write call returned (the one `Store` caches). Short sequences of
//! writes into one store exercise the Git backend's committer-timestamp adjustment. Files,
//! symlinks and trees are enumerated separately and must read back identical.

use std::collections::BTreeMap;
use std::collections::HashMap;
use std::path::Path;
use std::path::PathBuf;
use std::sync::Arc;
use std::sync::Mutex;
use std::sync::atomic::AtomicU64;
use std::sync::atomic::Ordering;

use futures::AsyncReadExt as _;
use jj_lib::backend::Backend;
use jj_lib::backend::ChangeId;
use jj_lib::backend::Commit;
use jj_lib::backend::CommitId;
use jj_lib::backend::CopyId;
use jj_lib::backend::FileId;
use jj_lib::backend::MillisSinceEpoch;
use jj_lib::backend::Signature;
use jj_lib::backend::SymlinkId;
use jj_lib::backend::Timestamp;
use jj_lib::backend::Tree;
use jj_lib::backend::TreeId;
use jj_lib::backend::TreeValue;
use jj_lib::config::ConfigLayer;
use jj_lib::config::ConfigSource;
use jj_lib::git_backend::GitBackend;
use jj_lib::merge::Merge;
use jj_lib::object_id::ObjectId as _;
use jj_lib::repo_path::RepoPath;
use jj_lib::repo_path::RepoPathComponentBuf;
use jj_lib::settings::UserSettings;
use jj_lib::signing::Signer;
use jj_lib::simple_backend::SimpleBackend;
use jj_lib::store::Store;
use jj_lib::tree_merge::MergeOptions;
use pollster::FutureExt as _;
use rayon::prelude::*;
use serde::Deserialize;
use serde::Serialize;
use serde_json::Value;
use serde_json::json;
use vcommon::Counter;
use vcommon::Coverage;
use vcommon::Ctx;
use vcommon::Level;
use vcommon::Samples;
use vcommon::catch;
use vcommon::machinery_failure;

// ------------------------------------------------------------------------------------------
// literal, self-contained description of a commit to write

#[derive(Clone, Debug, PartialEq, Eq, Hash, Serialize, Deserialize)]
struct Sig {
    name: String,
    email: String,
    ms: i64,
    tz: i32,
}

/// Parents / predecessors are named `root`, `p1`..`p3` (fixed commits written into the store
/// first); trees are named `empty`, `t1`..`t5` (fixed one-file trees written first).
#[derive(Clone, Debug, PartialEq, Eq, Hash, Serialize, Deserialize)]
struct Spec {
    parents: Vec<String>,
    predecessors: Vec<String>,
    trees: Vec<String>,
    labels: Option<Vec<String>>,
    change_id: String,
    description: String,
    author: Sig,
    committer: Sig,
}

#[derive(Clone, Copy, Debug, PartialEq, Eq, Hash)]
enum Kind {
    Git,
    GitNoHeader,
    Simple,
}

impl Kind {
    fn name(self) -> &'static str {
        match self {
            Kind::Git => "git",
            Kind::GitNoHeader => "git-noheader",
            Kind::Simple => "simple",
        }
    }
    /// first component of signatures
    fn family(self) -> &'static str {
        match self {
            Kind::Git | Kind::GitNoHeader => "git",
            Kind::Simple => "simple",
        }
    }
    fn parse(s: &str) -> Kind {
        match s {
            "git" => Kind::Git,
            "git-noheader" => Kind::GitNoHeader,
            "simple" => Kind::Simple,
            other => machinery_failure(&format!("unknown backend {other}")),
        }
    }
}

// ------------------------------------------------------------------------------------------
// alphabets (slot values)

const PARENTS: [&[&str]; 7] = [
    &["root"],
    &["p1"],
    &["p1", "p2"],
    &["p2", "p1"],
    &["p1", "p2", "p3"],
    &["root", "p1"], // Git must reject
    &[],             // both reject
];
const PREDS: [&[&str]; 4] = [&[], &["p1"], &["p1", "p2"], &["p2", "p1"]];

fn tree_label_alphabet(thorough: bool) -> Vec<(Vec<&'static str>, Option<Vec<&'static str>>)> {
    let mut out: Vec<(Vec<&str>, Option<Vec<&str>>)> = vec![(vec!["empty"], None), (vec!["t1"], None)];
    let three: [Vec<&str>; 3] = [vec!["t1", "t2", "t3"], vec!["t1", "empty", "t2"], vec!["empty", "t1", "t1"]];
    let labels3: [Option<Vec<&str>>; 5] = [
        None,
        Some(vec!["side a", "base", "side b"]),
        Some(vec!["\u{fc}", "", "\u{65e5}\u{672c}"]),
        Some(vec![" a ", "b  c", ""]),
        Some(vec!["", "", ""]),
    ];
    for (i, t) in three.iter().enumerate() {
        for (j, l) in labels3.iter().enumerate() {
            // quick: the third tree shape only unlabelled and with ascii labels
            if thorough || i < 2 || j < 2 {
                out.push((t.clone(), l.clone()));
            }
        }
    }
    let five: [Vec<&str>; 2] = [vec!["t1", "t2", "t3", "t4", "t5"], vec!["t1", "t1", "t2", "t2", "empty"]];
    let labels5: [Option<Vec<&str>>; 3] = [
        None,
        Some(vec!["a", "b", "c", "d", "e"]),
        Some(vec!["", "\u{fc} x", "", "y ", ""]),
    ];
    for t in &five {
        for (j, l) in labels5.iter().enumerate() {
            if thorough || j != 1 {
                out.push((t.clone(), l.clone()));
            }
        }
    }
    out
}

const CHANGE_IDS: [&str; 4] = [
    "0102030405060708090a0b0c0d0e0f10",
    "ffffffffffffffffffffffffffffffff",
    "00000000000000000000000000000000",
    "80808080808080808080808080808080",
];

fn descriptions(thorough: bool) -> Vec<&'static str> {
    let mut v = vec![
        "a",
        "",
        "a\n",
        "\n\nx",
        "\u{fc}\u{65e5}\n",
        "a  \n",
        "JJ: x\n\nbody\n",
        "a\r\nb",
        " leading\ttab",
        "subject\n\nchange-id: x\njj:trees y\n",
    ];
    if thorough {
        v.extend(["\n", "a\n\n\n", "a\0b", "tree 0000\nparent 1\n\nx"]);
    }
    v
}

fn names(thorough: bool) -> Vec<&'static str> {
    let mut v = vec!["a", "", "\u{fc}", "a b", "JJ_EMPTY_STRING", "<", "a\nb", " a", "a "];
    if thorough {
        v.extend([">", "a<b>", "a.", "jj_empty_string", "a\0"]);
    }
    v
}

fn emails(thorough: bool) -> Vec<&'static str> {
    let mut v = vec!["a@b", "", "\u{fc}@b", "JJ_EMPTY_STRING", "<", " a@b ", "a b"];
    if thorough {
        v.extend([">", "a\nb", "a@b>", "<a@b", "x@JJ_EMPTY_STRING"]);
    }
    v
}

fn millis(thorough: bool) -> Vec<i64> {
    let mut v = vec![1000, 0, 1500, -1, -1500, 1_099_511_627_000];
    if thorough {
        v.extend([999, 1, -1000, -999, 2000, 253_402_300_799_000, -62_135_596_800_000]);
    }
    v
}

fn tzs(thorough: bool) -> Vec<i32> {
    let mut v = vec![0, 60, -720, 840, 1, -1];
    if thorough {
        v.extend([59, -59, 1439, -1439, 90]);
    }
    v
}

const C_PARENTS: usize = 0;
const C_TREE: usize = 1;
const C_CHANGE: usize = 2;
const C_PREDS: usize = 3;
const C_DESC: usize = 4;
const C_A_NAME: usize = 5;
const C_A_EMAIL: usize = 6;
const C_A_MS: usize = 7;
const C_A_TZ: usize = 8;
const C_C_NAME: usize = 9;
const C_C_EMAIL: usize = 10;
const C_C_MS: usize = 11;
const C_C_TZ: usize = 12;
const C_SLOTS: usize = 13;

struct Space {
    trees: Vec<(Vec<&'static str>, Option<Vec<&'static str>>)>,
    descriptions: Vec<&'static str>,
    names: Vec<&'static str>,
    emails: Vec<&'static str>,
    millis: Vec<i64>,
    tzs: Vec<i32>,
    dims: Vec<usize>,
    bases: Vec<Vec<u16>>,
}

impl Space {
    fn new(thorough: bool) -> Self {
        let trees = tree_label_alphabet(thorough);
        let descriptions = descriptions(thorough);
        let names = names(thorough);
        let emails = emails(thorough);
        let millis = millis(thorough);
        let tzs = tzs(thorough);
        let mut dims = vec![0; C_SLOTS];
        dims[C_PARENTS] = PARENTS.len();
        dims[C_TREE] = trees.len();
        dims[C_CHANGE] = CHANGE_IDS.len();
        dims[C_PREDS] = PREDS.len();
        dims[C_DESC] = descriptions.len();
        for (n, e, m, z) in [(C_A_NAME, C_A_EMAIL, C_A_MS, C_A_TZ), (C_C_NAME, C_C_EMAIL, C_C_MS, C_C_TZ)] {
            dims[n] = names.len();
            dims[e] = emails.len();
            dims[m] = millis.len();
            dims[z] = tzs.len();
        }
        // base 0: a plain commit on the root. base 1: a child of p1 with a labelled conflict,
        // a predecessor, unicode, a far-future author time and non-zero offsets.
        let base0 = vec![0u16; C_SLOTS];
        let mut base1 = vec![0u16; C_SLOTS];
        base1[C_PARENTS] = 1;
        base1[C_TREE] = 3; // t1 t2 t3 with ascii labels
        base1[C_CHANGE] = 1;
        base1[C_PREDS] = 1;
        base1[C_DESC] = 4;
        base1[C_A_NAME] = 2;
        base1[C_A_EMAIL] = 2;
        base1[C_A_MS] = 5;
        base1[C_A_TZ] = 2;
        base1[C_C_NAME] = 3;
        base1[C_C_EMAIL] = 0;
        base1[C_C_MS] = 1;
        base1[C_C_TZ] = 3;
        Space { trees, descriptions, names, emails, millis, tzs, dims, bases: vec![base0, base1] }
    }

    fn build(&self, idx: &[u16]) -> Spec {
        let sv = |v: &[&str]| v.iter().map(|s| s.to_string()).collect::<Vec<_>>();
        let (trees, labels) = &self.trees[idx[C_TREE] as usize];
        let sig = |n: usize, e: usize, m: usize, z: usize| Sig {
            name: self.names[idx[n] as usize].to_string(),
            email: self.emails[idx[e] as usize].to_string(),
            ms: self.millis[idx[m] as usize],
            tz: self.tzs[idx[z] as usize],
        };
        Spec {
            parents: sv(PARENTS[idx[C_PARENTS] as usize]),
            predecessors: sv(PREDS[idx[C_PREDS] as usize]),
            trees: sv(trees),
            labels: labels.as_ref().map(|l| sv(l)),
            change_id: CHANGE_IDS[idx[C_CHANGE] as usize].to_string(),
            description: self.descriptions[idx[C_DESC] as usize].to_string(),
            author: sig(C_A_NAME, C_A_EMAIL, C_A_MS, C_A_TZ),
            committer: sig(C_C_NAME, C_C_EMAIL, C_C_MS, C_C_TZ),
        }
    }
}

// t-wise enumeration around a base (same scheme as c16.rs): every index vector that differs
// from the base in at most `t` slots, each exactly once.
fn twise(dims: &[usize], base: &[u16], t: usize, f: &mut impl FnMut(&[u16])) {
    fn rec(cur: &mut Vec<u16>, base: &[u16], dims: &[usize], start: usize, left: usize, f: &mut impl FnMut(&[u16])) {
        for p in start..dims.len() {
            for v in 0..dims[p] as u16 {
                if v == base[p] {
                    continue;
                }
                cur[p] = v;
                f(cur);
                if left > 1 {
                    rec(cur, base, dims, p + 1, left - 1, f);
                }
            }
            cur[p] = base[p];
        }
    }
    let mut cur = base.to_vec();
    f(&cur);
    if t > 0 {
        rec(&mut cur, base, dims, 0, t, f);
    }
}

// ------------------------------------------------------------------------------------------
// a store on tmpfs

static DIR_COUNTER: AtomicU64 = AtomicU64::new(0);
// coarse CPU profile (nanoseconds summed over threads), reported in the evidence
static T_SETUP: AtomicU64 = AtomicU64::new(0);
static T_PREREQ: AtomicU64 = AtomicU64::new(0);
static T_WRITE: AtomicU64 = AtomicU64::new(0);
static T_OPEN: AtomicU64 = AtomicU64::new(0);
static T_READ: AtomicU64 = AtomicU64::new(0);

fn timed<R>(acc: &AtomicU64, f: impl FnOnce() -> R) -> R {
    let t = std::time::Instant::now();
    let r = f();
    acc.fetch_add(t.elapsed().as_nanos() as u64, Ordering::Relaxed);
    r
}

struct Env {
    kind: Kind,
    dir: PathBuf,
    settings: UserSettings,
    store: Arc<Store>,
    commits: HashMap<String, CommitId>,
    trees: HashMap<String, TreeId>,
}

fn settings_for(kind: Kind) -> UserSettings {
    static CACHE: Mutex<Vec<(Kind, UserSettings)>> = Mutex::new(vec![]);
    let mut cache = CACHE.lock().unwrap();
    if let Some((_, s)) = cache.iter().find(|(k, _)| *k == kind) {
        return s.clone();
    }
    let s = make_settings(kind);
    cache.push((kind, s.clone()));
    s
}

fn make_settings(kind: Kind) -> UserSettings {
    let mut config = testutils::base_user_config();
    if kind == Kind::GitNoHeader {
        config.add_layer(
            ConfigLayer::parse(ConfigSource::User, "git.write-change-id-header = false").unwrap(),
        );
    }
    UserSettings::from_config(config).unwrap_or_else(|e| machinery_failure(&format!("settings: {e}")))
}

fn open_backend(kind: Kind, dir: &Path, settings: &UserSettings, init: bool) -> Box<dyn Backend> {
    match (kind, init) {
        (Kind::Simple, true) => Box::new(SimpleBackend::init(dir)),
        (Kind::Simple, false) => Box::new(SimpleBackend::load(dir)),
        (_, true) => Box::new(
            GitBackend::init_internal(settings, dir, gix::hash::Kind::Sha1)
                .unwrap_or_else(|e| machinery_failure(&format!("cannot init git backend: {e}"))),
        ),
        (_, false) => Box::new(
            GitBackend::load(settings, dir)
                .unwrap_or_else(|e| machinery_failure(&format!("cannot load git backend: {e}"))),
        ),
    }
}

impl Env {
    fn new(kind: Kind, scratch: &Path) -> Env {
        let n = DIR_COUNTER.fetch_add(1, Ordering::Relaxed);
        // one parent directory per worker thread (less contention on the tmpfs directory lock)
        let dir = scratch.join(format!("w{}", rayon::current_thread_index().unwrap_or(99))).join(format!("s{n}"));
        std::fs::create_dir_all(&dir).unwrap_or_else(|e| machinery_failure(&format!("scratch: {e}")));
        let settings = settings_for(kind);
        let backend = open_backend(kind, &dir, &settings, true);
        let signer = Signer::from_settings(&settings).unwrap_or_else(|e| machinery_failure(&format!("signer: {e}")));
        let merge_options =
            MergeOptions::from_settings(&settings).unwrap_or_else(|e| machinery_failure(&format!("merge options: {e}")));
        let store = Store::new(backend, signer, merge_options);
        Env { kind, dir, settings, store, commits: HashMap::new(), trees: HashMap::new() }
    }

    fn fresh_backend(&self) -> Box<dyn Backend> {
        open_backend(self.kind, &self.dir, &self.settings, false)
    }

    fn backend(&self) -> &dyn Backend {
        self.store.backend()
    }

    fn tree(&mut self, name: &str) -> TreeId {
        if name == "empty" {
            return self.backend().empty_tree_id().clone();
        }
        if let Some(id) = self.trees.get(name) {
            return id.clone();
        }
        let content = format!("content of {name}\n");
        let file_id = self
            .backend()
            .write_file(RepoPath::root(), &mut content.as_bytes())
            .block_on()
            .unwrap_or_else(|e| machinery_failure(&format!("prerequisite file: {e}")));
        let tree = Tree::from_sorted_entries(vec![(
            RepoPathComponentBuf::new(format!("f{name}")).unwrap(),
            TreeValue::File { id: file_id, executable: false, copy_id: CopyId::placeholder() },
        )]);
        let id = self
            .backend()
            .write_tree(RepoPath::root(), &tree)
            .block_on()
            .unwrap_or_else(|e| machinery_failure(&format!("prerequisite tree: {e}")));
        self.trees.insert(name.to_string(), id.clone());
        id
    }

    fn commit_ref(&mut self, name: &str) -> CommitId {
        if name == "root" {
            return self.backend().root_commit_id().clone();
        }
        if let Some(id) = self.commits.get(name) {
            return id.clone();
        }
        let n: i64 = name[1..].parse().unwrap();
        let sig = Signature {
            name: format!("parent {n}"),
            email: "parent@example.com".into(),
            timestamp: Timestamp { timestamp: MillisSinceEpoch(10_000 * n), tz_offset: 0 },
        };
        let commit = Commit {
            parents: vec![self.backend().root_commit_id().clone()],
            predecessors: vec![],
            root_tree: Merge::resolved(self.backend().empty_tree_id().clone()),
            conflict_labels: Merge::resolved(String::new()),
            change_id: ChangeId::new(vec![0x50 + n as u8; 16]),
            description: format!("{name}\n"),
            author: sig.clone(),
            committer: sig,
            secure_sig: None,
        };
        let (id, _) = self
            .backend()
            .write_commit(commit, None)
            .block_on()
            .unwrap_or_else(|e| machinery_failure(&format!("prerequisite commit: {e}")));
        self.commits.insert(name.to_string(), id.clone());
        id
    }

    fn materialize(&mut self, spec: &Spec) -> Commit {
        let sig = |s: &Sig| Signature {
            name: s.name.clone(),
            email: s.email.clone(),
            timestamp: Timestamp { timestamp: MillisSinceEpoch(s.ms), tz_offset: s.tz },
        };
        Commit {
            parents: spec.parents.iter().map(|p| self.commit_ref(p)).collect(),
            predecessors: spec.predecessors.iter().map(|p| self.commit_ref(p)).collect(),
            root_tree: Merge::from_vec(spec.trees.iter().map(|t| self.tree(t)).collect::<Vec<_>>()),
            conflict_labels: match &spec.labels {
                None => Merge::resolved(String::new()),
                Some(l) => Merge::from_vec(l.clone()),
            },
            change_id: ChangeId::try_from_hex(&spec.change_id).unwrap(),
            description: spec.description.clone(),
            author: sig(&spec.author),
            committer: sig(&spec.committer),
            secure_sig: None,
        }
    }
}

impl Drop for Env {
    fn drop(&mut self) {
        let _ = std::fs::remove_dir_all(&self.dir);
    }
}

// ------------------------------------------------------------------------------------------
// oracle

type Failures = Vec<(String, String)>;

/// If true, a commit whose conflict labels are all empty must read back with exactly those
/// labels (the simple backend then fails: it stores them as "no labels").
const STRICT_NONCANONICAL_LABELS: bool = false;

fn commit_brief(c: &Commit) -> String {
    format!(
        "parents={:?} preds={:?} tree={:?} labels={:?} change={} desc={:?} author=({:?},{:?},{},{}) committer=({:?},{:?},{},{})",
        c.parents.iter().map(|p| p.hex()[..8].to_string()).collect::<Vec<_>>(),
        c.predecessors.iter().map(|p| p.hex()[..8].to_string()).collect::<Vec<_>>(),
        c.root_tree.iter().map(|p| p.hex()[..8].to_string()).collect::<Vec<_>>(),
        c.conflict_labels.as_slice(),
        c.change_id.hex(),
        c.description,
        c.author.name,
        c.author.email,
        c.author.timestamp.timestamp.0,
        c.author.timestamp.tz_offset,
        c.committer.name,
        c.committer.email,
        c.committer.timestamp.timestamp.0,
        c.committer.timestamp.tz_offset,
    )
}

/// Field-by-field comparison of the commit `write_commit` returned with the commit a fresh
/// backend instance reads. One narrow signature per differing field.
fn compare(kind: Kind, returned: &Commit, read: &Commit, fails: &mut Failures) -> bool {
    let fam = kind.family();
    let mut normalised_labels = false;
    let mut diff = |field: &str, msg: String| {
        fails.push((format!("C17/{fam}/roundtrip/{field}"), msg));
    };
    if returned.parents != read.parents {
        diff("parents", format!("returned {:?}, read {:?}", returned.parents, read.parents));
    }
    if returned.predecessors != read.predecessors {
        diff("predecessors", format!("returned {:?}, read {:?}", returned.predecessors, read.predecessors));
    }
    if returned.root_tree != read.root_tree {
        diff("root_tree", format!("returned {:?}, read {:?}", returned.root_tree, read.root_tree));
    }
    if returned.conflict_labels != read.conflict_labels {
        // `ConflictLabels` (the only producer of this field in jj) identifies "every label empty"
        // with "no labels"; such a value is outside the domain and either form may come back.
        let all_empty = |m: &Merge<String>| m.iter().all(|l| l.is_empty());
        if !STRICT_NONCANONICAL_LABELS && all_empty(&returned.conflict_labels) && all_empty(&read.conflict_labels) {
            normalised_labels = true;
        } else {
            diff(
                "conflict_labels",
                format!("returned {:?}, read {:?}", returned.conflict_labels.as_slice(), read.conflict_labels.as_slice()),
            );
        }
    }
    if returned.change_id != read.change_id {
        diff("change_id", format!("returned {}, read {}", returned.change_id.hex(), read.change_id.hex()));
    }
    if returned.description != read.description {
        diff("description", format!("returned {:?}, read {:?}", returned.description, read.description));
    }
    if returned.secure_sig != read.secure_sig {
        diff("secure_sig", "returned and read signatures differ".to_string());
    }
    for (who, w, r) in [("author", &returned.author, &read.author), ("committer", &returned.committer, &read.committer)] {
        for (part, ws, rs) in [("name", &w.name, &r.name), ("email", &w.email, &r.email)] {
            if ws != rs {
                if fam == "git" && ws == "JJ_EMPTY_STRING" && rs.is_empty() {
                    fails.push((
                        "C17/git/placeholder-collision".into(),
                        format!("{who} {part}: write_commit returned {ws:?}, a fresh read gives {rs:?}"),
                    ));
                } else if fam == "git" && rs.as_str() == ws.trim() {
                    fails.push((
                        "C17/git/name-email-whitespace-trimmed".into(),
                        format!("{who} {part}: write_commit returned {ws:?}, a fresh read gives {rs:?}"),
                    ));
                } else {
                    fails.push((
                        format!("C17/{fam}/roundtrip/{who}-{part}"),
                        format!("write_commit returned {ws:?}, a fresh read gives {rs:?}"),
                    ));
                }
            }
        }
        let (wt, rt) = (w.timestamp.timestamp.0, r.timestamp.timestamp.0);
        if wt != rt {
            if fam == "git" && who == "author" && wt.rem_euclid(1000) != 0 && rt == wt.div_euclid(1000) * 1000 {
                fails.push((
                    "C17/git/author-subsecond".into(),
                    format!("author timestamp: write_commit returned {wt} ms, a fresh read gives {rt} ms"),
                ));
            } else {
                fails.push((
                    format!("C17/{fam}/roundtrip/{who}-timestamp"),
                    format!("write_commit returned {wt} ms, a fresh read gives {rt} ms"),
                ));
            }
        }
        if w.timestamp.tz_offset != r.timestamp.tz_offset {
            fails.push((
                format!("C17/{fam}/roundtrip/{who}-tz"),
                format!(
                    "write_commit returned offset {} min, a fresh read gives {} min",
                    w.timestamp.tz_offset, r.timestamp.tz_offset
                ),
            ));
        }
    }
    normalised_labels
}

struct Written {
    spec: Spec,
    id: CommitId,
    returned: Commit,
    faithful: bool,
}

#[derive(Default)]
struct CaseOutcome {
    fails: Failures,
    accepted: Vec<Written>,
    rejected_err: u64,
    rejected_panic: u64,
    adjusted: u64,
    normalised_labels: u64,
}

/// Writes the sequence into one fresh store, then reads everything back with a fresh
/// backend instance.
fn run_case(kind: Kind, seq: &[Spec], scratch: &Path) -> CaseOutcome {
    let fam = kind.family();
    let mut out = CaseOutcome::default();
    let mut env = timed(&T_SETUP, || Env::new(kind, scratch));
    // the first spec is written once more at the end: same value => same id
    let mut order: Vec<&Spec> = seq.iter().collect();
    order.push(&seq[0]);
    let mut first: Option<(CommitId, Commit)> = None;
    for (n, spec) in order.iter().enumerate() {
        let again = n == seq.len();
        let commit = timed(&T_PREREQ, || env.materialize(spec));
        let input_committer_ms = commit.committer.timestamp.timestamp.0;
        let store = env.store.clone();
        let result = timed(&T_WRITE, || catch(|| {
            if commit.parents.is_empty() {
                // Store::write_commit asserts non-empty parents; the backend must reject it
                store.backend().write_commit(commit, None).block_on()
            } else {
                store
                    .write_commit(commit, None)
                    .block_on()
                    .map(|c| (c.id().clone(), (**c.store_commit()).clone()))
            }
        }));
        let (id, returned) = match result {
            Ok(Ok(x)) => x,
            Ok(Err(_)) => {
                if !again {
                    out.rejected_err += 1;
                }
                continue;
            }
            Err(_) => {
                if !again {
                    out.rejected_panic += 1;
                }
                continue;
            }
        };
        if again {
            if let Some((id0, ret0)) = &first {
                if *id0 != id || *ret0 != returned {
                    out.fails.push((
                        format!("C17/{fam}/rewrite-same-value"),
                        format!(
                            "writing the same commit again gave id {} / {} instead of id {} / {}",
                            id.hex(),
                            commit_brief(&returned),
                            id0.hex(),
                            commit_brief(ret0)
                        ),
                    ));
                }
            }
            continue;
        }
        if n == 0 {
            first = Some((id.clone(), returned.clone()));
        }
        if returned.committer.timestamp.timestamp.0 != input_committer_ms.div_euclid(1000) * 1000
            && returned.committer.timestamp.timestamp.0 != input_committer_ms
        {
            out.adjusted += 1;
        }
        // the copy Store caches is the returned one
        match catch(|| store.get_commit(&id)) {
            Ok(Ok(c)) if **c.store_commit() == returned => {}
            _ => out.fails.push((
                format!("C17/{fam}/store-cache"),
                "Store::get_commit right after write_commit is not the returned commit".into(),
            )),
        }
        out.accepted.push(Written { spec: (*spec).clone(), id, returned, faithful: false });
    }
    // read back
    let mut fresh = timed(&T_OPEN, || env.fresh_backend());
    for w in &mut out.accepted {
        let before = out.fails.len();
        let mut fresh_read: Option<Commit> = None;
        match timed(&T_READ, || catch(|| fresh.read_commit(&w.id).block_on())) {
            Ok(Ok(read)) => {
                if compare(kind, &w.returned, &read, &mut out.fails) {
                    out.normalised_labels += 1;
                }
                fresh_read = Some(read);
            }
            Ok(Err(e)) => out.fails.push((
                format!("C17/{fam}/read-failed"),
                format!("a fresh backend cannot read accepted commit {}: {e}", w.id.hex()),
            )),
            Err(p) => {
                out.fails.push((
                    format!("C17/{fam}/read-failed"),
                    format!("a fresh backend panics reading accepted commit {}: {p}", w.id.hex()),
                ));
                // the panic may have poisoned the instance; later reads get a new one
                fresh = env.fresh_backend();
            }
        }
        // the writing instance must agree with the fresh one
        match catch(|| env.store.backend().read_commit(&w.id).block_on()) {
            Ok(Ok(read)) => {
                if let Some(fresh_read) = &fresh_read {
                    if *fresh_read != read {
                        out.fails.push((
                            format!("C17/{fam}/instance-dependent-read"),
                            "the writing backend instance and a fresh one read different commits".into(),
                        ));
                    }
                }
            }
            _ => out.fails.push((
                format!("C17/{fam}/read-failed"),
                format!("the writing backend cannot read accepted commit {}", w.id.hex()),
            )),
        }
        w.faithful = out.fails.len() == before;
    }
    // within one store: different (faithfully stored) commits have different ids; equal
    // inputs have equal ids
    for i in 0..out.accepted.len() {
        for j in i + 1..out.accepted.len() {
            let (a, b) = (&out.accepted[i], &out.accepted[j]);
            if a.spec == b.spec && a.id != b.id {
                out.fails.push((
                    format!("C17/{fam}/rewrite-same-value"),
                    format!("the same commit written twice got ids {} and {}", a.id.hex(), b.id.hex()),
                ));
            }
            if a.faithful && b.faithful && a.returned != b.returned && a.id == b.id {
                out.fails.push((
                    format!("C17/{fam}/id-collision"),
                    format!("two different commits in one store share id {}", a.id.hex()),
                ));
            }
        }
    }
    out
}

fn case_json(kind: Kind, seq: &[Spec]) -> Value {
    json!({"kind": "commits", "backend": kind.name(), "seq": seq})
}

// ------------------------------------------------------------------------------------------
// files, symlinks, trees

fn blob_contents() -> Vec<Vec<u8>> {
    let pattern = |n: usize| (0..n).map(|i| (i * 7 + i / 251) as u8).collect::<Vec<u8>>();
    vec![
        b"".to_vec(),
        b"a".to_vec(),
        b"a\n".to_vec(),
        b"\r\n".to_vec(),
        b"\0".to_vec(),
        (0..=255u8).collect(),
        "\u{fc}\u{65e5}".as_bytes().to_vec(),
        pattern((1 << 14) - 1),
        pattern(1 << 14),
        pattern((1 << 14) + 1),
        pattern(70 * 1024),
    ]
}

const SYMLINK_TARGETS: [&str; 8] = ["", "a", "\u{fc}", "a b", "../x", "a\nb", "/abs/path", "a/"];
const TREE_NAMES: [&str; 5] = ["a", "a b", "a-b", "a.b", "\u{fc}"];

fn read_all(backend: &dyn Backend, id: &FileId) -> Result<Vec<u8>, String> {
    let mut reader = backend.read_file(RepoPath::root(), id).block_on().map_err(|e| e.to_string())?;
    let mut buf = vec![];
    reader.read_to_end(&mut buf).block_on().map_err(|e| e.to_string())?;
    Ok(buf)
}

struct ObjStats {
    files: u64,
    symlinks: u64,
    trees: u64,
    trees_reordered_for_git: u64,
}

/// `only`: replay filter (`("file"|"symlink"|"tree", literal)`).
fn run_objects(kind: Kind, scratch: &Path, ctx: &Ctx, only: Option<&Value>) -> ObjStats {
    let fam = kind.family();
    let env = Env::new(kind, scratch);
    let w = env.backend();
    let mut stats = ObjStats { files: 0, symlinks: 0, trees: 0, trees_reordered_for_git: 0 };
    let want = |k: &str| only.is_none_or(|o| o["object"] == k);
    // files
    let mut file_ids: HashMap<FileId, Vec<u8>> = HashMap::new();
    let contents: Vec<Vec<u8>> = match only {
        Some(o) if o["object"] == "file" => vec![serde_json::from_value(o["bytes"].clone()).unwrap()],
        _ => blob_contents(),
    };
    if want("file") {
        for c in &contents {
            stats.files += 1;
            let case = || json!({"kind": "object", "backend": kind.name(), "object": "file", "bytes": c});
            let r = catch(|| {
                let id = w.write_file(RepoPath::root(), &mut c.as_slice()).block_on().map_err(|e| e.to_string())?;
                let id2 = w.write_file(RepoPath::root(), &mut c.as_slice()).block_on().map_err(|e| e.to_string())?;
                let fresh = env.fresh_backend();
                let back = read_all(fresh.as_ref(), &id)?;
                Ok::<_, String>((id, id2, back))
            });
            match r {
                Ok(Ok((id, id2, back))) => {
                    if &back != c {
                        ctx.violation(
                            &format!("C17/{fam}/file-roundtrip"),
                            format!("file of {} bytes read back as {} bytes / different content", c.len(), back.len()),
                            case(),
                        );
                    }
                    if id != id2 {
                        ctx.violation(&format!("C17/{fam}/file-id-unstable"), "same content, two ids", case());
                    }
                    if let Some(prev) = file_ids.insert(id, c.clone()) {
                        if &prev != c {
                            ctx.violation(&format!("C17/{fam}/file-id-collision"), "two contents, one id", case());
                        }
                    }
                }
                Ok(Err(e)) => ctx.violation(&format!("C17/{fam}/file-roundtrip"), format!("write/read failed: {e}"), case()),
                Err(p) => ctx.violation(&format!("C17/{fam}/file-roundtrip"), format!("panic: {p}"), case()),
            }
        }
    }
    // symlinks
    let mut link_ids: HashMap<SymlinkId, String> = HashMap::new();
    let targets: Vec<String> = match only {
        Some(o) if o["object"] == "symlink" => vec![o["target"].as_str().unwrap().to_string()],
        _ => SYMLINK_TARGETS.iter().map(|s| s.to_string()).collect(),
    };
    if want("symlink") {
        for t in &targets {
            stats.symlinks += 1;
            let case = || json!({"kind": "object", "backend": kind.name(), "object": "symlink", "target": t});
            let r = catch(|| {
                let id = w.write_symlink(RepoPath::root(), t).block_on().map_err(|e| e.to_string())?;
                let id2 = w.write_symlink(RepoPath::root(), t).block_on().map_err(|e| e.to_string())?;
                let fresh = env.fresh_backend();
                let back = fresh.read_symlink(RepoPath::root(), &id).block_on().map_err(|e| e.to_string())?;
                Ok::<_, String>((id, id2, back))
            });
            match r {
                Ok(Ok((id, id2, back))) => {
                    if &back != t {
                        ctx.violation(
                            &format!("C17/{fam}/symlink-roundtrip"),
                            format!("symlink target {t:?} read back as {back:?}"),
                            case(),
                        );
                    }
                    if id != id2 {
                        ctx.violation(&format!("C17/{fam}/symlink-id-unstable"), "same target, two ids", case());
                    }
                    if let Some(prev) = link_ids.insert(id, t.clone()) {
                        if &prev != t {
                            ctx.violation(&format!("C17/{fam}/symlink-id-collision"), "two targets, one id", case());
                        }
                    }
                }
                Ok(Err(e)) => ctx.violation(&format!("C17/{fam}/symlink-roundtrip"), format!("write/read failed: {e}"), case()),
                Err(p) => ctx.violation(&format!("C17/{fam}/symlink-roundtrip"), format!("panic: {p}"), case()),
            }
        }
    }
    if !want("tree") {
        return stats;
    }
    // trees: every set of <= 3 names x every assignment of entry kinds
    let file_id = w.write_file(RepoPath::root(), &mut &b"x\n"[..]).block_on().unwrap();
    let link_id = w.write_symlink(RepoPath::root(), "x").block_on().unwrap();
    let sub_id = w
        .write_tree(
            RepoPath::root(),
            &Tree::from_sorted_entries(vec![(
                RepoPathComponentBuf::new("f").unwrap(),
                TreeValue::File { id: file_id.clone(), executable: false, copy_id: CopyId::placeholder() },
            )]),
        )
        .block_on()
        .unwrap();
    // kinds: 0 file, 1 executable file, 2 symlink, 3 subtree, 4 = git: submodule / simple: file with a copy id
    let value = |k: usize| -> TreeValue {
        match k {
            0 => TreeValue::File { id: file_id.clone(), executable: false, copy_id: CopyId::placeholder() },
            1 => TreeValue::File { id: file_id.clone(), executable: true, copy_id: CopyId::placeholder() },
            2 => TreeValue::Symlink(link_id.clone()),
            3 => TreeValue::Tree(sub_id.clone()),
            _ => {
                if fam == "git" {
                    TreeValue::GitSubmodule(CommitId::new(vec![0x77; 20]))
                } else {
                    TreeValue::File { id: file_id.clone(), executable: false, copy_id: CopyId::new(vec![1, 2, 3]) }
                }
            }
        }
    };
    let mut tree_specs: Vec<Vec<(usize, usize)>> = vec![];
    if let Some(o) = only {
        tree_specs.push(serde_json::from_value(o["entries"].clone()).unwrap());
    } else {
        for names in vcommon::enumerate::subsets_up_to(TREE_NAMES.len(), 3) {
            let dims = vec![5usize; names.len()];
            if names.is_empty() {
                tree_specs.push(vec![]);
                continue;
            }
            vcommon::enumerate::odometer(&dims, |ks| {
                tree_specs.push(names.iter().copied().zip(ks.iter().copied()).collect());
                true
            });
        }
    }
    let mut tree_ids: HashMap<TreeId, Vec<(usize, usize)>> = HashMap::new();
    let fresh = env.fresh_backend();
    for spec in &tree_specs {
        stats.trees += 1;
        // sorted by name as jj requires (TREE_NAMES is already in jj order)
        let tree = Tree::from_sorted_entries(
            spec.iter().map(|&(n, k)| (RepoPathComponentBuf::new(TREE_NAMES[n]).unwrap(), value(k))).collect(),
        );
        if fam == "git" && spec.iter().any(|&(n, k)| n == 0 && k == 3) && spec.len() > 1 {
            stats.trees_reordered_for_git += 1;
        }
        let case = || json!({"kind": "object", "backend": kind.name(), "object": "tree", "entries": spec,
            "names": TREE_NAMES, "kinds": ["file", "exec", "symlink", "tree", "submodule(git)/file+copy_id(simple)"]});
        let r = catch(|| {
            let id = w.write_tree(RepoPath::root(), &tree).block_on().map_err(|e| e.to_string())?;
            let id2 = w.write_tree(RepoPath::root(), &tree).block_on().map_err(|e| e.to_string())?;
            let back = fresh.read_tree(RepoPath::root(), &id).block_on().map_err(|e| e.to_string())?;
            Ok::<_, String>((id, id2, back))
        });
        match r {
            Ok(Ok((id, id2, back))) => {
                if back != tree {
                    ctx.violation(&format!("C17/{fam}/tree-roundtrip"), format!("tree read back as {back:?}"), case());
                }
                if id != id2 {
                    ctx.violation(&format!("C17/{fam}/tree-id-unstable"), "same tree, two ids", case());
                }
                if let Some(prev) = tree_ids.insert(id, spec.clone()) {
                    if &prev != spec {
                        ctx.violation(&format!("C17/{fam}/tree-id-collision"), format!("trees {prev:?} and {spec:?} share an id"), case());
                    }
                }
            }
            Ok(Err(e)) => ctx.violation(&format!("C17/{fam}/tree-roundtrip"), format!("write/read failed: {e}"), case()),
            Err(p) => ctx.violation(&format!("C17/{fam}/tree-roundtrip"), format!("panic: {p}"), case()),
        }
    }
    stats
}

// ------------------------------------------------------------------------------------------

fn nontrivial(spec: &Spec) -> bool {
    let odd = |s: &Sig| {
        s.ms < 0 || s.ms % 1000 != 0 || s.tz != 0 || s.name.is_empty() || s.email.is_empty() || !s.name.is_ascii() || !s.email.is_ascii()
    };
    spec.parents.len() > 1
        || spec.trees.len() > 1
        || !spec.predecessors.is_empty()
        || spec.description.is_empty()
        || !spec.description.is_ascii()
        || odd(&spec.author)
        || odd(&spec.committer)
}

/// Cross-store injectivity: a commit id determines the commit (for Git: everything that is part
/// of the Git object; predecessors, and the change id when the header is off, live in the
/// per-store extras table and are compared within one store only).
fn projection(kind: Kind, c: &Commit) -> Commit {
    let mut p = c.clone();
    match kind {
        Kind::Simple => {}
        Kind::Git => p.predecessors.clear(),
        Kind::GitNoHeader => {
            p.predecessors.clear();
            p.change_id = ChangeId::new(vec![]);
        }
    }
    p
}

fn main() {
    let ctx = Ctx::from_args("C17", Level::Exploration);
    vcommon::silence_panics();
    testutils::hermetic_git();
    let scratch = ctx.scratch().to_path_buf();

    if let Some((_sig, case)) = ctx.replay_case() {
        let kind = Kind::parse(case["backend"].as_str().unwrap_or(""));
        match case["kind"].as_str().unwrap_or("") {
            "commits" => {
                let seq: Vec<Spec> = serde_json::from_value(case["seq"].clone())
                    .unwrap_or_else(|e| machinery_failure(&format!("bad replay case: {e}")));
                // C17_BENCH=n repeats the case n times and prints the coarse profile (tuning aid)
                if let Some(n) = std::env::var("C17_BENCH").ok().and_then(|s| s.parse::<u32>().ok()) {
                    let t0 = std::time::Instant::now();
                    for _ in 0..n {
                        run_case(kind, &seq, &scratch);
                    }
                    let us = |a: &AtomicU64| a.load(Ordering::Relaxed) / 1000 / n as u64;
                    eprintln!(
                        "bench: {} us/case; setup {} prereq {} write {} open {} read {}",
                        t0.elapsed().as_micros() / n as u128,
                        us(&T_SETUP), us(&T_PREREQ), us(&T_WRITE), us(&T_OPEN), us(&T_READ)
                    );
                }
                let out = run_case(kind, &seq, &scratch);
                for (sig, msg) in out.fails {
                    ctx.violation(&sig, msg, case.clone());
                }
            }
            "id-collision" => {
                let a: Spec = serde_json::from_value(case["a"].clone()).unwrap();
                let b: Spec = serde_json::from_value(case["b"].clone()).unwrap();
                let oa = run_case(kind, &[a], &scratch);
                let ob = run_case(kind, &[b], &scratch);
                if let (Some(wa), Some(wb)) = (oa.accepted.first(), ob.accepted.first()) {
                    if wa.faithful
                        && wb.faithful
                        && wa.id == wb.id
                        && projection(kind, &wa.returned) != projection(kind, &wb.returned)
                    {
                        ctx.violation(
                            &format!("C17/{}/id-collision", kind.family()),
                            format!("two different commits share id {}", wa.id.hex()),
                            case.clone(),
                        );
                    }
                }
            }
            "object" => {
                run_objects(kind, &scratch, &ctx, Some(&case));
            }
            other => machinery_failure(&format!("unknown replay kind {other}")),
        }
        ctx.finish(Coverage { evaluations: 1, ..Default::default() });
    }

    let thorough = ctx.thorough();
    let space = Space::new(thorough);
    // single commits: t-wise around the two bases; (t for base 0, t for base 1) per backend
    // configuration. The Git configurations cost ~5 ms per case (a fresh repository each), so
    // the quick tier spends its pairs on base 0; the simple backend is cheap.
    let plan = |kind: Kind| -> (usize, usize) {
        match (kind, thorough) {
            (Kind::Git, false) => (2, 1),
            (Kind::GitNoHeader, false) => (1, 1),
            (Kind::Simple, false) => (2, 2),
            (Kind::Git, true) | (Kind::GitNoHeader, true) => (2, 2),
            (Kind::Simple, true) => (3, 3),
        }
    };
    // sequences in one store: X then X with other predecessors / another change id (the Git
    // backend must move the committer timestamp), X three times with growing predecessors,
    // X twice. X ranges over the bases with at most one varied slot.
    let mut seqs: Vec<Vec<Spec>> = vec![];
    for (bn, base) in space.bases.iter().enumerate() {
        // quick: base 0 with <= 1 varied slot and base 1 itself; thorough: both with <= 1 varied slot
        let tx = if bn == 1 && !thorough { 0 } else { 1 };
        twise(&space.dims, base, tx, &mut |idx| {
            let x = space.build(idx);
            for p in 0..PREDS.len() {
                let mut y = x.clone();
                y.predecessors = PREDS[p].iter().map(|s| s.to_string()).collect();
                if y != x {
                    seqs.push(vec![x.clone(), y]);
                }
            }
            for c in CHANGE_IDS {
                let mut y = x.clone();
                y.change_id = c.to_string();
                if y != x {
                    seqs.push(vec![x.clone(), y]);
                }
            }
            let chain: Vec<Spec> = [0usize, 1, 2]
                .iter()
                .map(|&p| {
                    let mut y = x.clone();
                    y.predecessors = PREDS[p].iter().map(|s| s.to_string()).collect();
                    y
                })
                .collect();
            seqs.push(chain);
            seqs.push(vec![x.clone(), x.clone()]);
        });
    }

    let kinds = [Kind::Git, Kind::GitNoHeader, Kind::Simple];
    let evals = Counter::new();
    let nontriv = Counter::new();
    let samples = Samples::new(6);
    let mut extra: BTreeMap<String, Value> = BTreeMap::new();
    // id -> (fingerprint of the projected commit, spec); see `projection`
    enum CaseRef {
        Idx(Vec<u16>),
        Spec(Box<Spec>),
    }
    let id_map: Mutex<HashMap<(Kind, CommitId), (u64, CaseRef)>> = Mutex::new(HashMap::new());

    for kind in kinds {
        let kind_start = std::time::Instant::now();
        let accepted = Counter::new();
        let rejected_err = Counter::new();
        let rejected_panic = Counter::new();
        let adjusted = Counter::new();
        let conflicts_ok = Counter::new();
        let labelled_ok = Counter::new();
        let merges_ok = Counter::new();
        let subsecond_author = Counter::new();
        let seq_cases = Counter::new();
        let normalised_labels = Counter::new();
        enum Work<'a> {
            Single(Vec<u16>),
            Seq(&'a Vec<Spec>),
        }
        let (t0, t1) = plan(kind);
        let mut work: Vec<Work> = vec![];
        for (base, t) in [(&space.bases[0], t0), (&space.bases[1], t1)] {
            twise(&space.dims, base, t, &mut |idx| work.push(Work::Single(idx.to_vec())));
        }
        let n_singles = work.len();
        work.extend(seqs.iter().map(Work::Seq));
        work.par_iter().for_each(|item| {
            let built;
            let seq: &Vec<Spec> = match item {
                Work::Single(idx) => {
                    built = vec![space.build(idx)];
                    &built
                }
                Work::Seq(s) => s,
            };
            let out = run_case(kind, seq, &scratch);
            if seq.len() > 1 {
                seq_cases.inc();
            }
            evals.add(seq.len() as u64);
            rejected_err.add(out.rejected_err);
            rejected_panic.add(out.rejected_panic);
            adjusted.add(out.adjusted);
            normalised_labels.add(out.normalised_labels);
            for w in &out.accepted {
                accepted.inc();
                if w.spec.trees.len() > 1 {
                    conflicts_ok.inc();
                }
                if w.spec.labels.is_some() {
                    labelled_ok.inc();
                }
                if w.spec.parents.len() > 1 {
                    merges_ok.inc();
                }
                if w.spec.author.ms % 1000 != 0 {
                    subsecond_author.inc();
                }
                if seq.len() == 1 && nontrivial(&w.spec) {
                    nontriv.inc();
                }
                if w.faithful {
                    let proj = vcommon::fnv(format!("{:?}", projection(kind, &w.returned)).as_bytes());
                    let mut map = id_map.lock().unwrap();
                    match map.get(&(kind, w.id.clone())) {
                        Some((prev, prev_ref)) => {
                            let prev_spec = match prev_ref {
                                CaseRef::Idx(idx) => space.build(idx),
                                CaseRef::Spec(s) => (**s).clone(),
                            };
                            if *prev != proj {
                                ctx.violation(
                                    &format!("C17/{}/id-collision", kind.family()),
                                    format!("two different commits share id {}", w.id.hex()),
                                    json!({"kind": "id-collision", "backend": kind.name(), "a": prev_spec, "b": w.spec}),
                                );
                            }
                        }
                        None => {
                            let r = match item {
                                Work::Single(idx) => CaseRef::Idx(idx.clone()),
                                Work::Seq(_) => CaseRef::Spec(Box::new(w.spec.clone())),
                            };
                            map.insert((kind, w.id.clone()), (proj, r));
                        }
                    }
                }
            }
            if out.fails.is_empty() && seq.len() == 3 && kind == Kind::Git && seq[0].trees.len() == 3 {
                samples.offer(|| case_json(kind, seq));
            }
            if out.fails.is_empty() && seq.len() == 1 && kind == Kind::Simple && seq[0].author.ms == -1500 && seq[0].trees.len() == 5 {
                samples.offer(|| case_json(kind, seq));
            }
            for (sig, msg) in out.fails {
                ctx.violation(&sig, msg, case_json(kind, seq));
            }
        });
        let commits_wall = kind_start.elapsed().as_secs_f64();
        let obj = run_objects(kind, &scratch, &ctx, None);
        let objects_wall = kind_start.elapsed().as_secs_f64() - commits_wall;
        evals.add(obj.files + obj.symlinks + obj.trees);
        nontriv.add(obj.trees);
        extra.insert(
            kind.name().to_string(),
            json!({
                "commit_writes": n_singles + seqs.iter().map(|s| s.len()).sum::<usize>(),
                "single_commit_cases": n_singles,
                "wall_s_commits": (commits_wall * 10.0).round() / 10.0,
                "wall_s_objects": (objects_wall * 10.0).round() / 10.0,
                "t_around_base0": t0,
                "t_around_base1": t1,
                "sequence_cases": seq_cases.get(),
                "accepted": accepted.get(),
                "rejected_err": rejected_err.get(),
                "rejected_panic": rejected_panic.get(),
                "committer_timestamp_adjusted": adjusted.get(),
                "accepted_conflicted_trees": conflicts_ok.get(),
                "accepted_labelled_conflicts": labelled_ok.get(),
                "accepted_merges": merges_ok.get(),
                "accepted_subsecond_author": subsecond_author.get(),
                "all_empty_labels_read_back_as_unlabelled": normalised_labels.get(),
                "files": obj.files, "symlinks": obj.symlinks, "trees": obj.trees,
                "trees_where_git_order_differs": obj.trees_reordered_for_git,
            }),
        );
        // vacuity
        for (name, n) in [
            ("accepted", accepted.get()),
            ("rejected", rejected_err.get() + rejected_panic.get()),
            ("conflicted trees", conflicts_ok.get()),
            ("labelled conflicts", labelled_ok.get()),
            ("merges", merges_ok.get()),
        ] {
            if n == 0 {
                machinery_failure(&format!("vacuous: no {name} for backend {}", kind.name()));
            }
        }
        if kind != Kind::Simple && adjusted.get() == 0 {
            machinery_failure("vacuous: the Git committer-timestamp adjustment was never exercised");
        }
    }
    let ms = |a: &AtomicU64| a.load(Ordering::Relaxed) / 1_000_000;
    extra.insert(
        "profile_cpu_ms".into(),
        json!({"store_setup": ms(&T_SETUP), "prerequisites": ms(&T_PREREQ), "write_commit": ms(&T_WRITE),
               "fresh_open": ms(&T_OPEN), "fresh_read": ms(&T_READ)}),
    );
    extra.insert("slots".into(), json!(C_SLOTS));
    extra.insert("slot_sizes".into(), json!(space.dims));
    extra.insert("distinct_commit_ids_in_injectivity_map".into(), json!(id_map.lock().unwrap().len()));

    let cov = Coverage {
        evaluations: evals.get(),
        distinct_nontrivial: nontriv.get(),
        rule: "commits = every index vector over 13 slots (parents, root tree x labels, change id, predecessors, \
               description, author/committer name, email, time, offset) that differs from one of two base commits \
               in at most t slots (t per backend configuration and base: see t_around_base0/1), each generated once, per backend configuration (git, git without change-id \
               header, simple), each in its own fresh store; plus 2- and 3-commit sequences into one store \
               (same commit with other predecessors / change id, same commit twice); plus every tree with <= 3 of \
               5 names x 5 entry kinds, 11 file contents, 8 symlink targets per backend. non-trivial = accepted \
               single commit that is a merge, has a conflicted tree, predecessors, an empty or non-ASCII \
               description/name/email, a negative or sub-second time or a non-zero offset; every tree"
            .into(),
        samples: samples.take(),
        exhaustive: true,
        extra,
        assumptions: vec![
            "commits obey the documented invariants of backend::Commit (labels resolved-empty or one per tree term, no newline in labels, 16-byte change ids, no secure_sig)".into(),
            "conflict labels that are all empty are the same value as 'no labels' (ConflictLabels::from_merge, the only producer in jj); either form may be read back (counted in all_empty_labels_read_back_as_unlabelled)".into(),
            "a write that returns Err or panics is a rejection (counted), not a violation".into(),
            "Git tree entries carry the placeholder copy id (the Git backend documents that it does not store copy ids)".into(),
            "for the Git backend ids are compared across stores modulo the fields kept in the per-store extras table; the cross-store comparison uses a 64-bit fingerprint of the commit (within one store commits are compared directly)".into(),
        ],
        ..Default::default()
    };
    ctx.finish(cov);
}

//! C19 — Revset evaluation matches set semantics.
//!
//! Bounded-exhaustive: every DAG on n commits (<= 3 parents, both parent orders for merges)
//! x every choice of visible heads (every antichain, so every up-closed set of commits is
//! hidden once) x two committer-timestamp orders x every revset expression of a family of
//! bounded depth built from the public `RevsetExpression` builders. Each expression is
//! evaluated by `evaluate()` (optimised) and `evaluate_unoptimized()` on a `MutableRepo`
//! (mutable index segment on top of a readonly one, un-normalised redundant view heads) and on
//! a `ReadonlyRepo` freshly loaded from disk, and compared with a set-theoretic reference
//! evaluator over the parent table (definitions from docs/revsets.md): same set, listed in
//! descending index (= creation) order, no duplicates, optimised == unoptimised. For the
//! expressions of depth <= 1 the same evaluation is also observed through `stream_graph()`,
//! `is_empty()` and `containing_fn()`, which must agree with the `stream()` listing.
//!
//! Bounds: quick = depth <= 1 on every 4-commit graph + depth 2 on every 3-commit graph;
//! thorough = depth <= 1 on every 5-commit graph (<= 2 parents) and 4-commit graph (<= 3
//! parents), depth 2 on every 4-commit graph (<= 2 parents), depth 2 and 3 on every 3-commit
//! graph. `bisect(x)` (no exact definition) is checked with a weak oracle, see `check_bisect`.
//!
//! A disagreement is only reported after a second, independent formulation of the reference
//! (explicit path search over `BTreeSet`s, using the "equivalent to" formulas of the docs)
//! has produced the same expected answer; otherwise the run is a machinery failure.

use std::collections::BTreeMap;
use std::collections::BTreeSet;
use std::collections::HashMap;
use std::collections::HashSet;
use std::sync::Arc;

use futures::StreamExt as _;
use jj_lib::backend::CommitId;
use jj_lib::backend::MillisSinceEpoch;
use jj_lib::backend::Signature;
use jj_lib::backend::Timestamp;
use jj_lib::default_index::DefaultReadonlyIndex;
use jj_lib::repo::ReadonlyRepo;
use jj_lib::repo::Repo;
use jj_lib::revset::ResolvedRevsetExpression;
use jj_lib::revset::RevsetExpression;
use jj_lib::revset::RevsetFilterPredicate;
use pollster::FutureExt as _;
use rayon::prelude::*;
use serde::Deserialize;
use serde::Serialize;
use serde_json::Value;
use serde_json::json;
use testutils::TestRepo;
use vcommon::Counter;
use vcommon::Coverage;
use vcommon::Ctx;
use vcommon::Level;
use vcommon::Samples;
use vcommon::catch;
use vcommon::enumerate::Dag;
use vcommon::enumerate::all_dags;
use vcommon::enumerate::decode;
use vcommon::enumerate::product;
use vcommon::machinery_failure;

// ---------------------------------------------------------------------------------------
// Graphs
// ---------------------------------------------------------------------------------------

/// Self-contained description of a commit graph (what goes into a replay file).
#[derive(Clone, Debug, Serialize, Deserialize, PartialEq, Eq)]
struct GraphSpec {
    /// `parents[k]` = parents of node `k + 1`, in order (the first one is the first parent).
    /// Node 0 is the root commit. Nodes are created in increasing order.
    parents: Vec<Vec<usize>>,
    /// committer timestamp (ms) of node `k + 1`
    ts: Vec<i64>,
}

struct G {
    n: usize,
    /// index 0..=n, parents[0] = []
    parents: Vec<Vec<usize>>,
    ts: Vec<i64>,
    anc: Vec<u32>,
    desc: Vec<u32>,
    pmask: Vec<u32>,
}

fn bit(i: usize) -> u32 {
    1u32 << i
}

fn nodes_of(m: u32) -> Vec<usize> {
    (0..32).filter(|&i| m >> i & 1 == 1).collect()
}

impl G {
    fn new(spec: &GraphSpec) -> G {
        let n = spec.parents.len();
        let mut parents = vec![vec![]];
        parents.extend(spec.parents.iter().cloned());
        let mut ts = vec![0i64];
        ts.extend(spec.ts.iter().copied());
        let mut anc = vec![0u32; n + 1];
        let mut pmask = vec![0u32; n + 1];
        for i in 0..=n {
            let mut m = bit(i);
            for &p in &parents[i] {
                assert!(p < i);
                m |= anc[p];
                pmask[i] |= bit(p);
            }
            anc[i] = m;
        }
        let mut desc = vec![0u32; n + 1];
        for i in 0..=n {
            for j in 0..=n {
                if anc[j] & bit(i) != 0 {
                    desc[i] |= bit(j);
                }
            }
        }
        G { n, parents, ts, anc, desc, pmask }
    }

    fn spec(&self) -> GraphSpec {
        GraphSpec { parents: self.parents[1..].to_vec(), ts: self.ts[1..].to_vec() }
    }

    fn anc_of(&self, m: u32) -> u32 {
        nodes_of(m).into_iter().fold(0, |a, i| a | self.anc[i])
    }

    fn heads_of(&self, m: u32) -> u32 {
        nodes_of(m).into_iter().filter(|&c| self.desc[c] & m == bit(c)).fold(0, |a, c| a | bit(c))
    }

    fn roots_of(&self, m: u32) -> u32 {
        nodes_of(m).into_iter().filter(|&c| self.anc[c] & m == bit(c)).fold(0, |a, c| a | bit(c))
    }

    /// all non-root DAG heads
    fn dag_heads(&self) -> u32 {
        let all = (1..=self.n).fold(0, |a, i| a | bit(i));
        self.heads_of(all)
    }

    fn has_merge(&self) -> bool {
        self.parents.iter().any(|p| p.len() >= 2)
    }

    /// every antichain of non-root nodes (as masks), including the empty one
    fn antichains(&self) -> Vec<u32> {
        let mut out = vec![];
        for m in 0u32..(1u32 << self.n) {
            let m = m << 1;
            if self.heads_of(m) == m && self.roots_of(m) == m {
                out.push(m);
            }
        }
        out
    }
}

fn spec_from_dag(dag: &Dag, reverse_parents: bool, reverse_ts: bool) -> GraphSpec {
    let n = dag.n();
    let parents = dag
        .parents
        .iter()
        .map(|ps| {
            if ps.is_empty() {
                vec![0]
            } else {
                let mut v: Vec<usize> = ps.iter().map(|p| p + 1).collect();
                if reverse_parents {
                    v.reverse();
                }
                v
            }
        })
        .collect();
    let ts = (1..=n)
        .map(|i| if reverse_ts { 1000 * (n + 1 - i) as i64 } else { 1000 * i as i64 })
        .collect();
    GraphSpec { parents, ts }
}

// ---------------------------------------------------------------------------------------
// Expressions
// ---------------------------------------------------------------------------------------

#[derive(Clone, Debug, PartialEq, Eq, Serialize, Deserialize)]
enum E {
    None,
    All,
    Root,
    VisibleHeads,
    /// filter `ParentCount(2..)`, i.e. `merges()`
    Merges,
    Forks,
    Commits(Vec<usize>),
    /// generation range `a..b` (`b = None`: unbounded), `first`: first-parent only
    Anc { x: Box<E>, a: u64, b: Option<u64>, first: bool },
    Desc { x: Box<E>, a: u64, b: Option<u64> },
    Heads(Box<E>),
    Roots(Box<E>),
    ForkPoint(Box<E>),
    MergePoint(Box<E>),
    Connected(Box<E>),
    Latest(Box<E>, usize),
    Not(Box<E>),
    /// `WithinVisibility` with these (literal) visible heads
    Within(Box<E>, Vec<usize>),
    Bisect(Box<E>),
    Range(Box<E>, Box<E>),
    DagRange(Box<E>, Box<E>),
    /// sources, domain
    Reachable(Box<E>, Box<E>),
    Coalesce(Box<E>, Box<E>),
    Union(Box<E>, Box<E>),
    Inter(Box<E>, Box<E>),
    Diff(Box<E>, Box<E>),
}

const KINDS: [&str; 25] = [
    "none", "all", "root", "visible_heads", "merges", "forks", "commits", "ancestors",
    "first_ancestors", "descendants", "heads", "roots", "fork_point", "merge_point", "connected",
    "latest", "not", "within", "bisect", "range", "dag_range", "reachable", "coalesce", "union",
    "intersection",
];
const KIND_DIFF: usize = 25;
const NKINDS: usize = 26;

fn kind_name(k: usize) -> &'static str {
    if k == KIND_DIFF { "difference" } else { KINDS[k] }
}

impl E {
    fn kind(&self) -> usize {
        match self {
            E::None => 0,
            E::All => 1,
            E::Root => 2,
            E::VisibleHeads => 3,
            E::Merges => 4,
            E::Forks => 5,
            E::Commits(_) => 6,
            E::Anc { first: false, .. } => 7,
            E::Anc { first: true, .. } => 8,
            E::Desc { .. } => 9,
            E::Heads(_) => 10,
            E::Roots(_) => 11,
            E::ForkPoint(_) => 12,
            E::MergePoint(_) => 13,
            E::Connected(_) => 14,
            E::Latest(..) => 15,
            E::Not(_) => 16,
            E::Within(..) => 17,
            E::Bisect(_) => 18,
            E::Range(..) => 19,
            E::DagRange(..) => 20,
            E::Reachable(..) => 21,
            E::Coalesce(..) => 22,
            E::Union(..) => 23,
            E::Inter(..) => 24,
            E::Diff(..) => KIND_DIFF,
        }
    }

    fn children(&self) -> Vec<&E> {
        match self {
            E::None | E::All | E::Root | E::VisibleHeads | E::Merges | E::Forks | E::Commits(_) => {
                vec![]
            }
            E::Anc { x, .. }
            | E::Desc { x, .. }
            | E::Heads(x)
            | E::Roots(x)
            | E::ForkPoint(x)
            | E::MergePoint(x)
            | E::Connected(x)
            | E::Latest(x, _)
            | E::Not(x)
            | E::Within(x, _)
            | E::Bisect(x) => vec![x],
            E::Range(a, b)
            | E::DagRange(a, b)
            | E::Reachable(a, b)
            | E::Coalesce(a, b)
            | E::Union(a, b)
            | E::Inter(a, b)
            | E::Diff(a, b) => vec![a, b],
        }
    }

    fn has_latest(&self) -> bool {
        matches!(self, E::Latest(..)) || self.children().iter().any(|c| c.has_latest())
    }

    /// operator skeleton two levels deep, used in violation signatures
    fn shape(&self) -> String {
        let ch = self.children();
        if ch.is_empty() {
            kind_name(self.kind()).to_string()
        } else {
            let inner: Vec<&str> = ch.iter().map(|c| kind_name(c.kind())).collect();
            format!("{}({})", kind_name(self.kind()), inner.join(","))
        }
    }

    /// revset-like rendering for messages (`nK` = node K)
    fn show(&self) -> String {
        fn gen_s(a: u64, b: Option<u64>) -> String {
            match b {
                Some(b) => format!("{a}..{b}"),
                Option::None => format!("{a}.."),
            }
        }
        match self {
            E::None => "none()".into(),
            E::All => "all()".into(),
            E::Root => "root()".into(),
            E::VisibleHeads => "visible_heads()".into(),
            E::Merges => "merges()".into(),
            E::Forks => "forks()".into(),
            E::Commits(s) => {
                let v: Vec<String> = s.iter().map(|i| format!("n{i}")).collect();
                format!("({})", v.join("|"))
            }
            E::Anc { x, a, b, first } => format!(
                "{}({}, gen {})",
                if *first { "first_ancestors" } else { "ancestors" },
                x.show(),
                gen_s(*a, *b)
            ),
            E::Desc { x, a, b } => format!("descendants({}, gen {})", x.show(), gen_s(*a, *b)),
            E::Heads(x) => format!("heads({})", x.show()),
            E::Roots(x) => format!("roots({})", x.show()),
            E::ForkPoint(x) => format!("fork_point({})", x.show()),
            E::MergePoint(x) => format!("merge_point({})", x.show()),
            E::Connected(x) => format!("connected({})", x.show()),
            E::Latest(x, k) => format!("latest({}, {k})", x.show()),
            E::Not(x) => format!("~{}", x.show()),
            E::Within(x, h) => format!("within_visibility(heads={h:?}, {})", x.show()),
            E::Bisect(x) => format!("bisect({})", x.show()),
            E::Range(a, b) => format!("({}..{})", a.show(), b.show()),
            E::DagRange(a, b) => format!("({}::{})", a.show(), b.show()),
            E::Reachable(a, b) => format!("reachable({}, {})", a.show(), b.show()),
            E::Coalesce(a, b) => format!("coalesce({}, {})", a.show(), b.show()),
            E::Union(a, b) => format!("({} | {})", a.show(), b.show()),
            E::Inter(a, b) => format!("({} & {})", a.show(), b.show()),
            E::Diff(a, b) => format!("({} ~ {})", a.show(), b.show()),
        }
    }
}

type Rx = ResolvedRevsetExpression;

fn to_jj(e: &E, ids: &[CommitId]) -> Arc<Rx> {
    let gen_r = |a: u64, b: Option<u64>| a..b.unwrap_or(u64::MAX);
    match e {
        E::None => Rx::none(),
        E::All => Rx::all(),
        E::Root => Rx::root(),
        E::VisibleHeads => Rx::visible_heads(),
        E::Merges => Rx::filter(RevsetFilterPredicate::ParentCount(2..u32::MAX)),
        E::Forks => Rx::forks(),
        E::Commits(s) => Rx::commits(s.iter().map(|&i| ids[i].clone()).collect()),
        E::Anc { x, a, b, first } => {
            let x = to_jj(x, ids);
            if *first {
                x.first_ancestors_range(gen_r(*a, *b))
            } else {
                x.ancestors_range(gen_r(*a, *b))
            }
        }
        E::Desc { x, a, b } => to_jj(x, ids).descendants_range(gen_r(*a, *b)),
        E::Heads(x) => to_jj(x, ids).heads(),
        E::Roots(x) => to_jj(x, ids).roots(),
        E::ForkPoint(x) => to_jj(x, ids).fork_point(),
        E::MergePoint(x) => to_jj(x, ids).merge_point(),
        E::Connected(x) => to_jj(x, ids).connected(),
        E::Latest(x, k) => to_jj(x, ids).latest(*k),
        E::Not(x) => to_jj(x, ids).negated(),
        E::Within(x, h) => Arc::new(RevsetExpression::WithinVisibility {
            candidates: to_jj(x, ids),
            visible_heads: h.iter().map(|&i| ids[i].clone()).collect(),
        }),
        E::Bisect(x) => to_jj(x, ids).bisect(),
        E::Range(a, b) => to_jj(a, ids).range(&to_jj(b, ids)),
        E::DagRange(a, b) => to_jj(a, ids).dag_range_to(&to_jj(b, ids)),
        E::Reachable(a, b) => to_jj(a, ids).reachable(&to_jj(b, ids)),
        E::Coalesce(a, b) => Rx::coalesce(&[to_jj(a, ids), to_jj(b, ids)]),
        E::Union(a, b) => to_jj(a, ids).union(&to_jj(b, ids)),
        E::Inter(a, b) => to_jj(a, ids).intersection(&to_jj(b, ids)),
        E::Diff(a, b) => to_jj(a, ids).minus(&to_jj(b, ids)),
    }
}

// ---------------------------------------------------------------------------------------
// Reference semantics, first formulation: set algebra on bit masks
// ---------------------------------------------------------------------------------------
//
// Scopes (docs/revsets.md "Hidden revisions", `all()`, `at_operation()`): within one
// visibility scope, `all()` is the set of ancestors of the scope's visible heads and of every
// commit explicitly mentioned anywhere in that scope (including the visible heads and the
// mentioned commits of nested scopes). `x::`, `x+`, `~x`, `forks()`, `merge_point()` and
// filters are relative to that `all()`.

#[derive(Clone, Copy)]
struct Scope {
    /// the view's head ids (may be redundant / un-normalised)
    v: u32,
    all: u32,
}

/// commits explicitly mentioned in `e` (including nested scopes and their visible heads)
fn refs(e: &E) -> u32 {
    match e {
        E::Commits(s) => s.iter().fold(0, |a, &i| a | bit(i)),
        E::Within(x, h) => h.iter().fold(refs(x), |a, &i| a | bit(i)),
        _ => e.children().iter().fold(0, |a, c| a | refs(c)),
    }
}

fn top_scope(g: &G, view_heads: u32, e: &E) -> Scope {
    Scope { v: view_heads, all: g.anc_of(view_heads | refs(e)) }
}

fn eval1(g: &G, e: &E, sc: Scope) -> u32 {
    let r = eval1_inner(g, e, sc);
    if r & !sc.all != 0 {
        machinery_failure(&format!(
            "reference: result of {} leaves all() of its scope",
            e.show()
        ));
    }
    r
}

fn eval1_inner(g: &G, e: &E, sc: Scope) -> u32 {
    let gens = |start: u32, a: u64, b: Option<u64>, step: &dyn Fn(u32) -> u32| -> u32 {
        let mut cur = start;
        let mut out = 0;
        for d in 0..=(g.n as u64 + 1) {
            if d >= a && b.is_none_or(|b| d < b) {
                out |= cur;
            }
            cur = step(cur);
        }
        out
    };
    match e {
        E::None => 0,
        E::All => sc.all,
        E::Root => bit(0),
        E::VisibleHeads => g.heads_of(sc.v),
        E::Merges => nodes_of(sc.all)
            .into_iter()
            .filter(|&c| g.parents[c].len() >= 2)
            .fold(0, |a, c| a | bit(c)),
        E::Forks => nodes_of(sc.all)
            .into_iter()
            .filter(|&c| {
                nodes_of(sc.all).into_iter().filter(|&d| g.pmask[d] & bit(c) != 0).count() >= 2
            })
            .fold(0, |a, c| a | bit(c)),
        E::Commits(s) => s.iter().fold(0, |a, &i| a | bit(i)),
        E::Anc { x, a, b, first } => {
            let x = eval1(g, x, sc);
            let step = |cur: u32| -> u32 {
                nodes_of(cur).into_iter().fold(0, |acc, c| {
                    if *first {
                        acc | g.parents[c].first().map_or(0, |&p| bit(p))
                    } else {
                        acc | g.pmask[c]
                    }
                })
            };
            gens(x, *a, *b, &step)
        }
        E::Desc { x, a, b } => {
            let x = eval1(g, x, sc);
            let step = |cur: u32| -> u32 {
                nodes_of(sc.all)
                    .into_iter()
                    .filter(|&c| g.pmask[c] & cur != 0)
                    .fold(0, |acc, c| acc | bit(c))
            };
            gens(x & sc.all, *a, *b, &step)
        }
        E::Heads(x) => g.heads_of(eval1(g, x, sc)),
        E::Roots(x) => g.roots_of(eval1(g, x, sc)),
        E::ForkPoint(x) => {
            let x = eval1(g, x, sc);
            if x == 0 {
                0
            } else {
                g.heads_of(nodes_of(x).into_iter().fold(u32::MAX, |a, c| a & g.anc[c]))
            }
        }
        E::MergePoint(x) => {
            let x = eval1(g, x, sc);
            if x == 0 {
                0
            } else {
                g.roots_of(nodes_of(x).into_iter().fold(sc.all, |a, c| a & g.desc[c]))
            }
        }
        E::Connected(x) => {
            let x = eval1(g, x, sc);
            dag_range1(g, x, x)
        }
        E::Latest(x, k) => {
            let mut v = nodes_of(eval1(g, x, sc));
            v.sort_by_key(|&c| std::cmp::Reverse(g.ts[c]));
            v.into_iter().take(*k).fold(0, |a, c| a | bit(c))
        }
        E::Not(x) => sc.all & !eval1(g, x, sc),
        E::Within(x, h) => {
            let v = h.iter().fold(0, |a, &i| a | bit(i));
            let inner = Scope { v, all: g.anc_of(v | refs(x)) };
            eval1(g, x, inner)
        }
        E::Bisect(_) => machinery_failure("bisect has no deterministic reference"),
        E::Range(a, b) => g.anc_of(eval1(g, b, sc)) & !g.anc_of(eval1(g, a, sc)),
        E::DagRange(a, b) => dag_range1(g, eval1(g, a, sc), eval1(g, b, sc)),
        E::Reachable(s, d) => {
            let dom = eval1(g, d, sc);
            let mut cur = eval1(g, s, sc) & dom;
            loop {
                let mut next = cur;
                for c in nodes_of(dom) {
                    for m in nodes_of(cur) {
                        if g.pmask[c] & bit(m) != 0 || g.pmask[m] & bit(c) != 0 {
                            next |= bit(c);
                        }
                    }
                }
                if next == cur {
                    break cur;
                }
                cur = next;
            }
        }
        E::Coalesce(a, b) => {
            let a = eval1(g, a, sc);
            if a != 0 { a } else { eval1(g, b, sc) }
        }
        E::Union(a, b) => eval1(g, a, sc) | eval1(g, b, sc),
        E::Inter(a, b) => eval1(g, a, sc) & eval1(g, b, sc),
        E::Diff(a, b) => eval1(g, a, sc) & !eval1(g, b, sc),
    }
}

fn dag_range1(g: &G, roots: u32, heads: u32) -> u32 {
    let down = g.anc_of(heads);
    let up = nodes_of(roots).into_iter().fold(0, |a, c| a | g.desc[c]);
    down & up
}

// ---------------------------------------------------------------------------------------
// Reference semantics, second formulation: explicit path search on BTreeSets, composite
// operators through the "equivalent to" formulas of docs/revsets.md
// ---------------------------------------------------------------------------------------

type Set = BTreeSet<usize>;

struct Scope2 {
    v: Set,
    all: Set,
}

/// every (node, distance) reachable from `from` by following parent edges (all paths)
fn walk_up(g: &G, from: usize, first_only: bool, depth: u64, out: &mut Vec<(usize, u64)>) {
    out.push((from, depth));
    let ps = &g.parents[from];
    let ps: &[usize] = if first_only { &ps[..ps.len().min(1)] } else { ps };
    for &p in ps {
        walk_up(g, p, first_only, depth + 1, out);
    }
}

fn in_gen(d: u64, a: u64, b: Option<u64>) -> bool {
    d >= a && b.is_none_or(|b| d < b)
}

fn ancestors2(g: &G, x: &Set, a: u64, b: Option<u64>, first: bool) -> Set {
    let mut out = Set::new();
    for &c in x {
        let mut reached = vec![];
        walk_up(g, c, first, 0, &mut reached);
        out.extend(reached.into_iter().filter(|&(_, d)| in_gen(d, a, b)).map(|(n, _)| n));
    }
    out
}

fn descendants2(g: &G, x: &Set, a: u64, b: Option<u64>, all: &Set) -> Set {
    let mut out = Set::new();
    for &c in all {
        let mut reached = vec![];
        walk_up(g, c, false, 0, &mut reached);
        if reached.iter().any(|&(n, d)| x.contains(&n) && in_gen(d, a, b)) {
            out.insert(c);
        }
    }
    out
}

fn all_of(g: &G, starts: &Set) -> Set {
    ancestors2(g, starts, 0, Option::None, false)
}

fn mask_to_set(m: u32) -> Set {
    nodes_of(m).into_iter().collect()
}

fn set_to_mask(s: &Set) -> u32 {
    s.iter().fold(0, |a, &i| a | bit(i))
}

fn eval2(g: &G, e: &E, sc: &Scope2) -> Set {
    let diff = |a: &Set, b: &Set| -> Set { a.difference(b).copied().collect() };
    let inter = |a: &Set, b: &Set| -> Set { a.intersection(b).copied().collect() };
    // heads(x) = x ~ ::x-
    let heads = |x: &Set| -> Set {
        let parents = ancestors2(g, x, 1, Some(2), false);
        diff(x, &ancestors2(g, &parents, 0, Option::None, false))
    };
    // roots(x) = x ~ x+::
    let roots = |x: &Set| -> Set {
        let everything: Set = (0..=g.n).collect();
        let children = descendants2(g, x, 1, Some(2), &everything);
        diff(x, &descendants2(g, &children, 0, Option::None, &everything))
    };
    match e {
        E::None => Set::new(),
        E::All => sc.all.clone(),
        E::Root => [0].into_iter().collect(),
        E::VisibleHeads => heads(&sc.v),
        E::Merges => sc.all.iter().copied().filter(|&c| g.parents[c].len() > 1).collect(),
        E::Forks => sc
            .all
            .iter()
            .copied()
            .filter(|&c| sc.all.iter().filter(|&&d| g.parents[d].contains(&c)).count() > 1)
            .collect(),
        E::Commits(s) => s.iter().copied().collect(),
        E::Anc { x, a, b, first } => ancestors2(g, &eval2(g, x, sc), *a, *b, *first),
        E::Desc { x, a, b } => descendants2(g, &eval2(g, x, sc), *a, *b, &sc.all),
        E::Heads(x) => heads(&eval2(g, x, sc)),
        E::Roots(x) => roots(&eval2(g, x, sc)),
        E::ForkPoint(x) => {
            // heads(::x_1 & ... & ::x_N)
            let x = eval2(g, x, sc);
            let mut it = x.iter();
            match it.next() {
                Option::None => Set::new(),
                Some(&first) => {
                    let mut common = all_of(g, &[first].into_iter().collect());
                    for &c in it {
                        common = inter(&common, &all_of(g, &[c].into_iter().collect()));
                    }
                    heads(&common)
                }
            }
        }
        E::MergePoint(x) => {
            // roots(x_1:: & ... & x_N::)
            let x = eval2(g, x, sc);
            if x.is_empty() {
                return Set::new();
            }
            let mut common = sc.all.clone();
            for &c in &x {
                let d = descendants2(g, &[c].into_iter().collect(), 0, Option::None, &sc.all);
                common = inter(&common, &d);
            }
            roots(&common)
        }
        E::Connected(x) => {
            // x::x = x:: & ::x
            let x = eval2(g, x, sc);
            inter(&descendants2(g, &x, 0, Option::None, &sc.all), &all_of(g, &x))
        }
        E::Latest(x, k) => {
            let mut v: Vec<usize> = eval2(g, x, sc).into_iter().collect();
            let mut out = Set::new();
            while out.len() < *k && !v.is_empty() {
                let best = (0..v.len()).max_by_key(|&i| g.ts[v[i]]).unwrap();
                out.insert(v.remove(best));
            }
            out
        }
        E::Not(x) => diff(&sc.all, &eval2(g, x, sc)),
        E::Within(x, h) => {
            let v: Set = h.iter().copied().collect();
            let mut starts = v.clone();
            starts.extend(mask_to_set(refs(x)));
            let inner = Scope2 { v, all: all_of(g, &starts) };
            eval2(g, x, &inner)
        }
        E::Bisect(_) => machinery_failure("bisect has no deterministic reference"),
        // x..y = ::y ~ ::x
        E::Range(a, b) => diff(&all_of(g, &eval2(g, b, sc)), &all_of(g, &eval2(g, a, sc))),
        // x::y = x:: & ::y
        E::DagRange(a, b) => inter(
            &descendants2(g, &eval2(g, a, sc), 0, Option::None, &sc.all),
            &all_of(g, &eval2(g, b, sc)),
        ),
        E::Reachable(s, d) => {
            // union of the connected components (undirected, induced on the domain) that
            // contain a source: found by enumerating simple paths inside the domain
            let dom = eval2(g, d, sc);
            let src = inter(&eval2(g, s, sc), &dom);
            fn dfs(g: &G, dom: &Set, at: usize, seen: &mut Set) {
                if !seen.insert(at) {
                    return;
                }
                for &c in dom {
                    if g.parents[at].contains(&c) || g.parents[c].contains(&at) {
                        dfs(g, dom, c, seen);
                    }
                }
            }
            let mut seen = Set::new();
            for &s in &src {
                dfs(g, &dom, s, &mut seen);
            }
            seen
        }
        E::Coalesce(a, b) => {
            let a = eval2(g, a, sc);
            if a.is_empty() { eval2(g, b, sc) } else { a }
        }
        E::Union(a, b) => eval2(g, a, sc).union(&eval2(g, b, sc)).copied().collect(),
        E::Inter(a, b) => inter(&eval2(g, a, sc), &eval2(g, b, sc)),
        E::Diff(a, b) => diff(&eval2(g, a, sc), &eval2(g, b, sc)),
    }
}

fn eval2_top(g: &G, e: &E, view_heads: u32) -> u32 {
    let v = mask_to_set(view_heads);
    let mut starts = v.clone();
    starts.extend(mask_to_set(refs(e)));
    let sc = Scope2 { v, all: all_of(g, &starts) };
    set_to_mask(&eval2(g, e, &sc))
}

// ---------------------------------------------------------------------------------------
// Expression families (decoded lazily from an index)
// ---------------------------------------------------------------------------------------

#[derive(Clone, Copy, Debug)]
enum UOp {
    Anc(u64, Option<u64>, bool),
    Desc(u64, Option<u64>),
    Heads,
    Roots,
    ForkPoint,
    MergePoint,
    Connected,
    Latest(usize),
    Not,
    WithinNode(usize),
    WithinDagHeads,
    WithinRootOnly,
}

#[derive(Clone, Copy, Debug)]
enum BOp {
    Range,
    DagRange,
    Reachable,
    Coalesce,
    Union,
    Inter,
    Diff,
}

const BOPS: [BOp; 7] =
    [BOp::Range, BOp::DagRange, BOp::Reachable, BOp::Coalesce, BOp::Union, BOp::Inter, BOp::Diff];

const OUTER_B: [BOp; 3] = [BOp::Union, BOp::Inter, BOp::Diff];
const INNER_B: [BOp; 4] = [BOp::Range, BOp::DagRange, BOp::Inter, BOp::Diff];

const GENS: [(u64, Option<u64>); 8] = [
    (0, Option::None),
    (0, Some(1)),
    (0, Some(2)),
    (0, Some(3)),
    (1, Some(2)),
    (1, Some(3)),
    (2, Some(3)),
    (1, Option::None),
];

fn unary_ops(n: usize) -> Vec<UOp> {
    let mut v = vec![];
    for (a, b) in GENS {
        v.push(UOp::Anc(a, b, false));
    }
    for (a, b) in GENS {
        v.push(UOp::Anc(a, b, true));
    }
    for (a, b) in GENS {
        v.push(UOp::Desc(a, b));
    }
    v.extend([
        UOp::Heads,
        UOp::Roots,
        UOp::ForkPoint,
        UOp::MergePoint,
        UOp::Connected,
        UOp::Latest(1),
        UOp::Latest(2),
        UOp::Not,
    ]);
    for i in 1..=n {
        v.push(UOp::WithinNode(i));
    }
    v.push(UOp::WithinDagHeads);
    v.push(UOp::WithinRootOnly);
    v
}

/// outer operators of the targeted depth-3 families (those the optimizer special-cases)
fn outer_ops() -> Vec<UOp> {
    vec![
        UOp::Heads,
        UOp::Roots,
        UOp::Anc(0, Option::None, false),
        UOp::Anc(1, Some(2), false),
        UOp::Desc(1, Some(2)),
        UOp::Not,
        UOp::Latest(1),
    ]
}

/// reduced unary set for the b(r(l), r(l)) family
fn reduced_ops() -> Vec<UOp> {
    vec![
        UOp::Anc(0, Option::None, false),
        UOp::Anc(1, Some(2), false),
        UOp::Anc(0, Option::None, true),
        UOp::Anc(1, Some(2), true),
        UOp::Desc(0, Option::None),
        UOp::Desc(1, Some(2)),
        UOp::Heads,
        UOp::Not,
        UOp::WithinDagHeads,
    ]
}

fn leaves(n: usize) -> Vec<E> {
    let mut v = vec![E::None, E::All, E::Root, E::VisibleHeads, E::Merges, E::Forks];
    for i in 1..=n {
        v.push(E::Commits(vec![i]));
    }
    for i in 1..=n {
        for j in i + 1..=n {
            v.push(E::Commits(vec![i, j]));
        }
    }
    v
}

fn apply_u(op: UOp, x: E, g: &G) -> E {
    let x = Box::new(x);
    match op {
        UOp::Anc(a, b, first) => E::Anc { x, a, b, first },
        UOp::Desc(a, b) => E::Desc { x, a, b },
        UOp::Heads => E::Heads(x),
        UOp::Roots => E::Roots(x),
        UOp::ForkPoint => E::ForkPoint(x),
        UOp::MergePoint => E::MergePoint(x),
        UOp::Connected => E::Connected(x),
        UOp::Latest(k) => E::Latest(x, k),
        UOp::Not => E::Not(x),
        UOp::WithinNode(i) => E::Within(x, vec![i]),
        UOp::WithinDagHeads => {
            let h = nodes_of(g.dag_heads());
            E::Within(x, if h.is_empty() { vec![0] } else { h })
        }
        UOp::WithinRootOnly => E::Within(x, vec![0]),
    }
}

fn apply_b(op: BOp, a: E, b: E) -> E {
    let (a, b) = (Box::new(a), Box::new(b));
    match op {
        BOp::Range => E::Range(a, b),
        BOp::DagRange => E::DagRange(a, b),
        BOp::Reachable => E::Reachable(a, b),
        BOp::Coalesce => E::Coalesce(a, b),
        BOp::Union => E::Union(a, b),
        BOp::Inter => E::Inter(a, b),
        BOp::Diff => E::Diff(a, b),
    }
}

#[derive(Clone, Copy, Debug, PartialEq, Eq, PartialOrd, Ord)]
enum Fam {
    /// l
    L,
    /// u(l)
    UL,
    /// b(l, l)
    BLL,
    /// u(u(l))
    UUL,
    /// u(b(l, l))
    UBLL,
    /// b(u(l), l)
    BULL,
    /// b(l, u(l))
    BLUL,
    /// u(u(u(l)))
    UUUL,
    /// t(b(u(l), l))
    TBULL,
    /// t(b(l, u(l)))
    TBLUL,
    /// b(b(l, l), l)
    BBLLL,
    /// b(l, b(l, l))
    BLBLL,
    /// b(r(l), r(l)) with r from the reduced unary set
    BRLRL,
    /// t(b'(b''(l, l), l)) with b' in {union, intersection, difference} and b'' in {range,
    /// dag range, intersection, difference}: the `heads(x..y & filter)` shapes
    TBBLLL,
    /// bisect(l), bisect(u(l)), bisect(b(l, l))
    BisL,
    BisUL,
    BisBLL,
}

struct Space {
    us: Vec<UOp>,
    ts: Vec<UOp>,
    rs: Vec<UOp>,
    ls: Vec<E>,
}

impl Space {
    fn new(n: usize) -> Space {
        Space { us: unary_ops(n), ts: outer_ops(), rs: reduced_ops(), ls: leaves(n) }
    }

    fn dims(&self, f: Fam) -> Vec<usize> {
        let (nu, nt, nb, nl) = (self.us.len(), self.ts.len(), BOPS.len(), self.ls.len());
        match f {
            Fam::L | Fam::BisL => vec![nl],
            Fam::UL | Fam::BisUL => vec![nu, nl],
            Fam::BLL | Fam::BisBLL => vec![nb, nl, nl],
            Fam::UUL => vec![nu, nu, nl],
            Fam::UBLL => vec![nu, nb, nl, nl],
            Fam::BULL => vec![nb, nu, nl, nl],
            Fam::BLUL => vec![nb, nl, nu, nl],
            Fam::UUUL => vec![nu, nu, nu, nl],
            Fam::TBULL => vec![nt, nb, nu, nl, nl],
            Fam::TBLUL => vec![nt, nb, nl, nu, nl],
            Fam::BBLLL => vec![nb, nb, nl, nl, nl],
            Fam::BLBLL => vec![nb, nl, nb, nl, nl],
            Fam::BRLRL => vec![nb, self.rs.len(), nl, self.rs.len(), nl],
            Fam::TBBLLL => vec![nt, OUTER_B.len(), INNER_B.len(), nl, nl, nl],
        }
    }

    fn len(&self, f: Fam) -> u64 {
        product(&self.dims(f))
    }

    fn get(&self, f: Fam, idx: u64, g: &G) -> E {
        let d = decode(idx, &self.dims(f));
        let l = |i: usize| self.ls[d[i]].clone();
        let u = |i: usize, x: E| apply_u(self.us[d[i]], x, g);
        let b = |i: usize, x: E, y: E| apply_b(BOPS[d[i]], x, y);
        match f {
            Fam::L => l(0),
            Fam::UL => u(0, l(1)),
            Fam::BLL => b(0, l(1), l(2)),
            Fam::UUL => u(0, u(1, l(2))),
            Fam::UBLL => u(0, b(1, l(2), l(3))),
            Fam::BULL => b(0, u(1, l(2)), l(3)),
            Fam::BLUL => b(0, l(1), u(2, l(3))),
            Fam::UUUL => u(0, u(1, u(2, l(3)))),
            Fam::TBULL => apply_u(self.ts[d[0]], b(1, u(2, l(3)), l(4)), g),
            Fam::TBLUL => apply_u(self.ts[d[0]], b(1, l(2), u(3, l(4))), g),
            Fam::BBLLL => b(0, b(1, l(2), l(3)), l(4)),
            Fam::BLBLL => b(0, l(1), b(2, l(3), l(4))),
            Fam::BRLRL => b(0, apply_u(self.rs[d[1]], l(2), g), apply_u(self.rs[d[3]], l(4), g)),
            Fam::TBBLLL => apply_u(
                self.ts[d[0]],
                apply_b(OUTER_B[d[1]], apply_b(INNER_B[d[2]], l(3), l(4)), l(5)),
                g,
            ),
            Fam::BisL => E::Bisect(Box::new(l(0))),
            Fam::BisUL => E::Bisect(Box::new(u(0, l(1)))),
            Fam::BisBLL => E::Bisect(Box::new(b(0, l(1), l(2)))),
        }
    }
}

// ---------------------------------------------------------------------------------------
// Running the real code
// ---------------------------------------------------------------------------------------

/// Evaluates and lists `stream()`. With `other_views`, also observes the same evaluation
/// through `stream_graph()`, `is_empty()` and `containing_fn()` and describes the first
/// disagreement with the `stream()` listing.
fn run_jj(
    repo: &dyn Repo,
    expr: &Arc<Rx>,
    optimized: bool,
    other_views: Option<&Ids>,
) -> Result<(Vec<CommitId>, Option<String>), String> {
    let revset = if optimized {
        expr.clone().evaluate(repo)
    } else {
        expr.evaluate_unoptimized(repo)
    }
    .map_err(|e| format!("evaluation error: {e}"))?;
    let items: Vec<_> = revset.stream().collect::<Vec<_>>().block_on();
    let list: Vec<CommitId> = items
        .into_iter()
        .map(|r| r.map_err(|e| format!("stream error: {e}")))
        .collect::<Result<_, _>>()?;
    let mut inconsistency = Option::None;
    if let Some(ids) = other_views {
        let nodes: Vec<_> = revset.stream_graph().collect::<Vec<_>>().block_on();
        let nodes: Vec<CommitId> = nodes
            .into_iter()
            .map(|r| r.map(|(id, _edges)| id).map_err(|e| format!("stream_graph error: {e}")))
            .collect::<Result<_, _>>()?;
        if nodes != list {
            let show = |v: &[CommitId]| -> Vec<Option<usize>> { v.iter().map(|id| ids.map.get(id).copied()).collect() };
            inconsistency = Some(format!("stream_graph() lists {:?} but stream() lists {:?}", show(&nodes), show(&list)));
        }
        let empty = revset.is_empty().map_err(|e| format!("is_empty error: {e}"))?;
        if empty != list.is_empty() && inconsistency.is_none() {
            inconsistency = Some(format!("is_empty() = {empty} but stream() lists {} commits", list.len()));
        }
        let contains = revset.containing_fn();
        for (i, id) in ids.ids.iter().enumerate() {
            let c = contains(id).block_on().map_err(|e| format!("containing_fn error: {e}"))?;
            if c != list.contains(id) && inconsistency.is_none() {
                inconsistency = Some(format!("containing_fn(n{i}) = {c} but stream() says {}", list.contains(id)));
            }
        }
    }
    Ok((list, inconsistency))
}

fn wants_other_views(e: &E) -> bool {
    e.children().iter().all(|c| c.children().is_empty()) && !matches!(e, E::Bisect(_))
}

struct Ids {
    ids: Vec<CommitId>,
    map: HashMap<CommitId, usize>,
}

struct Fail {
    sig: String,
    msg: String,
}

struct CaseOk {
    expected: u32,
    all: u32,
}

fn descending(m: u32) -> Vec<usize> {
    let mut v = nodes_of(m);
    v.reverse();
    v
}

/// The oracle for one (repo, expression) case.
fn check_case(
    repo: &dyn Repo,
    g: &G,
    view_heads: u32,
    ids: &Ids,
    e: &E,
    double_check: bool,
    other_views: bool,
    st: &Stats,
) -> Result<CaseOk, Fail> {
    let t0 = std::time::Instant::now();
    let jj_expr = to_jj(e, &ids.ids);
    let mut got: Vec<Vec<usize>> = vec![];
    for optimized in [false, true] {
        let which = if optimized { "optimized" } else { "unoptimized" };
        let r = catch(|| run_jj(repo, &jj_expr, optimized, other_views.then_some(ids))).map_err(|p| Fail {
            sig: format!("C19/panic/{}", e.shape()),
            msg: format!("{} evaluation of {} panicked: {p}", which, e.show()),
        })?;
        let (list, inconsistency) = r.map_err(|m| Fail {
            sig: format!("C19/error/{}", e.shape()),
            msg: format!("{} evaluation of {} failed: {m}", which, e.show()),
        })?;
        if let Some(m) = inconsistency {
            return Err(Fail {
                sig: format!("C19/other-views-disagree/{}", e.shape()),
                msg: format!("{} evaluation of {}: {m}", which, e.show()),
            });
        }
        let mut nodes = vec![];
        for id in &list {
            match ids.map.get(id) {
                Some(&i) => nodes.push(i),
                Option::None => {
                    return Err(Fail {
                        sig: format!("C19/unknown-commit/{}", e.shape()),
                        msg: format!("{} evaluation of {} yields unknown commit {id}", which, e.show()),
                    });
                }
            }
        }
        got.push(nodes);
    }
    let (unopt, opt) = (&got[0], &got[1]);
    st.ns_jj.add(t0.elapsed().as_nanos() as u64);
    if let E::Bisect(x) = e {
        return check_bisect(g, view_heads, e, x, unopt, opt);
    }
    let t1 = std::time::Instant::now();
    let sc = top_scope(g, view_heads, e);
    let expected = eval1(g, e, sc);
    let exp_list = descending(expected);
    st.ns_ref1.add(t1.elapsed().as_nanos() as u64);
    let second = |fail: Fail| -> Fail {
        // re-derive the expected answer with the second formulation before reporting
        let again = eval2_top(g, e, view_heads);
        if again != expected {
            machinery_failure(&format!(
                "oracle inconsistency on {} over {:?} heads {:?}: formulation 1 {:?}, formulation 2 {:?}",
                e.show(),
                g.spec(),
                nodes_of(view_heads),
                nodes_of(expected),
                nodes_of(again)
            ));
        }
        fail
    };
    if double_check {
        let t2 = std::time::Instant::now();
        let again = eval2_top(g, e, view_heads);
        st.double_checked.inc();
        st.ns_ref2.add(t2.elapsed().as_nanos() as u64);
        if again != expected {
            machinery_failure(&format!(
                "oracle inconsistency on {} over {:?} heads {:?}: formulation 1 {:?}, formulation 2 {:?}",
                e.show(),
                g.spec(),
                nodes_of(view_heads),
                nodes_of(expected),
                nodes_of(again)
            ));
        }
    }
    for (which, list) in [("unoptimized", unopt), ("optimized", opt)] {
        let as_set: BTreeSet<usize> = list.iter().copied().collect();
        if as_set.len() != list.len() {
            return Err(second(Fail {
                sig: format!("C19/duplicates/{}", e.shape()),
                msg: format!("{} evaluation of {} lists a commit twice: {list:?}", which, e.show()),
            }));
        }
        let exp_set: BTreeSet<usize> = exp_list.iter().copied().collect();
        if as_set != exp_set {
            let clause = if which == "optimized" && *unopt == exp_list {
                "optimizer-changes-set"
            } else {
                "set-mismatch"
            };
            return Err(second(Fail {
                sig: format!("C19/{clause}/{}", e.shape()),
                msg: format!(
                    "{} evaluation of {} = {:?}, set semantics say {:?} (all() of the scope = {:?})",
                    which,
                    e.show(),
                    list,
                    exp_list,
                    descending(sc.all)
                ),
            }));
        }
        if *list != exp_list {
            return Err(second(Fail {
                sig: format!("C19/order/{}", e.shape()),
                msg: format!(
                    "{} evaluation of {} = {:?} is not in descending index order {:?}",
                    which,
                    e.show(),
                    list,
                    exp_list
                ),
            }));
        }
    }
    Ok(CaseOk { expected, all: sc.all })
}

/// `bisect(x)` has no exact set-theoretic definition ("about half of the input set are
/// descendants; deals somewhat poorly with non-linear history"). Demanded: empty input ->
/// empty; otherwise exactly one commit of the input; if the input is a chain, the number d of
/// its proper descendants inside the input satisfies floor((k-1)/2) <= d <= ceil(k/2); and
/// optimised == unoptimised.
fn check_bisect(
    g: &G,
    view_heads: u32,
    e: &E,
    x: &E,
    unopt: &[usize],
    opt: &[usize],
) -> Result<CaseOk, Fail> {
    // the scope is that of the whole expression (bisect adds no mentions)
    let sc = top_scope(g, view_heads, e);
    let input = eval1(g, x, sc);
    if unopt != opt {
        return Err(Fail {
            sig: format!("C19/bisect/optimizer-changes-set/{}", x.shape()),
            msg: format!("{}: unoptimized {unopt:?} != optimized {opt:?}", e.show()),
        });
    }
    let bad = |why: &str| Fail {
        sig: format!("C19/bisect/{why}/{}", x.shape()),
        msg: format!("{} = {unopt:?} for input set {:?}: {why}", e.show(), descending(input)),
    };
    if input == 0 {
        return if unopt.is_empty() { Ok(CaseOk { expected: 0, all: sc.all }) } else { Err(bad("nonempty-for-empty-input")) };
    }
    if unopt.len() != 1 {
        return Err(bad("not-a-single-commit"));
    }
    let c = unopt[0];
    if input & bit(c) == 0 {
        return Err(bad("not-in-input"));
    }
    let members = nodes_of(input);
    let chain = members
        .iter()
        .all(|&a| members.iter().all(|&b| g.anc[a] & bit(b) != 0 || g.anc[b] & bit(a) != 0));
    if chain {
        let k = members.len() as u32;
        let d = (g.desc[c] & input).count_ones() - 1;
        if d < (k - 1) / 2 || d > k.div_ceil(2) {
            return Err(bad("not-near-the-middle-of-a-chain"));
        }
    }
    Ok(CaseOk { expected: bit(c), all: sc.all })
}

// ---------------------------------------------------------------------------------------
// Building repositories
// ---------------------------------------------------------------------------------------

fn signature(ts: i64) -> Signature {
    Signature {
        name: "c19".to_string(),
        email: "c19@example.com".to_string(),
        timestamp: Timestamp { timestamp: MillisSinceEpoch(ts), tz_offset: 0 },
    }
}

fn write_node(mut_repo: &mut jj_lib::repo::MutableRepo, g: &G, i: usize, ids: &[CommitId]) -> CommitId {
    let tree = mut_repo.store().empty_merged_tree();
    let parents: Vec<CommitId> = g.parents[i].iter().map(|&p| ids[p].clone()).collect();
    let sig = signature(g.ts[i]);
    let commit = mut_repo
        .new_commit(parents, tree)
        .set_description(format!("n{i}"))
        .set_author(sig.clone())
        .set_committer(sig)
        .write()
        .block_on()
        .unwrap_or_else(|e| machinery_failure(&format!("cannot write commit: {e}")));
    commit.id().clone()
}

fn set_heads(mut_repo: &mut jj_lib::repo::MutableRepo, heads: u32, ids: &[CommitId]) {
    let mut view = mut_repo.view().store_view().clone();
    view.head_ids = nodes_of(heads).into_iter().map(|i| ids[i].clone()).collect();
    mut_repo.set_view(view);
}

/// view heads for an antichain `h` (the empty antichain is the view {root})
fn normal_heads(h: u32) -> u32 {
    if h == 0 { bit(0) } else { h }
}

/// every visible non-root commit listed as a head (un-normalised, redundant)
fn redundant_heads(g: &G, h: u32) -> u32 {
    let vis = g.anc_of(h) & !bit(0);
    if vis == 0 { bit(0) } else { vis }
}

struct Stats {
    ns_jj: Counter,
    ns_ref1: Counter,
    ns_ref2: Counter,
    cases: Counter,
    nontrivial: Counter,
    jj_evals: Counter,
    other_views_cases: Counter,
    mutable_cases: Counter,
    readonly_cases: Counter,
    by_kind_cases: Vec<Counter>,
    by_kind_nonempty: Vec<Counter>,
    hidden_in_result: Counter,
    configs: Counter,
    configs_with_hidden: Counter,
    graphs: Counter,
    graphs_with_merge: Counter,
    graphs_with_octopus: Counter,
    stacked_index_loads: Counter,
    double_checked: Counter,
    first_parent_differs: Counter,
    latest_order_matters: Counter,
    within_changes_result: Counter,
    optimizer_rewrote: Counter,
    optimizer_probed: Counter,
    bisect_chain_cases: Counter,
}

impl Stats {
    fn new() -> Stats {
        Stats {
            ns_jj: Counter::new(),
            ns_ref1: Counter::new(),
            ns_ref2: Counter::new(),
            cases: Counter::new(),
            nontrivial: Counter::new(),
            jj_evals: Counter::new(),
            other_views_cases: Counter::new(),
            mutable_cases: Counter::new(),
            readonly_cases: Counter::new(),
            by_kind_cases: (0..NKINDS).map(|_| Counter::new()).collect(),
            by_kind_nonempty: (0..NKINDS).map(|_| Counter::new()).collect(),
            hidden_in_result: Counter::new(),
            configs: Counter::new(),
            configs_with_hidden: Counter::new(),
            graphs: Counter::new(),
            graphs_with_merge: Counter::new(),
            graphs_with_octopus: Counter::new(),
            stacked_index_loads: Counter::new(),
            double_checked: Counter::new(),
            first_parent_differs: Counter::new(),
            latest_order_matters: Counter::new(),
            within_changes_result: Counter::new(),
            optimizer_rewrote: Counter::new(),
            optimizer_probed: Counter::new(),
            bisect_chain_cases: Counter::new(),
        }
    }
}

struct Run<'a> {
    ctx: &'a Ctx,
    stats: &'a Stats,
    samples: &'a Samples,
    /// one sample per top-level operator
    sampled: Vec<std::sync::atomic::AtomicBool>,
}

fn case_json(g: &G, kind: &str, view_heads: u32, e: &E) -> Value {
    json!({
        "graph": g.spec(),
        "repo": kind,
        "view_heads": nodes_of(view_heads),
        "expr": e,
        "expr_text": e.show(),
    })
}

impl Run<'_> {
    /// one case: run the oracle, record counters / violation
    fn one(&self, repo: &dyn Repo, kind: &str, g: &G, view_heads: u32, ids: &Ids, e: &E, double_check: bool) {
        // depth <= 1 (non-bisect) cases are also observed through the other views of a Revset
        let other_views = wants_other_views(e);
        if other_views {
            self.stats.other_views_cases.inc();
        }
        let st = self.stats;
        st.cases.inc();
        st.jj_evals.add(2);
        if kind == "mutable" { st.mutable_cases.inc() } else { st.readonly_cases.inc() }
        match check_case(repo, g, view_heads, ids, e, double_check, other_views, st) {
            Ok(ok) => {
                let k = e.kind();
                st.by_kind_cases[k].inc();
                if ok.expected != 0 {
                    st.by_kind_nonempty[k].inc();
                }
                let visible = g.anc_of(view_heads);
                if ok.expected & !visible != 0 {
                    st.hidden_in_result.inc();
                }
                if ok.expected != 0 && ok.expected != ok.all {
                    st.nontrivial.inc();
                    if ok.expected.count_ones() >= 2
                        && e.children().len() >= 1
                        && !self.sampled[k].load(std::sync::atomic::Ordering::Relaxed)
                        && !self.sampled[k].swap(true, std::sync::atomic::Ordering::Relaxed)
                    {
                        self.samples.offer(|| {
                            let mut c = case_json(g, kind, view_heads, e);
                            c["expected"] = json!(descending(ok.expected));
                            c
                        });
                    }
                }
                // vacuity probes (cheap, reference only)
                match e {
                    E::Anc { x, a, b, first: true } => {
                        let full = E::Anc { x: x.clone(), a: *a, b: *b, first: false };
                        if eval1(g, &full, top_scope(g, view_heads, &full)) != ok.expected {
                            st.first_parent_differs.inc();
                        }
                    }
                    E::Latest(x, k) => {
                        // does the timestamp order (rather than the index order) decide?
                        let by_index: u32 = descending(eval1(g, x, top_scope(g, view_heads, e)))
                            .into_iter()
                            .take(*k)
                            .fold(0, |a, c| a | bit(c));
                        if by_index != ok.expected {
                            st.latest_order_matters.inc();
                        }
                    }
                    E::Within(x, _) => {
                        if eval1(g, x, top_scope(g, view_heads, x)) != ok.expected {
                            st.within_changes_result.inc();
                        }
                    }
                    E::Bisect(x) => {
                        let input = eval1(g, x, top_scope(g, view_heads, e));
                        let members = nodes_of(input);
                        if members.len() >= 3
                            && members.iter().all(|&a| {
                                members
                                    .iter()
                                    .all(|&b| g.anc[a] & bit(b) != 0 || g.anc[b] & bit(a) != 0)
                            })
                        {
                            st.bisect_chain_cases.inc();
                        }
                    }
                    _ => {}
                }
            }
            Err(f) => self.ctx.violation(&f.sig, f.msg, case_json(g, kind, view_heads, e)),
        }
    }
}

/// What is evaluated on one graph variant.
#[derive(Clone)]
struct Plan {
    n: usize,
    /// families evaluated on the MutableRepo (sequentially) and on the reloaded ReadonlyRepo
    mutable_fams: Vec<Fam>,
    readonly_fams: Vec<Fam>,
    /// families whose every mutable-repo case is also re-derived with the second formulation
    double_check_fams: Vec<Fam>,
    max_parents: usize,
}

struct Built {
    _test_repo: TestRepo,
    ids: Ids,
}

/// Creates the repository of one graph variant, runs the mutable-repo cases for every head
/// choice inside the still-open transaction, commits, then for every head choice commits a
/// view with exactly those heads, reloads the repository from disk and runs the readonly cases.
fn run_variant(run: &Run, plan: &Plan, space: &Space, g: &G, latest_only: bool, probe_optimizer: bool) {
    let st = run.stats;
    st.graphs.inc();
    if g.has_merge() {
        st.graphs_with_merge.inc();
    }
    if g.parents.iter().any(|p| p.len() >= 3) {
        st.graphs_with_octopus.inc();
    }
    let settings = testutils::user_settings();
    let test_repo = TestRepo::init_with_backend(testutils::TestRepoBackend::Simple);
    let repo0 = test_repo.repo.clone();
    let root_id = repo0.store().root_commit_id().clone();
    let mut id_list = vec![root_id];
    // first transaction: all but the last node; second (left open): the last node
    let mut tx = repo0.start_transaction();
    for i in 1..g.n {
        let id = write_node(tx.repo_mut(), g, i, &id_list);
        id_list.push(id);
    }
    let repo1 = tx.commit("c19 first part").block_on().unwrap_or_else(|e| machinery_failure(&format!("commit: {e}")));
    let mut tx = repo1.start_transaction();
    let id = write_node(tx.repo_mut(), g, g.n, &id_list);
    id_list.push(id);
    let map: HashMap<CommitId, usize> = id_list.iter().cloned().enumerate().map(|(i, id)| (id, i)).collect();
    if map.len() != id_list.len() {
        machinery_failure("commit ids collide");
    }
    let built = Built { _test_repo: test_repo, ids: Ids { ids: id_list, map } };
    let ids = &built.ids;
    let antichains = g.antichains();

    let wanted = |e: &E| !latest_only || e.has_latest();

    // --- MutableRepo: mutable index segment, un-normalised redundant heads
    for &h in &antichains {
        let view_heads = redundant_heads(g, h);
        set_heads(tx.repo_mut(), view_heads, &ids.ids);
        if tx.repo().view().is_heads_normalized() {
            machinery_failure("expected un-normalised heads on the MutableRepo");
        }
        for &f in &plan.mutable_fams {
            let dc = plan.double_check_fams.contains(&f);
            for idx in 0..space.len(f) {
                let e = space.get(f, idx, g);
                if wanted(&e) {
                    run.one(tx.repo(), "mutable", g, view_heads, ids, &e, dc);
                }
            }
        }
    }
    // --- commit, then one operation per head choice, reloaded from disk
    set_heads(tx.repo_mut(), normal_heads(g.dag_heads()), &ids.ids);
    let mut cur: Arc<ReadonlyRepo> =
        tx.commit("c19 second part").block_on().unwrap_or_else(|e| machinery_failure(&format!("commit: {e}")));
    for &h in &antichains {
        st.configs.inc();
        if g.anc_of(h).count_ones() < g.n as u32 + 1 {
            st.configs_with_hidden.inc();
        }
        let view_heads = normal_heads(h);
        let mut tx = cur.start_transaction();
        set_heads(tx.repo_mut(), view_heads, &ids.ids);
        cur = tx.commit("c19 set heads").block_on().unwrap_or_else(|e| machinery_failure(&format!("commit: {e}")));
        let loaded = built._test_repo.env.load_repo_at_head(&settings, built._test_repo.repo_path());
        let want: HashSet<CommitId> = nodes_of(view_heads).into_iter().map(|i| ids.ids[i].clone()).collect();
        if loaded.view().heads() != &want || !loaded.view().is_heads_normalized() {
            machinery_failure("reloaded repo does not have the chosen heads");
        }
        if let Some(index) = loaded.readonly_index().downcast_ref::<DefaultReadonlyIndex>() {
            let stats = index.stats();
            if stats.num_commits as usize != g.n + 1 {
                machinery_failure("index does not contain exactly the created commits");
            }
            if stats.commit_levels.len() >= 2 {
                st.stacked_index_loads.inc();
            }
        } else {
            machinery_failure("not the default index");
        }
        let repo_ref: &ReadonlyRepo = loaded.as_ref();
        for &f in &plan.readonly_fams {
            let dc = false; // re-derivation is done once per case on the mutable repo
            let len = space.len(f);
            const CHUNK: u64 = 2048;
            let chunks: Vec<u64> = (0..len.div_ceil(CHUNK)).collect();
            chunks.par_iter().for_each(|&c| {
                for idx in c * CHUNK..((c + 1) * CHUNK).min(len) {
                    let e = space.get(f, idx, g);
                    if wanted(&e) {
                        run.one(repo_ref, "readonly", g, view_heads, ids, &e, dc);
                    }
                }
            });
            if probe_optimizer && h == *antichains.last().unwrap() {
                // how many expressions of this family does the optimizer actually rewrite?
                for idx in 0..len {
                    let e = space.get(f, idx, g);
                    if matches!(e, E::Bisect(_)) {
                        continue;
                    }
                    let jj = to_jj(&e, &ids.ids);
                    let before = format!("{jj:?}");
                    let after = format!("{:?}", jj_lib::revset::optimize(jj));
                    st.optimizer_probed.inc();
                    // `optimize` always wraps mentioned commits in WithinReference; count
                    // only rewrites beyond that wrapper
                    let stripped = after
                        .strip_prefix("WithinReference { candidates: ")
                        .and_then(|s| s.rfind(", commits: [").map(|p| s[..p].to_string()))
                        .unwrap_or(after);
                    if stripped != before {
                        st.optimizer_rewrote.inc();
                    }
                }
            }
        }
    }
}

fn variants(plan: &Plan) -> Vec<GraphSpec> {
    let mut out = vec![];
    for dag in all_dags(plan.n, plan.max_parents) {
        let has_merge = dag.parents.iter().any(|p| p.len() >= 2);
        out.push(spec_from_dag(&dag, false, false));
        if has_merge {
            out.push(spec_from_dag(&dag, true, false));
        }
    }
    out
}

fn reversed_ts(spec: &GraphSpec) -> GraphSpec {
    let n = spec.parents.len();
    GraphSpec { parents: spec.parents.clone(), ts: (1..=n).map(|i| 1000 * (n + 1 - i) as i64).collect() }
}

fn run_plan(run: &Run, plan: &Plan) {
    let space = Space::new(plan.n);
    let specs = variants(plan);
    // (spec, latest_only): the reversed timestamp order only matters to latest()
    let mut jobs: Vec<(GraphSpec, bool, bool)> = vec![];
    for (i, s) in specs.iter().enumerate() {
        jobs.push((s.clone(), false, i == specs.len() - 1));
        jobs.push((reversed_ts(s), true, false));
    }
    jobs.par_iter().for_each(|(spec, latest_only, probe)| {
        let g = G::new(spec);
        run_variant(run, plan, &space, &g, *latest_only, *probe);
    });
}

fn replay(ctx: &Ctx, case: &Value) -> Result<(), Fail> {
    let spec: GraphSpec = serde_json::from_value(case["graph"].clone())
        .unwrap_or_else(|e| machinery_failure(&format!("bad replay graph: {e}")));
    let e: E = serde_json::from_value(case["expr"].clone())
        .unwrap_or_else(|e| machinery_failure(&format!("bad replay expr: {e}")));
    let heads: Vec<usize> = serde_json::from_value(case["view_heads"].clone())
        .unwrap_or_else(|e| machinery_failure(&format!("bad replay heads: {e}")));
    let mutable = case["repo"] == "mutable";
    let view_heads = heads.iter().fold(0, |a, &i| a | bit(i));
    let g = G::new(&spec);
    let settings = testutils::user_settings();
    let test_repo = TestRepo::init_with_backend(testutils::TestRepoBackend::Simple);
    let mut id_list = vec![test_repo.repo.store().root_commit_id().clone()];
    let mut tx = test_repo.repo.start_transaction();
    for i in 1..g.n {
        let id = write_node(tx.repo_mut(), &g, i, &id_list);
        id_list.push(id);
    }
    let repo1 = tx.commit("c19 first part").block_on().unwrap();
    let mut tx = repo1.start_transaction();
    let id = write_node(tx.repo_mut(), &g, g.n, &id_list);
    id_list.push(id);
    let map = id_list.iter().cloned().enumerate().map(|(i, id)| (id, i)).collect();
    let ids = Ids { ids: id_list, map };
    set_heads(tx.repo_mut(), view_heads, &ids.ids);
    let r = if mutable {
        check_case(tx.repo(), &g, view_heads, &ids, &e, true, wants_other_views(&e), &Stats::new())
    } else {
        tx.commit("c19 set heads").block_on().unwrap();
        let loaded = test_repo.env.load_repo_at_head(&settings, test_repo.repo_path());
        check_case(loaded.as_ref(), &g, view_heads, &ids, &e, true, wants_other_views(&e), &Stats::new())
    };
    let _ = ctx;
    r.map(|_| ())
}

fn main() {
    let ctx = Ctx::from_args("C19", Level::Exploration);
    vcommon::silence_panics();
    if let Some((_sig, case)) = ctx.replay_case() {
        if let Err(f) = replay(&ctx, &case) {
            ctx.violation(&f.sig, f.msg, case);
        }
        ctx.finish(Coverage { evaluations: 1, ..Default::default() });
    }

    let depth1 = vec![Fam::L, Fam::UL, Fam::BLL, Fam::BisL, Fam::BisUL, Fam::BisBLL];
    let depth1_mut = vec![Fam::L, Fam::UL, Fam::BLL, Fam::BisL, Fam::BisUL];
    let depth2 = vec![Fam::UUL, Fam::UBLL, Fam::BULL, Fam::BLUL, Fam::BRLRL];
    let depth3 = vec![Fam::UUUL, Fam::TBULL, Fam::TBLUL, Fam::BBLLL, Fam::BLBLL, Fam::TBBLLL];
    let cat = |a: &[Fam], b: &[Fam]| -> Vec<Fam> { a.iter().chain(b.iter()).copied().collect() };
    let plans: Vec<Plan> = if ctx.quick() {
        vec![
            Plan {
                n: 4,
                mutable_fams: depth1_mut.clone(),
                readonly_fams: depth1.clone(),
                double_check_fams: depth1_mut.clone(),
                max_parents: 3,
            },
            Plan {
                n: 3,
                mutable_fams: vec![],
                readonly_fams: depth2.clone(),
                double_check_fams: vec![],
                max_parents: 3,
            },
        ]
    } else {
        let depth2_n4 = vec![Fam::UUL, Fam::UBLL, Fam::BULL, Fam::BLUL];
        vec![
            Plan {
                n: 5,
                mutable_fams: depth1_mut.clone(),
                readonly_fams: depth1_mut.clone(),
                double_check_fams: depth1_mut.clone(),
                max_parents: 2,
            },
            Plan {
                n: 4,
                mutable_fams: depth1_mut.clone(),
                readonly_fams: depth1.clone(),
                double_check_fams: depth1_mut.clone(),
                max_parents: 3,
            },
            Plan {
                n: 4,
                mutable_fams: vec![],
                readonly_fams: depth2_n4.clone(),
                double_check_fams: vec![],
                max_parents: 2,
            },
            Plan {
                n: 3,
                mutable_fams: depth2.clone(),
                readonly_fams: cat(&depth2, &depth3),
                double_check_fams: depth2.clone(),
                max_parents: 3,
            },
        ]
    };

    let stats = Stats::new();
    let samples = Samples::new(NKINDS);
    let run = Run { ctx: &ctx, stats: &stats, samples: &samples, sampled: (0..NKINDS).map(|_| std::sync::atomic::AtomicBool::new(false)).collect() };
    let mut plan_desc = vec![];
    for plan in &plans {
        let space = Space::new(plan.n);
        let before = stats.cases.get();
        let t0 = ctx.elapsed_s();
        run_plan(&run, plan);
        let sizes: BTreeMap<String, u64> = plan
            .readonly_fams
            .iter()
            .chain(plan.mutable_fams.iter())
            .map(|&f| (format!("{f:?}"), space.len(f)))
            .collect();
        plan_desc.push(json!({
            "n": plan.n,
            "max_parents": plan.max_parents,
            "graph_variants": variants(plan).len(),
            "unary_ops": space.us.len(),
            "binary_ops": BOPS.len(),
            "leaves": space.ls.len(),
            "mutable_families": plan.mutable_fams.iter().map(|f| format!("{f:?}")).collect::<Vec<_>>(),
            "readonly_families": plan.readonly_fams.iter().map(|f| format!("{f:?}")).collect::<Vec<_>>(),
            "family_sizes": sizes,
            "cases": stats.cases.get() - before,
            "wall_s": ((ctx.elapsed_s() - t0) * 10.0).round() / 10.0,
        }));
    }

    // vacuity: every operator must have produced a non-empty result somewhere
    let mut by_kind = serde_json::Map::new();
    for k in 0..NKINDS {
        let (c, ne) = (stats.by_kind_cases[k].get(), stats.by_kind_nonempty[k].get());
        by_kind.insert(kind_name(k).to_string(), json!({"cases": c, "nonempty": ne}));
        if ctx.violation_count() == 0 && k != 0 && (c == 0 || ne == 0) {
            machinery_failure(&format!("vacuous: operator {} never produced a non-empty result", kind_name(k)));
        }
    }
    if ctx.violation_count() == 0 {
        for (name, c) in [
            ("configs_with_hidden", &stats.configs_with_hidden),
            ("hidden_in_result", &stats.hidden_in_result),
            ("first_parent_differs", &stats.first_parent_differs),
            ("latest_order_matters", &stats.latest_order_matters),
            ("within_changes_result", &stats.within_changes_result),
            ("graphs_with_octopus", &stats.graphs_with_octopus),
            ("optimizer_rewrote", &stats.optimizer_rewrote),
            ("bisect_chain_cases", &stats.bisect_chain_cases),
            ("stacked_index_loads", &stats.stacked_index_loads),
        ] {
            if c.get() == 0 {
                machinery_failure(&format!("vacuous: counter {name} is zero"));
            }
        }
    }

    let mut extra: BTreeMap<String, Value> = BTreeMap::new();
    extra.insert("plans".into(), json!(plan_desc));
    extra.insert("jj_evaluations".into(), json!(stats.jj_evals.get()));
    extra.insert(
        "cpu_seconds".into(),
        json!({
            "real_code": stats.ns_jj.get() as f64 / 1e9,
            "reference_1": stats.ns_ref1.get() as f64 / 1e9,
            "reference_2": stats.ns_ref2.get() as f64 / 1e9,
        }),
    );
    extra.insert("cases_also_observed_via_stream_graph_is_empty_containing_fn".into(), json!(stats.other_views_cases.get()));
    extra.insert("cases_on_mutable_repo".into(), json!(stats.mutable_cases.get()));
    extra.insert("cases_on_reloaded_readonly_repo".into(), json!(stats.readonly_cases.get()));
    extra.insert("graph_variants_built".into(), json!(stats.graphs.get()));
    extra.insert("graph_variants_with_merge".into(), json!(stats.graphs_with_merge.get()));
    extra.insert("graph_variants_with_octopus".into(), json!(stats.graphs_with_octopus.get()));
    extra.insert("head_choices".into(), json!(stats.configs.get()));
    extra.insert("head_choices_with_hidden_commits".into(), json!(stats.configs_with_hidden.get()));
    extra.insert("reloads_with_stacked_index_segments".into(), json!(stats.stacked_index_loads.get()));
    extra.insert("cases_with_hidden_commit_in_result".into(), json!(stats.hidden_in_result.get()));
    extra.insert("cases_rederived_by_second_formulation".into(), json!(stats.double_checked.get()));
    extra.insert("first_ancestors_cases_differing_from_ancestors".into(), json!(stats.first_parent_differs.get()));
    extra.insert("latest_cases_decided_by_timestamp_not_index".into(), json!(stats.latest_order_matters.get()));
    extra.insert("within_visibility_cases_changing_the_result".into(), json!(stats.within_changes_result.get()));
    extra.insert("bisect_cases_on_chains_of_3_or_more".into(), json!(stats.bisect_chain_cases.get()));
    extra.insert(
        "optimizer_probe".into(),
        json!({"expressions": stats.optimizer_probed.get(), "rewritten_beyond_reference_wrapper": stats.optimizer_rewrote.get()}),
    );
    extra.insert("by_top_level_operator".into(), Value::Object(by_kind));

    let cov = Coverage {
        evaluations: stats.cases.get(),
        distinct_nontrivial: stats.nontrivial.get(),
        rule: "case = (graph variant [every DAG on n nodes with <= max_parents parents, both parent orders if it has a \
               merge, two committer-timestamp orders (the reversed one only for expressions containing latest())], \
               visible-head choice [every antichain], repo kind [MutableRepo with redundant un-normalised heads / \
               ReadonlyRepo reloaded from disk], expression [every member of the listed families: l = leaf, u = unary \
               operator, b = binary operator, t = restricted outer operator]); each case is generated once and runs \
               evaluate() and evaluate_unoptimized(); non-trivial = the expected set is neither empty nor the whole \
               all() of the scope"
            .into(),
        samples: samples.take(),
        exhaustive: true,
        extra,
        assumptions: vec![
            "reference semantics follow docs/revsets.md; all()/x::/x+/~x/forks()/merge_point()/filters are relative to the \
             ancestors of the scope's visible heads and of every commit mentioned in the scope (doc: 'Hidden revisions', all(), at_operation())"
                .into(),
            "index order = creation order (children are always written after their parents)".into(),
            "bisect() has no exact definition: demanded only empty->empty, a single member of the input, near the middle \
             if the input is a chain, and optimised == unoptimised"
                .into(),
            "committer timestamps are pairwise distinct, so latest() has no ties".into(),
            "WithinVisibility head sets: each single commit, all DAG heads, the root only (built directly, as at_operation() does)".into(),
            "stream_graph()/is_empty()/containing_fn() are compared with the stream() listing for depth <= 1 expressions only; graph edges are C39's subject".into(),
        ],
        ..Default::default()
    };
    ctx.finish(cov);
}

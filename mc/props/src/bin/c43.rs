//! C43 — Per-repo configuration cannot be injected by a copied repository.
//!
//! Explicit-state BFS over histories of init / load / copy / move / delete / write-id /
//! remove-id / write-config / write-legacy-config / remove-store-entry actions on a scratch
//! tree with a user config directory and three repository slots. Every history is replayed
//! from scratch through the real `jj_lib::secure_config::SecureConfig`; the oracle looks at
//! the on-disk tree before and after every load:
//!
//! * location: a loaded config file is `<root>/<id>/config.toml` with `<id>` = the 20 hex
//!   digits that the repository's `config-id` file holds afterwards, and its directory
//!   canonicalises to a child of the canonical root;
//! * malformed ids (additionally probed, in place, with a list of literals at the end of
//!   every history) yield an error and touch nothing;
//! * no sharing: a load never returns the config that another existing, untouched repository
//!   directory got from its own last load (a copy whose original still exists gets its own
//!   file), the split-off file starts with the original's content, the original's file is
//!   not modified, and a write through one is invisible through the others;
//! * a repository whose recorded location no longer exists (moved), whose recorded location
//!   is itself, or whose store entry is missing keeps the file named by its id.
//!
//! Checks run as uid 0, so the documented read-only-copy exception cannot be produced and is
//! left out; symlinked repository aliases are not part of the alphabet either.

use std::collections::BTreeMap;
use std::fs;
use std::path::Path;
use std::path::PathBuf;
use std::sync::atomic::AtomicU64;
use std::sync::atomic::Ordering;

use jj_lib::secure_config::SecureConfig;
use jj_lib::secure_config::SecureConfigError;
use rand::SeedableRng as _;
use rand_chacha::ChaCha20Rng;
use serde_json::Value;
use serde_json::json;
use vcommon::Counter;
use vcommon::Coverage;
use vcommon::Ctx;
use vcommon::Level;
use vcommon::bfs;
use vcommon::catch;

const NSLOTS: usize = 3;
const FIXED: &str = "0123456789abcdefABCD";
/// 20 bytes; relative to `<base>/cfg/d` it names `<base>/r1/aaaaaaaaaaa`, i.e. a directory
/// inside a repository.
const TRAVERSAL: &str = "../../r1/aaaaaaaaaaa";
const CONTENTS: [&str; 2] = ["x = 1\n", "y = 2\n"];
const LEGACY_CONTENT: &str = "legacy = true\n";

#[derive(Clone, Debug, PartialEq, Eq)]
enum Src {
    From(usize),
    Fixed,
    Traversal,
    OwnNl,
}

#[derive(Clone, Debug, PartialEq, Eq)]
enum A {
    Init(usize),
    Load(usize),
    Copy(usize, usize),
    Move(usize, usize),
    Delete(usize),
    WriteId(usize, Src),
    RmId(usize),
    WriteCfg(usize, usize),
    WriteLegacy(usize),
    RmStore(usize),
}

fn slot_name(i: usize) -> String {
    format!("r{}", i + 1)
}

fn parse_slot(v: &Value) -> Option<usize> {
    let s = v.as_str()?;
    let n: usize = s.strip_prefix('r')?.parse().ok()?;
    (1..=NSLOTS).contains(&n).then(|| n - 1)
}

impl A {
    fn to_json(&self) -> Value {
        match self {
            A::Init(i) => json!({"op": "init", "repo": slot_name(*i)}),
            A::Load(i) => json!({"op": "load", "repo": slot_name(*i)}),
            A::Copy(i, j) => json!({"op": "copy", "from": slot_name(*i), "to": slot_name(*j)}),
            A::Move(i, j) => json!({"op": "move", "from": slot_name(*i), "to": slot_name(*j)}),
            A::Delete(i) => json!({"op": "delete", "repo": slot_name(*i)}),
            A::WriteId(i, Src::From(j)) => {
                json!({"op": "write_id", "repo": slot_name(*i), "src": "copy_of", "of": slot_name(*j)})
            }
            A::WriteId(i, Src::Fixed) => {
                json!({"op": "write_id", "repo": slot_name(*i), "src": "fixed", "literal": FIXED})
            }
            A::WriteId(i, Src::Traversal) => {
                json!({"op": "write_id", "repo": slot_name(*i), "src": "traversal", "literal": TRAVERSAL})
            }
            A::WriteId(i, Src::OwnNl) => {
                json!({"op": "write_id", "repo": slot_name(*i), "src": "own_plus_newline"})
            }
            A::RmId(i) => json!({"op": "rm_id", "repo": slot_name(*i)}),
            A::WriteCfg(i, c) => {
                json!({"op": "write_config", "repo": slot_name(*i), "content": CONTENTS[*c]})
            }
            A::WriteLegacy(i) => json!({"op": "write_legacy", "repo": slot_name(*i), "content": LEGACY_CONTENT}),
            A::RmStore(i) => json!({"op": "rm_store_entry", "repo": slot_name(*i)}),
        }
    }

    fn from_json(v: &Value) -> Option<A> {
        let repo = || parse_slot(&v["repo"]);
        Some(match v["op"].as_str()? {
            "init" => A::Init(repo()?),
            "load" => A::Load(repo()?),
            "copy" => A::Copy(parse_slot(&v["from"])?, parse_slot(&v["to"])?),
            "move" => A::Move(parse_slot(&v["from"])?, parse_slot(&v["to"])?),
            "delete" => A::Delete(repo()?),
            "write_id" => A::WriteId(
                repo()?,
                match v["src"].as_str()? {
                    "copy_of" => Src::From(parse_slot(&v["of"])?),
                    "fixed" => Src::Fixed,
                    "traversal" => Src::Traversal,
                    "own_plus_newline" => Src::OwnNl,
                    _ => return None,
                },
            ),
            "rm_id" => A::RmId(repo()?),
            "write_config" => {
                A::WriteCfg(repo()?, CONTENTS.iter().position(|c| Some(*c) == v["content"].as_str())?)
            }
            "write_legacy" => A::WriteLegacy(repo()?),
            "rm_store_entry" => A::RmStore(repo()?),
            _ => return None,
        })
    }

    fn label(&self) -> String {
        match self {
            A::Init(_) => "init",
            A::Load(_) => "load",
            A::Copy(..) => "copy",
            A::Move(..) => "move",
            A::Delete(_) => "delete",
            A::WriteId(_, Src::From(_)) => "write_id(copy of another repo's id)",
            A::WriteId(_, Src::Fixed) => "write_id(fixed valid id)",
            A::WriteId(_, Src::Traversal) => "write_id(20-byte path traversal)",
            A::WriteId(_, Src::OwnNl) => "write_id(own id + newline)",
            A::RmId(_) => "rm_id",
            A::WriteCfg(..) => "write_config",
            A::WriteLegacy(_) => "write_legacy",
            A::RmStore(_) => "rm_store_entry",
        }
        .to_string()
    }
}

// ---------------------------------------------------------------------------------------
// disk snapshot

#[derive(Clone, Debug, PartialEq, Eq)]
enum Node {
    Dir,
    File(Vec<u8>),
    /// symlink target, scratch prefix replaced by `$B`
    Link(String),
    /// decoded metadata.binpb: recorded repository path, scratch prefix replaced by `$B`
    Meta(Option<String>),
}

type Tree = BTreeMap<String, Node>;

fn rel(base: &Path, s: &str) -> String {
    let b = base.to_str().unwrap();
    match s.strip_prefix(b) {
        Some(rest) => format!("$B{rest}"),
        None => s.to_string(),
    }
}

fn decode_meta(bytes: &[u8]) -> Option<Option<Vec<u8>>> {
    if bytes.is_empty() {
        return Some(None);
    }
    if bytes[0] != 0x0a {
        return None;
    }
    let mut len = 0usize;
    let mut shift = 0;
    let mut i = 1;
    loop {
        let b = *bytes.get(i)?;
        len |= ((b & 0x7f) as usize) << shift;
        shift += 7;
        i += 1;
        if b & 0x80 == 0 {
            break;
        }
    }
    (bytes.len() == i + len).then(|| Some(bytes[i..].to_vec()))
}

fn snapshot(base: &Path) -> Tree {
    fn walk(base: &Path, dir: &Path, prefix: &str, out: &mut Tree) {
        let mut entries: Vec<_> = fs::read_dir(dir)
            .unwrap_or_else(|e| vcommon::machinery_failure(&format!("read_dir {dir:?}: {e}")))
            .map(|e| e.unwrap())
            .collect();
        entries.sort_by_key(|e| e.file_name());
        for e in entries {
            let name = e.file_name().to_string_lossy().to_string();
            let key = if prefix.is_empty() { name.clone() } else { format!("{prefix}/{name}") };
            let path = e.path();
            let md = fs::symlink_metadata(&path).unwrap();
            if md.file_type().is_symlink() {
                let t = fs::read_link(&path).unwrap();
                out.insert(key, Node::Link(rel(base, &t.to_string_lossy())));
            } else if md.is_dir() {
                out.insert(key.clone(), Node::Dir);
                walk(base, &path, &key, out);
            } else {
                let bytes = fs::read(&path).unwrap();
                let node = if name == "metadata.binpb" {
                    match decode_meta(&bytes) {
                        Some(p) => Node::Meta(p.map(|p| rel(base, &String::from_utf8_lossy(&p)))),
                        None => Node::File(bytes),
                    }
                } else {
                    Node::File(bytes)
                };
                out.insert(key, node);
            }
        }
    }
    let mut out = Tree::new();
    walk(base, base, "", &mut out);
    out
}

fn well_formed(b: &[u8]) -> bool {
    b.len() == 20 && b.iter().all(|c| c.is_ascii_hexdigit())
}

fn id_bytes(tree: &Tree, i: usize) -> Option<&[u8]> {
    match tree.get(&format!("{}/config-id", slot_name(i))) {
        Some(Node::File(b)) => Some(b),
        _ => None,
    }
}

fn repo_exists(tree: &Tree, i: usize) -> bool {
    tree.get(&slot_name(i)) == Some(&Node::Dir)
}

fn store_exists(tree: &Tree, id: &str) -> bool {
    tree.contains_key(&format!("cfg/d/{id}/metadata.binpb"))
}

fn store_owner(tree: &Tree, id: &str) -> Option<String> {
    match tree.get(&format!("cfg/d/{id}/metadata.binpb")) {
        Some(Node::Meta(p)) => p.clone(),
        _ => None,
    }
}

/// Content of a store entry's config.toml as a reader would see it (`None` = no file).
fn store_content(tree: &Tree, id: &str) -> Option<Vec<u8>> {
    match tree.get(&format!("cfg/d/{id}/config.toml")) {
        Some(Node::File(b)) => Some(b.clone()),
        Some(other) => Some(format!("<{other:?}>").into_bytes()),
        None => None,
    }
}

fn store_ids(tree: &Tree) -> Vec<String> {
    tree.iter()
        .filter_map(|(k, n)| {
            let name = k.strip_prefix("cfg/d/")?;
            (!name.contains('/') && *n == Node::Dir).then(|| name.to_string())
        })
        .collect()
}

fn subtree(tree: &Tree, prefix: &str) -> Vec<(String, Node)> {
    tree.iter()
        .filter(|(k, _)| *k == prefix || k.starts_with(&format!("{prefix}/")))
        .map(|(k, v)| (k.clone(), v.clone()))
        .collect()
}

// ---------------------------------------------------------------------------------------
// canonical key

fn render(tree: &Tree, loaded: &[bool; NSLOTS], perm: &[usize]) -> String {
    // perm[old] = new
    let mut inv = [0usize; NSLOTS];
    for (old, &new) in perm.iter().enumerate() {
        inv[new] = old;
    }
    let map_path = |s: &str| -> String {
        for old in 0..NSLOTS {
            let p = format!("$B/{}", slot_name(old));
            if s == p {
                return format!("$B/R{}", perm[old] + 1);
            }
            if let Some(rest) = s.strip_prefix(&format!("{p}/")) {
                return format!("$B/R{}/{rest}", perm[old] + 1);
            }
        }
        s.to_string()
    };
    let mut labels: Vec<String> = vec![];
    let mut label_of = |id: &str, labels: &mut Vec<String>| -> String {
        if id == FIXED {
            return "F".to_string();
        }
        let pos = labels.iter().position(|x| x == id).unwrap_or_else(|| {
            labels.push(id.to_string());
            labels.len() - 1
        });
        format!("G{pos}")
    };
    let mut out = String::new();
    let mut consumed: Vec<String> = vec!["cfg".into(), "cfg/d".into()];
    for new in 0..NSLOTS {
        let old = inv[new];
        let name = slot_name(old);
        if !repo_exists(tree, old) {
            out.push_str(&format!("R{}:-;", new + 1));
            continue;
        }
        consumed.push(name.clone());
        let id = match id_bytes(tree, old) {
            None => "noid".to_string(),
            Some(b) => {
                consumed.push(format!("{name}/config-id"));
                if well_formed(b) {
                    label_of(std::str::from_utf8(b).unwrap(), &mut labels)
                } else if b.len() == 21 && b[20] == b'\n' && well_formed(&b[..20]) {
                    format!("nl({})", label_of(std::str::from_utf8(&b[..20]).unwrap(), &mut labels))
                } else {
                    format!("bad({})", String::from_utf8_lossy(b))
                }
            }
        };
        let legacy = match tree.get(&format!("{name}/config.toml")) {
            None => "noleg".to_string(),
            Some(n) => {
                consumed.push(format!("{name}/config.toml"));
                match n {
                    Node::File(b) => format!("leg({})", String::from_utf8_lossy(b)),
                    Node::Link(t) => {
                        let target_id = t
                            .strip_prefix("$B/cfg/d/")
                            .and_then(|r| r.strip_suffix("/config.toml"))
                            .filter(|r| !r.contains('/'));
                        match target_id {
                            Some(tid) => format!("link({})", label_of(tid, &mut labels)),
                            None => format!("link-raw({})", map_path(t)),
                        }
                    }
                    other => format!("{other:?}"),
                }
            }
        };
        out.push_str(&format!(
            "R{}:{id},{legacy},{};",
            new + 1,
            if loaded[old] { "live" } else { "stale" }
        ));
    }
    // referenced store entries in label order, then the fixed id
    let mut referenced: Vec<(String, String)> =
        labels.iter().enumerate().map(|(n, id)| (format!("G{n}"), id.clone())).collect();
    referenced.push(("F".to_string(), FIXED.to_string()));
    for (label, id) in &referenced {
        let dir = format!("cfg/d/{id}");
        if !tree.contains_key(&dir) {
            out.push_str(&format!("{label}=missing;"));
            continue;
        }
        let owner = match tree.get(&format!("{dir}/metadata.binpb")) {
            Some(Node::Meta(Some(p))) => map_path(p),
            Some(Node::Meta(None)) => "nopath".to_string(),
            Some(other) => format!("{other:?}"),
            None => "nometa".to_string(),
        };
        let content = match store_content(tree, id) {
            Some(c) => format!("some({})", String::from_utf8_lossy(&c)),
            None => "none".to_string(),
        };
        out.push_str(&format!("{label}=[{owner},{content}];"));
    }
    // everything else: orphaned store entries are dropped (no action can name them and a
    // load never lists the store); any other unexpected node goes into the key verbatim
    let all_ids = store_ids(tree);
    for (k, n) in tree {
        if consumed.contains(k) {
            continue;
        }
        if let Some(rest) = k.strip_prefix("cfg/d/") {
            let id = rest.split('/').next().unwrap();
            if all_ids.iter().any(|x| x == id) {
                let known = rest == id || rest == format!("{id}/config.toml") || rest == format!("{id}/metadata.binpb");
                if known {
                    continue;
                }
            }
        }
        out.push_str(&format!("stray({}={:?});", map_path(&format!("$B/{k}")), n));
    }
    out
}

fn canonical_key(tree: &Tree, loaded: &[bool; NSLOTS]) -> String {
    vcommon::enumerate::permutations(NSLOTS)
        .iter()
        .map(|p| render(tree, loaded, p))
        .min()
        .unwrap()
}

// ---------------------------------------------------------------------------------------
// simulation

static DIR_COUNTER: AtomicU64 = AtomicU64::new(0);

#[derive(Default)]
struct Stats {
    load_obs: Counter,
    br_none: Counter,
    br_migrate: Counter,
    br_bad_id: Counter,
    br_own: Counter,
    br_moved: Counter,
    br_regen: Counter,
    br_copy_live: Counter,
    br_copy_stale: Counter,
    split_off: Counter,
    split_with_content: Counter,
    write_isolation_checks: Counter,
    write_isolation_with_equal_content_elsewhere: Counter,
    probes: Counter,
    nontrivial: Counter,
}

struct Sim<'a> {
    base: PathBuf,
    root: PathBuf,
    loaded: [bool; NSLOTS],
    pos: u64,
    stats: &'a Stats,
    violations: Vec<(String, String)>,
}

fn copy_tree(src: &Path, dst: &Path) -> std::io::Result<()> {
    fs::create_dir(dst)?;
    for e in fs::read_dir(src)? {
        let e = e?;
        let from = e.path();
        let to = dst.join(e.file_name());
        let md = fs::symlink_metadata(&from)?;
        if md.file_type().is_symlink() {
            std::os::unix::fs::symlink(fs::read_link(&from)?, &to)?;
        } else if md.is_dir() {
            copy_tree(&from, &to)?;
        } else {
            fs::copy(&from, &to)?;
        }
    }
    Ok(())
}

type LoadResult = Result<Result<Option<PathBuf>, SecureConfigError>, String>;

fn show_result(base: &Path, r: &LoadResult) -> String {
    match r {
        Err(p) => format!("panic: {p}"),
        Ok(Err(e)) => format!("Err({e})"),
        Ok(Ok(None)) => "Ok(no config)".to_string(),
        Ok(Ok(Some(p))) => format!("Ok({})", rel(base, &p.to_string_lossy())),
    }
}

impl Sim<'_> {
    fn repo_dir(&self, i: usize) -> PathBuf {
        self.base.join(slot_name(i))
    }

    fn rng(&mut self) -> ChaCha20Rng {
        self.pos += 1;
        ChaCha20Rng::seed_from_u64(self.pos)
    }

    fn fail(&mut self, sig: &str, msg: String) {
        self.violations.push((sig.to_string(), msg));
    }

    /// Generic checks on a returned config file. Returns the id if the location is right.
    fn check_location(&mut self, i: usize, p: &Path, post: &Tree, what: &str) -> Option<String> {
        let shown = rel(&self.base, &p.to_string_lossy());
        let Some(idb) = id_bytes(post, i) else {
            self.fail(
                "C43/location/no-config-id",
                format!("{what}: returned {shown} but {} has no config-id file", slot_name(i)),
            );
            return None;
        };
        if !well_formed(idb) {
            self.fail(
                "C43/location/malformed-id-in-use",
                format!(
                    "{what}: returned {shown} while the config-id file holds the malformed {:?}",
                    String::from_utf8_lossy(idb)
                ),
            );
            return None;
        }
        let id = std::str::from_utf8(idb).unwrap().to_string();
        let expected = self.root.join(&id).join("config.toml");
        if p != expected {
            self.fail(
                "C43/location/not-root-id-config-toml",
                format!("{what}: returned {shown}, expected $B/cfg/d/{id}/config.toml (id from the config-id file)"),
            );
            return None;
        }
        let canon_root = fs::canonicalize(&self.root).unwrap();
        match fs::canonicalize(p.parent().unwrap()) {
            Ok(c) if c == canon_root.join(&id) => {}
            other => {
                self.fail(
                    "C43/location/escapes-config-dir",
                    format!("{what}: directory of {shown} canonicalises to {other:?}, not a child of the config root"),
                );
                return None;
            }
        }
        Some(id)
    }

    /// Everything a load of repo `i` must leave alone.
    fn check_protected(&mut self, i: usize, pre: &Tree, post: &Tree, what: &str) {
        for j in 0..NSLOTS {
            if j != i && subtree(pre, &slot_name(j)) != subtree(post, &slot_name(j)) {
                self.fail(
                    "C43/load/modifies-other-repo",
                    format!("{what}: the directory of {} changed", slot_name(j)),
                );
            }
        }
        for id in store_ids(pre) {
            if !post.contains_key(&format!("cfg/d/{id}")) {
                self.fail("C43/load/removes-config", format!("{what}: store entry {id} disappeared"));
            } else if store_content(pre, &id) != store_content(post, &id) {
                self.fail(
                    "C43/load/modifies-existing-config",
                    format!(
                        "{what}: config.toml of store entry {id} changed from {:?} to {:?}",
                        store_content(pre, &id).map(|c| String::from_utf8_lossy(&c).to_string()),
                        store_content(post, &id).map(|c| String::from_utf8_lossy(&c).to_string())
                    ),
                );
            }
        }
    }

    /// Judges one load call of a fresh `SecureConfig` (`generate` = load_config, else
    /// maybe_load_config) from the snapshot `pre` to `post`.
    fn judge_load(&mut self, i: usize, generate: bool, pre: &Tree, post: &Tree, r: &LoadResult, count: bool) {
        let fname = if generate { "load_config" } else { "maybe_load_config" };
        let what = format!("{fname}({}) = {}", slot_name(i), show_result(&self.base.clone(), r));
        let r = match r {
            Err(p) => {
                self.fail("C43/panic", format!("{what}: {p}"));
                return;
            }
            Ok(r) => r,
        };
        let me = format!("$B/{}", slot_name(i));
        let pre_id = id_bytes(pre, i).map(|b| b.to_vec());
        // malformed id: error, nothing touched
        if let Some(b) = &pre_id
            && !well_formed(b)
        {
            if count {
                self.stats.br_bad_id.inc();
            }
            match r {
                Err(_) => {}
                Ok(Some(_)) => self.fail(
                    "C43/bad-id/accepted",
                    format!("{what}: the config-id file holds the malformed {:?}", String::from_utf8_lossy(b)),
                ),
                Ok(None) => self.fail(
                    "C43/bad-id/not-rejected",
                    format!("{what}: the config-id file holds the malformed {:?}", String::from_utf8_lossy(b)),
                ),
            }
            if pre != post {
                self.fail(
                    "C43/bad-id/side-effect",
                    format!(
                        "{what}: the tree changed although the config-id {:?} is malformed: {}",
                        String::from_utf8_lossy(b),
                        diff(pre, post)
                    ),
                );
            }
            return;
        }
        self.check_protected(i, pre, post, &what);
        let p = match r {
            Err(e) => {
                // a well-formed or absent id never fails in this world
                self.fail("C43/load/unexpected-error", format!("{what}: {e}"));
                return;
            }
            Ok(None) => {
                if generate {
                    self.fail("C43/load/no-config-generated", what.clone());
                } else if pre_id.is_some() {
                    self.fail("C43/load/config-id-not-honoured", format!("{what}: a well-formed config-id exists"));
                } else if count {
                    self.stats.br_none.inc();
                }
                return;
            }
            Ok(Some(p)) => p.clone(),
        };
        let Some(id) = self.check_location(i, &p, post, &what) else {
            return;
        };
        // sharing with a live repository
        for j in 0..NSLOTS {
            if j != i
                && self.loaded[j]
                && repo_exists(post, j)
                && id_bytes(post, j) == Some(id.as_bytes())
            {
                self.fail(
                    "C43/copy/shares-config-with-live-repo",
                    format!(
                        "{what}: {} exists, is untouched since its own load and uses the same file",
                        slot_name(j)
                    ),
                );
            }
        }
        match &pre_id {
            None => {
                // new or migrated config: must be a fresh entry
                if store_exists(pre, &id) || pre.contains_key(&format!("cfg/d/{id}")) {
                    self.fail(
                        "C43/load/adopts-existing-config",
                        format!("{what}: no config-id before the load, yet an existing store entry was chosen"),
                    );
                }
                if count {
                    if matches!(post.get(&format!("{}/config.toml", slot_name(i))), Some(Node::Link(_)))
                        && !matches!(pre.get(&format!("{}/config.toml", slot_name(i))), Some(Node::Link(_)))
                    {
                        self.stats.br_migrate.inc();
                    } else {
                        self.stats.br_none.inc();
                    }
                }
            }
            Some(b) => {
                let s = std::str::from_utf8(b).unwrap().to_string();
                let owner = store_owner(pre, &s);
                let owner_is_other_dir = match &owner {
                    Some(o) if *o != me => {
                        // an existing directory in the scratch tree?
                        o.strip_prefix("$B/").is_some_and(|r| pre.get(r) == Some(&Node::Dir))
                    }
                    _ => false,
                };
                let live_sharer = (0..NSLOTS).any(|j| {
                    j != i && self.loaded[j] && repo_exists(pre, j) && id_bytes(pre, j) == Some(s.as_bytes())
                });
                if id == s {
                    if count {
                        if !store_exists(pre, &s) {
                            self.stats.br_regen.inc();
                        } else if owner.as_deref() == Some(me.as_str()) {
                            self.stats.br_own.inc();
                        } else if !owner_is_other_dir {
                            self.stats.br_moved.inc();
                        }
                    }
                } else {
                    // split off: only legitimate for a suspected copy
                    if store_exists(pre, &id) || pre.contains_key(&format!("cfg/d/{id}")) {
                        self.fail(
                            "C43/load/adopts-existing-config",
                            format!("{what}: switched from id {s} to the already existing entry {id}"),
                        );
                    }
                    if !store_exists(pre, &s) {
                        self.fail(
                            "C43/load/config-id-not-honoured",
                            format!("{what}: id {s} has no store entry; a new entry must be created under that id"),
                        );
                    } else if owner.as_deref() == Some(me.as_str()) {
                        self.fail(
                            "C43/load/config-id-not-honoured",
                            format!("{what}: id {s} is recorded for this very directory but another file was chosen"),
                        );
                    } else if !owner_is_other_dir {
                        self.fail(
                            "C43/move/config-not-kept",
                            format!(
                                "{what}: id {s} is recorded for {owner:?}, which no longer exists (repository moved), \
                                 but the file was not kept"
                            ),
                        );
                    } else {
                        if count {
                            self.stats.split_off.inc();
                        }
                        let before = store_content(pre, &s);
                        let after = store_content(post, &id);
                        if before != after {
                            self.fail(
                                "C43/copy/content-not-copied",
                                format!(
                                    "{what}: the original's config is {:?} but the copy starts with {:?}",
                                    before.map(|c| String::from_utf8_lossy(&c).to_string()),
                                    after.map(|c| String::from_utf8_lossy(&c).to_string())
                                ),
                            );
                        } else if count && before.is_some() {
                            self.stats.split_with_content.inc();
                        }
                    }
                }
                if count && owner_is_other_dir && store_exists(pre, &s) {
                    if live_sharer {
                        self.stats.br_copy_live.inc();
                    } else {
                        self.stats.br_copy_stale.inc();
                    }
                }
            }
        }
    }

    /// The observation made by every load-like action: maybe_load_config and load_config on
    /// one object, then load_config on a second fresh object. Returns the final file.
    fn observe_load(&mut self, i: usize, oracle: bool) -> Option<PathBuf> {
        let dir = self.repo_dir(i);
        let root = self.root.clone();
        let base = self.base.clone();
        let pre = if oracle { snapshot(&base) } else { Tree::new() };
        if oracle {
            self.stats.load_obs.inc();
        }
        let mut rng = self.rng();
        let obj1 = SecureConfig::new_repo(dir.clone());
        let r1: LoadResult = catch(|| obj1.maybe_load_config(&mut rng, &root).map(|l| l.config_file));
        let mid = if oracle { snapshot(&base) } else { Tree::new() };
        if oracle {
            self.judge_load(i, false, &pre, &mid, &r1, true);
        }
        let r2: LoadResult = catch(|| obj1.load_config(&mut rng, &root).map(|l| l.config_file));
        let mid2 = if oracle { snapshot(&base) } else { Tree::new() };
        if oracle {
            // same object: a found config is returned again and nothing changes; a missing
            // one is generated
            match (&r1, &r2) {
                (Ok(Ok(Some(a))), Ok(Ok(Some(b)))) => {
                    if a != b || mid != mid2 {
                        let msg = format!(
                            "load_config after maybe_load_config on the same object of {}: {} then {} ({})",
                            slot_name(i),
                            show_result(&base, &r1),
                            show_result(&base, &r2),
                            diff(&mid, &mid2)
                        );
                        self.fail("C43/load/unstable", msg);
                    }
                }
                (Ok(Ok(None)), Ok(Ok(Some(p)))) => {
                    self.check_protected(i, &mid, &mid2, "load_config (generate)");
                    let p = p.clone();
                    if let Some(id) = self.check_location(i, &p, &mid2, "load_config (generate)")
                        && mid.contains_key(&format!("cfg/d/{id}"))
                    {
                        self.fail(
                            "C43/load/adopts-existing-config",
                            format!("load_config generated id {id}, which already existed"),
                        );
                    }
                }
                (Ok(Err(_)), Ok(Err(_))) => {
                    if mid != mid2 {
                        let msg = format!("load_config after an error changed the tree: {}", diff(&mid, &mid2));
                        self.fail("C43/bad-id/side-effect", msg);
                    }
                }
                _ => {
                    let msg = format!(
                        "{}: maybe_load_config = {}, load_config = {}",
                        slot_name(i),
                        show_result(&base, &r1),
                        show_result(&base, &r2)
                    );
                    let sig = if matches!(r2, Err(_)) { "C43/panic" } else { "C43/load/unstable" };
                    self.fail(sig, msg);
                }
            }
        }
        let obj2 = SecureConfig::new_repo(dir);
        let r3: LoadResult = catch(|| obj2.load_config(&mut rng, &root).map(|l| l.config_file));
        if oracle {
            let post = snapshot(&base);
            // a fresh object right after a load: judged like any load; in addition the file
            // must be the one just returned
            self.judge_load(i, true, &mid2, &post, &r3, false);
            if let (Ok(Ok(Some(a))), Ok(Ok(Some(b)))) = (&r2, &r3)
                && (a != b || mid2 != post)
            {
                let msg = format!(
                    "two consecutive loads of the untouched {}: {} then {} ({})",
                    slot_name(i),
                    show_result(&base, &r2),
                    show_result(&base, &r3),
                    diff(&mid2, &post)
                );
                self.fail("C43/load/unstable", msg);
            }
        }
        match r3 {
            Ok(Ok(Some(p))) => {
                self.loaded[i] = true;
                Some(p)
            }
            _ => {
                self.loaded[i] = false;
                None
            }
        }
    }

    /// Applies one action. Returns false if it is not enabled.
    fn apply(&mut self, a: &A, oracle: bool) -> bool {
        let tree_has = |p: &Path| fs::symlink_metadata(p).is_ok();
        match a {
            A::Init(i) => {
                let d = self.repo_dir(*i);
                if tree_has(&d) {
                    return false;
                }
                fs::create_dir(&d).unwrap();
                self.loaded[*i] = false;
                self.observe_load(*i, oracle);
            }
            A::Load(i) => {
                if !tree_has(&self.repo_dir(*i)) {
                    return false;
                }
                self.observe_load(*i, oracle);
            }
            A::Copy(i, j) | A::Move(i, j) => {
                let (s, d) = (self.repo_dir(*i), self.repo_dir(*j));
                if i == j || !tree_has(&s) || tree_has(&d) {
                    return false;
                }
                if matches!(a, A::Copy(..)) {
                    copy_tree(&s, &d).unwrap();
                } else {
                    fs::rename(&s, &d).unwrap();
                    self.loaded[*i] = false;
                }
                self.loaded[*j] = false;
            }
            A::Delete(i) => {
                let d = self.repo_dir(*i);
                if !tree_has(&d) {
                    return false;
                }
                fs::remove_dir_all(&d).unwrap();
                self.loaded[*i] = false;
            }
            A::WriteId(i, src) => {
                let d = self.repo_dir(*i);
                if !tree_has(&d) {
                    return false;
                }
                let own = fs::read(d.join("config-id")).ok();
                let bytes: Vec<u8> = match src {
                    Src::From(j) => match fs::read(self.repo_dir(*j).join("config-id")) {
                        Ok(b) if i != j => b,
                        _ => return false,
                    },
                    Src::Fixed => FIXED.as_bytes().to_vec(),
                    Src::Traversal => TRAVERSAL.as_bytes().to_vec(),
                    Src::OwnNl => match &own {
                        Some(b) if well_formed(b) => [b.as_slice(), b"\n"].concat(),
                        _ => return false,
                    },
                };
                if own.as_deref() == Some(bytes.as_slice()) {
                    return false;
                }
                fs::write(d.join("config-id"), bytes).unwrap();
                self.loaded[*i] = false;
            }
            A::RmId(i) => {
                let f = self.repo_dir(*i).join("config-id");
                if !tree_has(&f) {
                    return false;
                }
                fs::remove_file(f).unwrap();
                self.loaded[*i] = false;
            }
            A::WriteCfg(i, c) => {
                if !tree_has(&self.repo_dir(*i)) {
                    return false;
                }
                if let Some(p) = self.observe_load(*i, oracle) {
                    let base = self.base.clone();
                    let before = if oracle { snapshot(&base) } else { Tree::new() };
                    fs::write(&p, CONTENTS[*c]).unwrap();
                    if oracle {
                        let after = snapshot(&base);
                        self.stats.write_isolation_checks.inc();
                        let mine = p.parent().unwrap().file_name().unwrap().to_string_lossy().to_string();
                        let mut equal_elsewhere = false;
                        for id in store_ids(&before) {
                            if id == mine {
                                continue;
                            }
                            if store_content(&before, &id) == store_content(&before, &mine) {
                                equal_elsewhere = true;
                            }
                            if store_content(&before, &id) != store_content(&after, &id) {
                                let msg = format!(
                                    "writing {:?} to the config of {} ({mine}) changed the config of store entry {id}",
                                    CONTENTS[*c],
                                    slot_name(*i)
                                );
                                self.fail("C43/write/visible-through-other-config", msg);
                            }
                        }
                        if equal_elsewhere {
                            self.stats.write_isolation_with_equal_content_elsewhere.inc();
                        }
                        for j in 0..NSLOTS {
                            if j != *i && subtree(&before, &slot_name(j)) != subtree(&after, &slot_name(j)) {
                                self.fail(
                                    "C43/write/visible-through-other-config",
                                    format!("writing the config of {} changed {}", slot_name(*i), slot_name(j)),
                                );
                            }
                        }
                    }
                }
            }
            A::WriteLegacy(i) => {
                let d = self.repo_dir(*i);
                if !tree_has(&d) {
                    return false;
                }
                let f = d.join("config.toml");
                if fs::symlink_metadata(&f).is_ok_and(|m| m.is_file())
                    && fs::read(&f).is_ok_and(|b| b == LEGACY_CONTENT.as_bytes())
                {
                    return false;
                }
                let _ = fs::remove_file(&f);
                fs::write(&f, LEGACY_CONTENT).unwrap();
            }
            A::RmStore(i) => {
                let Ok(b) = fs::read(self.repo_dir(*i).join("config-id")) else {
                    return false;
                };
                if !well_formed(&b) {
                    return false;
                }
                let dir = self.root.join(std::str::from_utf8(&b).unwrap());
                if !tree_has(&dir) {
                    return false;
                }
                fs::remove_dir_all(dir).unwrap();
                for k in 0..NSLOTS {
                    if fs::read(self.repo_dir(k).join("config-id")).is_ok_and(|x| x == b) {
                        self.loaded[k] = false;
                    }
                }
            }
        }
        true
    }

    /// Malformed config-id literals, tried in place on every existing repository.
    fn probe_malformed(&mut self) {
        let base = self.base.clone();
        let root = self.root.clone();
        let original = snapshot(&base);
        let abs = format!("{}/r1/evil", base.to_str().unwrap());
        let own_nl = |b: &Option<Vec<u8>>| -> Vec<u8> {
            match b {
                Some(b) if well_formed(b) => [b.as_slice(), b"\n"].concat(),
                _ => format!("{FIXED}\n").into_bytes(),
            }
        };
        for i in 0..NSLOTS {
            if !repo_exists(&original, i) {
                continue;
            }
            let id_path = self.repo_dir(i).join("config-id");
            let saved = fs::read(&id_path).ok();
            let literals: Vec<Vec<u8>> = vec![
                TRAVERSAL.as_bytes().to_vec(),
                abs.clone().into_bytes(),
                b"0123456789abcdef012".to_vec(),
                b"0123456789abcdef01234".to_vec(),
                b"gggggggggggggggggggg".to_vec(),
                own_nl(&saved),
                b" 123456789abcdef0123".to_vec(),
                b"".to_vec(),
                vec![0xff; 20],
                b"0123456789abcdef012/".to_vec(),
                b"./0123456789abcdef01".to_vec(),
                b"0123456789abcdef012\n".to_vec(),
                "０１２３４５６７８９0123456789".as_bytes().to_vec(),
            ];
            for lit in literals {
                fs::write(&id_path, &lit).unwrap();
                // the state with the literal in place = the original snapshot with one node
                // replaced
                let mut pre = original.clone();
                pre.insert(format!("{}/config-id", slot_name(i)), Node::File(lit.clone()));
                let mut results = vec![];
                for generate in [false, true] {
                    let mut rng = self.rng();
                    let obj = SecureConfig::new_repo(self.repo_dir(i));
                    let r: LoadResult = catch(|| {
                        if generate {
                            obj.load_config(&mut rng, &root).map(|l| l.config_file)
                        } else {
                            obj.maybe_load_config(&mut rng, &root).map(|l| l.config_file)
                        }
                    });
                    self.stats.probes.inc();
                    results.push((generate, r));
                }
                // results are judged per literal; side effects are looked for once per
                // repository (below), which keeps the number of tree walks small
                for (generate, r) in &results {
                    self.judge_load(i, *generate, &pre, &pre, r, false);
                }
            }
            match &saved {
                Some(b) => fs::write(&id_path, b).unwrap(),
                None => fs::remove_file(&id_path).unwrap(),
            }
            let after = snapshot(&base);
            if after != original {
                let msg = format!(
                    "loading {} with the malformed probe ids changed the tree: {}",
                    slot_name(i),
                    diff(&original, &after)
                );
                self.fail("C43/bad-id/side-effect", msg);
                return;
            }
        }
    }
}

fn diff(a: &Tree, b: &Tree) -> String {
    let mut out = vec![];
    for (k, v) in a {
        match b.get(k) {
            None => out.push(format!("-{k}")),
            Some(w) if w != v => out.push(format!("~{k}")),
            _ => {}
        }
    }
    for k in b.keys() {
        if !a.contains_key(k) {
            out.push(format!("+{k}"));
        }
    }
    if out.is_empty() { "no change".to_string() } else { out.join(" ") }
}

struct StepOut {
    key: String,
    actions: Vec<A>,
    violations: Vec<(String, String)>,
}

fn enabled_actions(tree: &Tree) -> Vec<A> {
    let mut v = vec![];
    let present: Vec<bool> = (0..NSLOTS).map(|i| repo_exists(tree, i)).collect();
    for i in 0..NSLOTS {
        if !present[i] {
            v.push(A::Init(i));
        }
    }
    for i in 0..NSLOTS {
        if present[i] {
            v.push(A::Load(i));
        }
    }
    for i in 0..NSLOTS {
        for j in 0..NSLOTS {
            if present[i] && !present[j] {
                v.push(A::Copy(i, j));
                v.push(A::Move(i, j));
            }
        }
    }
    for i in 0..NSLOTS {
        if !present[i] {
            continue;
        }
        v.push(A::Delete(i));
        for c in 0..CONTENTS.len() {
            v.push(A::WriteCfg(i, c));
        }
        let own = id_bytes(tree, i);
        for j in 0..NSLOTS {
            if j != i && present[j] && id_bytes(tree, j).is_some() && id_bytes(tree, j) != own {
                v.push(A::WriteId(i, Src::From(j)));
            }
        }
        if own != Some(FIXED.as_bytes()) {
            v.push(A::WriteId(i, Src::Fixed));
        }
        if own != Some(TRAVERSAL.as_bytes()) {
            v.push(A::WriteId(i, Src::Traversal));
        }
        if own.is_some_and(well_formed) {
            v.push(A::WriteId(i, Src::OwnNl));
        }
        if own.is_some() {
            v.push(A::RmId(i));
        }
        if tree.get(&format!("{}/config.toml", slot_name(i))) != Some(&Node::File(LEGACY_CONTENT.as_bytes().to_vec())) {
            v.push(A::WriteLegacy(i));
        }
        if let Some(b) = own
            && well_formed(b)
            && tree.contains_key(&format!("cfg/d/{}", String::from_utf8_lossy(b)))
        {
            v.push(A::RmStore(i));
        }
    }
    v
}

/// Replays `history` from scratch; oracles on the last action (and the malformed-id probes
/// in the reached state). `None` if the history is not executable.
fn step(scratch: &Path, stats: &Stats, history: &[A]) -> Option<StepOut> {
    let n = DIR_COUNTER.fetch_add(1, Ordering::Relaxed);
    let base = scratch.join(format!("w{n}"));
    let root = base.join("cfg").join("d");
    fs::create_dir_all(&root).unwrap_or_else(|e| vcommon::machinery_failure(&format!("mkdir: {e}")));
    let mut sim = Sim { base: base.clone(), root, loaded: [false; NSLOTS], pos: 0, stats, violations: vec![] };
    let mut ok = true;
    for (k, a) in history.iter().enumerate() {
        let last = k + 1 == history.len();
        if !sim.apply(a, last) {
            ok = false;
            break;
        }
    }
    let out = if ok {
        if !history.is_empty() {
            sim.probe_malformed();
        }
        let tree = snapshot(&base);
        Some(StepOut {
            key: canonical_key(&tree, &sim.loaded),
            actions: enabled_actions(&tree),
            violations: std::mem::take(&mut sim.violations),
        })
    } else {
        None
    };
    let _ = fs::remove_dir_all(&base);
    out
}

fn history_json(h: &[A]) -> Value {
    json!({"history": h.iter().map(|a| a.to_json()).collect::<Vec<_>>(),
           "layout": "scratch/{cfg/d = user per-repo config root, r1, r2, r3 = repository directories}"})
}

fn main() {
    let ctx = Ctx::from_args("C43", Level::ModelChecking);
    vcommon::silence_panics();
    let stats = Stats::default();
    if let Some((_sig, case)) = ctx.replay_case() {
        let history: Vec<A> = case["history"]
            .as_array()
            .unwrap_or_else(|| vcommon::machinery_failure("replay: no history"))
            .iter()
            .map(|v| A::from_json(v).unwrap_or_else(|| vcommon::machinery_failure("replay: bad action")))
            .collect();
        match step(ctx.scratch(), &stats, &history) {
            None => vcommon::machinery_failure("replay: history is not executable"),
            Some(o) => {
                for (sig, msg) in o.violations {
                    ctx.violation(&sig, msg, history_json(&history));
                }
            }
        }
        ctx.finish(Coverage { evaluations: 1, ..Default::default() });
    }

    // determinism gate: one fixed trace twice
    let gate = vec![
        A::Init(0),
        A::WriteCfg(0, 0),
        A::Copy(0, 1),
        A::Load(1),
        A::Move(0, 2),
        A::Load(2),
        A::RmId(1),
        A::WriteLegacy(1),
        A::Load(1),
    ];
    let g1 = step(ctx.scratch(), &Stats::default(), &gate).map(|o| (o.key, o.violations));
    let g2 = step(ctx.scratch(), &Stats::default(), &gate).map(|o| (o.key, o.violations));
    if g1.is_none() || g1 != g2 {
        vcommon::machinery_failure("determinism gate: the same history gave two different observations");
    }

    // measured under heavy machine load: depth 5 = 7.1e3 transitions (~13 s), depth 6 = 3.4e4
    // (~60 s), depth 7 ~ 1.7e5
    let depth = ctx.pick(5usize, 7usize);
    let cfg = bfs::BfsConfig {
        max_depth: depth,
        max_states: ctx.pick(2_000_000, 20_000_000),
        max_wall_s: ctx.pick(40.0, 780.0),
    };
    let scratch = ctx.scratch().to_path_buf();
    let st = bfs::search(
        &cfg,
        |h: &[A]| {
            let o = step(&scratch, &stats, h)?;
            if !o.violations.is_empty() {
                for (sig, msg) in &o.violations {
                    ctx.violation(sig, msg.clone(), history_json(h));
                }
            }
            Some(bfs::StepResult { key: o.key, actions: o.actions })
        },
        |a| a.label(),
    );
    if ctx.violation_count() == 0 {
        for (label, (n, newstates)) in &st.per_action {
            if *n > 0 && *newstates == 0 {
                vcommon::machinery_failure(&format!("vacuous alphabet: action {label} never reached a new state"));
            }
        }
        for (name, c) in [
            ("own", &stats.br_own),
            ("moved", &stats.br_moved),
            ("regenerated", &stats.br_regen),
            ("copy with live original", &stats.br_copy_live),
            ("migrated legacy config", &stats.br_migrate),
            ("malformed id", &stats.br_bad_id),
            ("split-off with content", &stats.split_with_content),
        ] {
            if c.get() == 0 {
                vcommon::machinery_failure(&format!("vacuous: no load took the '{name}' path"));
            }
        }
    }
    let nontrivial = stats.br_moved.get()
        + stats.br_regen.get()
        + stats.br_copy_live.get()
        + stats.br_copy_stale.get()
        + stats.br_migrate.get()
        + stats.br_bad_id.get();
    let _ = &stats.nontrivial;
    let samples: Vec<Value> = st.sample_histories.iter().map(|s| json!(s)).collect();
    let cov = Coverage {
        evaluations: st.transitions,
        distinct_nontrivial: nontrivial,
        rule: format!(
            "every history of <= {depth} actions (init, load, copy, move, delete, write_id from another repo / fixed valid id / \
             20-byte traversal / own id + newline, rm_id, write_config x2 contents, write_legacy, rm_store_entry) over 3 \
             repository slots, states merged on the canonical rendering of the scratch tree (ids relabelled, slots \
             permuted, unreferenced store entries dropped) plus the per-slot 'untouched since its last load' flag; each \
             history is executed once; non-trivial = histories whose last action is a load (init/load/write_config) of a \
             repository that was moved, copied (recorded location is another existing directory), lost its store entry, \
             had a legacy config to migrate, or holds a malformed id"
        ),
        samples,
        exhaustive: !st.capped && st.max_depth_completed >= depth,
        states: Some(st.states),
        transitions: Some(st.transitions),
        traces_validated_against_impl: Some(st.transitions),
        extra: [
            ("depth".to_string(), json!(depth)),
            ("max_depth_completed".to_string(), json!(st.max_depth_completed)),
            ("capped".to_string(), json!(st.capped)),
            ("invalid_histories".to_string(), json!(st.invalid)),
            ("per_depth_new_states".to_string(), json!(st.per_depth_states)),
            ("per_action_transitions_and_new_states".to_string(), json!(st.per_action)),
            ("load_observations".to_string(), json!(stats.load_obs.get())),
            (
                "load_paths".to_string(),
                json!({
                    "no_id_or_generated": stats.br_none.get(),
                    "legacy_migrated": stats.br_migrate.get(),
                    "malformed_id_in_history": stats.br_bad_id.get(),
                    "own_location": stats.br_own.get(),
                    "moved_location_gone": stats.br_moved.get(),
                    "store_entry_missing_regenerated": stats.br_regen.get(),
                    "copy_with_live_original": stats.br_copy_live.get(),
                    "copy_suspect_original_not_live": stats.br_copy_stale.get(),
                    "split_off_new_file": stats.split_off.get(),
                    "split_off_with_nonempty_original_config": stats.split_with_content.get(),
                }),
            ),
            ("malformed_id_probe_loads".to_string(), json!(stats.probes.get())),
            ("write_isolation_checks".to_string(), json!(stats.write_isolation_checks.get())),
            (
                "write_isolation_checks_with_equal_content_in_another_entry".to_string(),
                json!(stats.write_isolation_with_equal_content_elsewhere.get()),
            ),
        ]
        .into_iter()
        .collect(),
        assumptions: vec![
            "checks run as uid 0: a read-only copy (documented exception: it shares the original's file) cannot be produced and is not explored".into(),
            "repository directories are real directories (no symlink aliases, no bind mounts); the user config directory is not attacker-writable".into(),
            "soundness of merging: loads read only the repo's config-id / legacy file, the store entry named by the id and whether the recorded location is a directory; all of these are in the key".into(),
            format!("histories longer than {depth}, more than 3 repositories, workspace configs (same code, other file names) are not explored"),
        ],
        ..Default::default()
    };
    ctx.finish(cov);
}

//! C27 — Sparse patterns change the disk, never the commit.
//!
//! Explicit-state search over every sequence (up to a depth) of
//!   set_sparse_patterns(P) | user writes / deletes a file | snapshot | check_out(other tree)
//! on a real `LocalWorkingCopy` (TestWorkspace, Simple backend, tmpfs). A state is its
//! history; every step rebuilds the workspace from scratch, replays the history through the
//! real API, observes (disk, working-copy tree, patterns, recorded file states) before and after
//! the last action and checks that transition against a reference written with
//! `BTreeMap<path, entry>` and a ten-line prefix matcher:
//!
//! * `set_sparse_patterns(P')`: tree ids unchanged; every tree path entering the patterns is
//!   on disk with the tree's content (or left alone and counted as skipped when a user file
//!   is in the way); every tree path leaving is gone; every other file keeps inode, mtime and
//!   bytes; nothing else appears; the returned stats say the same.
//! * `snapshot`: every tree path outside the patterns keeps its value (in particular it is
//!   never recorded as deleted although it is not on disk); files on disk outside the patterns
//!   are not recorded; inside the patterns the tree becomes what is on disk.
//! * `check_out(T')`: nothing outside the patterns is touched or created; inside, the disk
//!   follows the tree diff; the working-copy tree becomes T'.

use std::collections::BTreeMap;
use std::collections::BTreeSet;
use std::ffi::CString;
use std::os::unix::ffi::OsStrExt as _;
use std::os::unix::fs::MetadataExt as _;
use std::os::unix::fs::PermissionsExt as _;
use std::path::Path;
use std::sync::Mutex;

use jj_lib::backend::TreeValue;
use jj_lib::config::ConfigLayer;
use jj_lib::config::ConfigSource;
use jj_lib::local_working_copy::LocalWorkingCopy;
use jj_lib::merged_tree::MergedTree;
use jj_lib::repo::Repo as _;
use jj_lib::repo_path::RepoPathBuf;
use jj_lib::settings::UserSettings;
use jj_lib::working_copy::CheckoutStats;
use pollster::FutureExt as _;
use serde_json::Value;
use serde_json::json;
use testutils::TestRepoBackend;
use testutils::TestTreeBuilder;
use testutils::TestWorkspace;
use testutils::commit_with_tree;
use testutils::repo_path;
use vcommon::Counter;
use vcommon::Coverage;
use vcommon::Ctx;
use vcommon::Level;
use vcommon::bfs::BfsConfig;
use vcommon::bfs::StepResult;
use vcommon::catch;
use vcommon::machinery_failure;

// ---------------------------------------------------------------------------------------
// entries, trees, patterns

#[derive(Clone, Debug, PartialEq, Eq, PartialOrd, Ord)]
enum Entry {
    File { content: String, exec: bool },
    Symlink { target: String },
}

impl Entry {
    fn show(&self) -> String {
        match self {
            Entry::File { content, exec } => format!("{}{:?}", if *exec { "x" } else { "" }, content),
            Entry::Symlink { target } => format!("->{target}"),
        }
    }
}

type TreeMap = BTreeMap<String, Entry>;

fn file(content: &str) -> Entry {
    Entry::File { content: content.to_string(), exec: false }
}

/// The tree alphabet. No path is a prefix of another one (file/directory replacement is
/// C24's subject), contents never have the size of a user edit.
fn tree_spec(name: &str) -> TreeMap {
    let mut t = TreeMap::new();
    match name {
        "TA" => {
            t.insert("f".into(), file("F1\n"));
            t.insert("a/x".into(), file("A1\n"));
            t.insert("a/l".into(), Entry::Symlink { target: "x".into() });
            t.insert("d/c".into(), file("C1\n"));
            t.insert("d/e".into(), Entry::File { content: "E1\n".into(), exec: true });
        }
        "TB" => {
            // f changed, a/x same, a/l gone, a/y new, d/c changed, d/e same
            t.insert("f".into(), file("F2+\n"));
            t.insert("a/x".into(), file("A1\n"));
            t.insert("a/y".into(), file("Y1\n"));
            t.insert("d/c".into(), file("C2+\n"));
            t.insert("d/e".into(), Entry::File { content: "E1\n".into(), exec: true });
        }
        "T0" => {}
        other => machinery_failure(&format!("unknown tree {other}")),
    }
    t
}

fn tree_to_json(t: &TreeMap) -> Value {
    Value::Object(t.iter().map(|(p, e)| (p.clone(), json!(e.show()))).collect())
}

fn pattern_sets() -> Vec<Vec<String>> {
    let s = |v: &[&str]| v.iter().map(|x| x.to_string()).collect::<Vec<_>>();
    vec![
        s(&[""]),
        s(&["a"]),
        s(&["d"]),
        s(&["d/c"]),
        s(&["f"]),
        s(&["a", "f"]),
        s(&["a", "d/c"]),
        s(&[]),
    ]
}

/// Prefix semantics of sparse patterns, written independently of jj's matchers.
fn in_patterns(patterns: &[String], path: &str) -> bool {
    patterns.iter().any(|q| {
        q.is_empty() || path == q || (path.len() > q.len() && path.starts_with(q.as_str()) && path.as_bytes()[q.len()] == b'/')
    })
}

// ---------------------------------------------------------------------------------------
// actions

#[derive(Clone, Debug, PartialEq, Eq)]
enum Action {
    SetSparse(Vec<String>),
    Write(String),
    Delete(String),
    /// the user replaces whatever is at the path (a directory with tracked files in it) by a file
    DirToFile(String),
    Snapshot,
    Checkout(String),
}

impl Action {
    fn label(&self) -> String {
        match self {
            Action::SetSparse(p) => format!("set_sparse[{}]", p.iter().map(|s| if s.is_empty() { "." } else { s }).collect::<Vec<_>>().join(",")),
            Action::Write(p) => format!("write:{p}"),
            Action::Delete(p) => format!("delete:{p}"),
            Action::DirToFile(p) => format!("dir_to_file:{p}"),
            Action::Snapshot => "snapshot".into(),
            Action::Checkout(t) => format!("check_out:{t}"),
        }
    }
    fn to_json(&self) -> Value {
        match self {
            Action::SetSparse(p) => json!({"op": "set_sparse_patterns", "patterns": p}),
            Action::Write(p) => json!({"op": "write", "path": p, "content": edit_content(p)}),
            Action::Delete(p) => json!({"op": "delete", "path": p}),
            Action::DirToFile(p) => json!({"op": "replace_by_file", "path": p, "content": edit_content(p)}),
            Action::Snapshot => json!({"op": "snapshot"}),
            Action::Checkout(t) => json!({"op": "check_out", "tree": t, "tree_content": tree_to_json(&tree_spec(t))}),
        }
    }
    fn from_json(v: &Value) -> Option<Action> {
        Some(match v["op"].as_str()? {
            "set_sparse_patterns" => Action::SetSparse(serde_json::from_value(v["patterns"].clone()).ok()?),
            "write" => Action::Write(v["path"].as_str()?.to_string()),
            "delete" => Action::Delete(v["path"].as_str()?.to_string()),
            "replace_by_file" => Action::DirToFile(v["path"].as_str()?.to_string()),
            "snapshot" => Action::Snapshot,
            "check_out" => Action::Checkout(v["tree"].as_str()?.to_string()),
            _ => return None,
        })
    }
}

fn edit_content(path: &str) -> String {
    format!("edited {path}\n")
}

const WRITE_PATHS: [&str; 4] = ["f", "a/x", "d/c", "d/n"];
const DELETE_PATHS: [&str; 2] = ["f", "d/c"];

fn alphabet(trees: &[&str]) -> Vec<Action> {
    let mut v = vec![];
    for p in pattern_sets() {
        v.push(Action::SetSparse(p));
    }
    for p in WRITE_PATHS {
        v.push(Action::Write(p.to_string()));
    }
    for p in DELETE_PATHS {
        v.push(Action::Delete(p.to_string()));
    }
    v.push(Action::DirToFile("d".to_string()));
    v.push(Action::Snapshot);
    for t in trees {
        v.push(Action::Checkout(t.to_string()));
    }
    v
}

// ---------------------------------------------------------------------------------------
// observing the real thing

#[derive(Clone, Debug, PartialEq, Eq)]
struct DiskEntry {
    entry: Entry,
    ino: u64,
    mtime_ns: i128,
}

#[derive(Clone, Debug, Default)]
struct Disk {
    files: BTreeMap<String, DiskEntry>,
    dirs: BTreeSet<String>,
}

fn walk(root: &Path, rel: &str, out: &mut Disk) {
    let dir = if rel.is_empty() { root.to_path_buf() } else { root.join(rel) };
    let mut names: Vec<_> = std::fs::read_dir(&dir)
        .unwrap_or_else(|e| machinery_failure(&format!("read_dir {}: {e}", dir.display())))
        .map(|e| e.unwrap().file_name().into_string().unwrap())
        .collect();
    names.sort();
    for name in names {
        if rel.is_empty() && name == ".jj" {
            continue;
        }
        let path = if rel.is_empty() { name.clone() } else { format!("{rel}/{name}") };
        let full = root.join(&path);
        let meta = full.symlink_metadata().unwrap_or_else(|e| machinery_failure(&format!("stat: {e}")));
        let mtime_ns = meta.mtime() as i128 * 1_000_000_000 + meta.mtime_nsec() as i128;
        if meta.is_dir() {
            out.dirs.insert(path.clone());
            walk(root, &path, out);
        } else if meta.file_type().is_symlink() {
            let target = std::fs::read_link(&full).unwrap().to_string_lossy().into_owned();
            out.files.insert(path, DiskEntry { entry: Entry::Symlink { target }, ino: meta.ino(), mtime_ns });
        } else {
            let content = String::from_utf8_lossy(&std::fs::read(&full).unwrap()).into_owned();
            let exec = meta.permissions().mode() & 0o111 != 0;
            out.files.insert(path, DiskEntry { entry: Entry::File { content, exec }, ino: meta.ino(), mtime_ns });
        }
    }
}

fn read_disk(root: &Path) -> Disk {
    let mut d = Disk::default();
    walk(root, "", &mut d);
    d
}

fn render_tree(tree: &MergedTree) -> TreeMap {
    let mut m = TreeMap::new();
    for (path, value) in tree.entries() {
        let value = value.unwrap_or_else(|e| machinery_failure(&format!("tree entry: {e}")));
        let p = path.as_internal_file_string().to_string();
        let e = match value.as_resolved() {
            Some(Some(TreeValue::File { id, executable, .. })) => Entry::File {
                content: String::from_utf8_lossy(&testutils::read_file(tree.store(), &path, id)).into_owned(),
                exec: *executable,
            },
            Some(Some(TreeValue::Symlink(id))) => Entry::Symlink {
                target: tree
                    .store()
                    .read_symlink(&path, id)
                    .block_on()
                    .unwrap_or_else(|e| machinery_failure(&format!("read_symlink: {e}"))),
            },
            other => Entry::File { content: format!("<unexpected tree value {other:?}>"), exec: false },
        };
        m.insert(p, e);
    }
    m
}

struct Obs {
    disk: Disk,
    tree: TreeMap,
    tree_ids: String,
    patterns: Vec<String>,
    /// recorded file states: path -> recorded (size, mtime) equal to the stat on disk
    states: BTreeMap<String, bool>,
}

fn observe(ws: &TestWorkspace) -> Obs {
    let root = ws.workspace.workspace_root().to_owned();
    let disk = read_disk(&root);
    let wc: &LocalWorkingCopy = ws
        .workspace
        .working_copy()
        .downcast_ref()
        .unwrap_or_else(|| machinery_failure("not a LocalWorkingCopy"));
    let tree = ws
        .workspace
        .working_copy()
        .tree()
        .unwrap_or_else(|e| machinery_failure(&format!("tree: {e}")))
        .clone();
    let patterns: Vec<String> = ws
        .workspace
        .working_copy()
        .sparse_patterns()
        .unwrap_or_else(|e| machinery_failure(&format!("sparse_patterns: {e}")))
        .iter()
        .map(|p| p.as_internal_file_string().to_string())
        .collect();
    let mut states = BTreeMap::new();
    for (path, st) in wc.file_states().unwrap_or_else(|e| machinery_failure(&format!("file_states: {e}"))) {
        let p = path.as_internal_file_string().to_string();
        let fresh = match disk.files.get(&p) {
            Some(d) => {
                let size = match &d.entry {
                    Entry::File { content, .. } => content.len() as u64,
                    Entry::Symlink { target } => target.len() as u64,
                };
                size == st.size && (d.mtime_ns.div_euclid(1_000_000)) as i64 == st.mtime.0
            }
            None => false,
        };
        states.insert(p, fresh);
    }
    Obs { disk, tree: render_tree(&tree), tree_ids: format!("{:?}", tree.tree_ids()), patterns, states }
}

fn canonical_key(o: &Obs) -> String {
    let disk: Vec<String> = o.disk.files.iter().map(|(p, e)| format!("{p}={}", e.entry.show())).collect();
    let tree: Vec<String> = o.tree.iter().map(|(p, e)| format!("{p}={}", e.show())).collect();
    let states: Vec<String> = o.states.iter().map(|(p, f)| format!("{p}:{}", if *f { "fresh" } else { "stale" })).collect();
    let mut pats = o.patterns.clone();
    pats.sort();
    format!("disk[{}] tree[{}] sparse{:?} states[{}]", disk.join(" "), tree.join(" "), pats, states.join(" "))
}

// ---------------------------------------------------------------------------------------
// driving the real thing

fn settings() -> UserSettings {
    let mut config = testutils::base_user_config();
    config.add_layer(
        ConfigLayer::parse(ConfigSource::User, "working-copy.exec-bit-change = \"respect\"\n")
            .unwrap_or_else(|e| machinery_failure(&format!("config: {e}"))),
    );
    UserSettings::from_config(config).unwrap_or_else(|e| machinery_failure(&format!("settings: {e}")))
}

fn build_tree(ws: &TestWorkspace, spec: &TreeMap) -> MergedTree {
    let store = ws.repo.store().clone();
    let mut b = TestTreeBuilder::new(store);
    for (p, e) in spec {
        match e {
            Entry::File { content, exec } => {
                b.file(repo_path(p), content).executable(*exec);
            }
            Entry::Symlink { target } => b.symlink(repo_path(p), target),
        }
    }
    b.write_merged_tree()
}

/// Harness-owned clock for user edits: 2023-11-14 plus one second per edit, so that a
/// user-written file never has the mtime jj recorded for it.
fn set_mtime(path: &Path, secs: i64) {
    let c = CString::new(path.as_os_str().as_bytes()).unwrap();
    let times = [
        libc::timespec { tv_sec: 0, tv_nsec: libc::UTIME_OMIT },
        libc::timespec { tv_sec: secs as libc::time_t, tv_nsec: 0 },
    ];
    // SAFETY: valid C string and a two-element timespec array
    let rc = unsafe { libc::utimensat(libc::AT_FDCWD, c.as_ptr(), times.as_ptr(), libc::AT_SYMLINK_NOFOLLOW) };
    if rc != 0 {
        machinery_failure(&format!("utimensat: {}", std::io::Error::last_os_error()));
    }
}

enum Outcome {
    None,
    Stats(CheckoutStats),
}

struct Failure {
    signature: String,
    message: String,
}

/// Executes one action on the real workspace. `tick` numbers the user edits.
fn execute(ws: &mut TestWorkspace, action: &Action, tick: i64) -> Result<Outcome, Failure> {
    let root = ws.workspace.workspace_root().to_owned();
    let op_id = ws.repo.op_id().clone();
    let fail = |what: &str, e: String| Failure {
        signature: format!("C27/{what}"),
        message: format!("{what} during {}: {e}", action.label()),
    };
    match action {
        Action::Write(p) => {
            let full = root.join(p);
            // a parent that is a file: the user cannot write there, nothing happens
            let mut dir = root.clone();
            let comps: Vec<&str> = p.split('/').collect();
            for c in &comps[..comps.len() - 1] {
                dir.push(c);
                if dir.symlink_metadata().is_ok_and(|m| !m.is_dir()) {
                    return Ok(Outcome::None);
                }
            }
            std::fs::create_dir_all(full.parent().unwrap()).unwrap_or_else(|e| machinery_failure(&format!("mkdir: {e}")));
            if full.symlink_metadata().is_ok_and(|m| m.file_type().is_symlink()) {
                std::fs::remove_file(&full).unwrap();
            }
            std::fs::write(&full, edit_content(p)).unwrap_or_else(|e| machinery_failure(&format!("write: {e}")));
            set_mtime(&full, 1_700_000_000 + tick);
            Ok(Outcome::None)
        }
        Action::Delete(p) => {
            let full = root.join(p);
            if full.symlink_metadata().is_ok() {
                std::fs::remove_file(&full).unwrap_or_else(|e| machinery_failure(&format!("rm: {e}")));
                // like `rmdir -p`
                let mut dir = full.parent().unwrap().to_path_buf();
                while dir != root && std::fs::remove_dir(&dir).is_ok() {
                    dir = dir.parent().unwrap().to_path_buf();
                }
            }
            Ok(Outcome::None)
        }
        Action::DirToFile(p) => {
            let full = root.join(p);
            match full.symlink_metadata() {
                Ok(m) if m.is_dir() => std::fs::remove_dir_all(&full).unwrap_or_else(|e| machinery_failure(&format!("rm -r: {e}"))),
                Ok(_) => std::fs::remove_file(&full).unwrap_or_else(|e| machinery_failure(&format!("rm: {e}"))),
                Err(_) => {}
            }
            std::fs::write(&full, edit_content(p)).unwrap_or_else(|e| machinery_failure(&format!("write: {e}")));
            set_mtime(&full, 1_700_000_000 + tick);
            Ok(Outcome::None)
        }
        Action::Snapshot => {
            catch(|| ws.snapshot())
                .map_err(|e| fail("snapshot/panic", e))?
                .map_err(|e| fail("snapshot/error", e.to_string()))?;
            Ok(Outcome::None)
        }
        Action::Checkout(t) => {
            let tree = build_tree(ws, &tree_spec(t));
            let commit = commit_with_tree(ws.repo.store(), tree);
            let stats = catch(|| ws.workspace.check_out(op_id, None, &commit).block_on())
                .map_err(|e| fail("check_out/panic", e))?
                .map_err(|e| fail("check_out/error", e.to_string()))?;
            Ok(Outcome::Stats(stats))
        }
        Action::SetSparse(p) => {
            let patterns: Vec<RepoPathBuf> = p.iter().map(|s| repo_path(s).to_owned()).collect();
            let stats = catch(|| {
                let mut locked = ws
                    .workspace
                    .start_working_copy_mutation()
                    .block_on()
                    .unwrap_or_else(|e| machinery_failure(&format!("lock: {e}")));
                let stats = locked.locked_wc().set_sparse_patterns(patterns).block_on();
                match stats {
                    Ok(stats) => {
                        locked
                            .finish(op_id)
                            .block_on()
                            .unwrap_or_else(|e| machinery_failure(&format!("finish: {e}")));
                        Ok(stats)
                    }
                    Err(e) => Err(e.to_string()),
                }
            })
            .map_err(|e| fail("set-sparse/panic", e))?
            .map_err(|e| fail("set-sparse/error", e))?;
            Ok(Outcome::Stats(stats))
        }
    }
}

// ---------------------------------------------------------------------------------------
// the reference: what a transition must look like

#[derive(Default)]
struct Tally {
    set_sparse_entering: Counter,
    set_sparse_leaving: Counter,
    set_sparse_both: Counter,
    set_sparse_blocked: Counter,
    set_sparse_untouched_files_checked: Counter,
    snapshot_with_outside_tree_paths_absent_from_disk: Counter,
    snapshot_with_user_file_outside: Counter,
    snapshot_inside_edit_recorded: Counter,
    snapshot_inside_deletion_recorded: Counter,
    checkout_with_outside_differences: Counter,
    checkout_blocked_inside: Counter,
    nontrivial: Counter,
    /// per action label: (#transitions, #transitions whose post-state differs from the pre-state)
    per_action_changed: Mutex<BTreeMap<String, (u64, u64)>>,
}

/// Is `p` below a file (which the update itself is not going to remove first)?
fn below_a_file(disk: &Disk, p: &str, removed_by_update: &dyn Fn(&str) -> bool) -> bool {
    let mut prefix = String::new();
    for comp in p.split('/') {
        if !prefix.is_empty() {
            if disk.files.contains_key(&prefix) && !removed_by_update(&prefix) {
                return true;
            }
            prefix.push('/');
        }
        prefix.push_str(comp);
    }
    false
}

/// Is something in the way of creating a file at `p`?
fn blocked(disk: &Disk, p: &str, removed_by_update: &dyn Fn(&str) -> bool) -> bool {
    disk.files.contains_key(p) || disk.dirs.contains(p) || below_a_file(disk, p, removed_by_update)
}

fn same_file(a: &DiskEntry, b: &DiskEntry) -> bool {
    a == b
}

fn check_transition(pre: &Obs, action: &Action, outcome: &Outcome, post: &Obs, tally: &Tally) -> Result<(), Failure> {
    let fail = |sig: &str, msg: String| {
        Err(Failure { signature: format!("C27/{sig}"), message: format!("{} — {msg}", action.label()) })
    };
    let mut pre_sorted = pre.patterns.clone();
    pre_sorted.sort();
    let mut post_sorted = post.patterns.clone();
    post_sorted.sort();
    match action {
        Action::Write(_) | Action::Delete(_) | Action::DirToFile(_) => Ok(()),
        Action::SetSparse(new_patterns) => {
            let Outcome::Stats(stats) = outcome else { machinery_failure("no stats") };
            let mut want = new_patterns.clone();
            want.sort();
            if post_sorted != want {
                return fail("set-sparse/patterns-not-stored", format!("patterns are {:?}", post.patterns));
            }
            if post.tree_ids != pre.tree_ids || post.tree != pre.tree {
                return fail(
                    "set-sparse/tree-changed",
                    format!("working-copy tree changed from {} {:?} to {} {:?}", pre.tree_ids, pre.tree, post.tree_ids, post.tree),
                );
            }
            let entering: Vec<&String> =
                pre.tree.keys().filter(|p| in_patterns(new_patterns, p) && !in_patterns(&pre.patterns, p)).collect();
            let leaving: Vec<&String> =
                pre.tree.keys().filter(|p| !in_patterns(new_patterns, p) && in_patterns(&pre.patterns, p)).collect();
            let mut n_blocked = 0u32;
            // a path that leaves is removed by the update even if the user changed the file
            let removed = |r: &str| leaving.iter().any(|l| l.as_str() == r);
            // leaving paths below a user file cannot be removed (there is nothing to remove)
            // (or: the user put a directory in their place, which jj leaves alone)
            let n_leaving_below_file = leaving
                .iter()
                .filter(|p| below_a_file(&pre.disk, p, &|_| false) || pre.disk.dirs.contains(p.as_str()))
                .count() as u32;
            for p in &entering {
                if blocked(&pre.disk, p, &removed) {
                    n_blocked += 1;
                    // a user file is in the way: it must survive
                    if let Some(d) = pre.disk.files.get(*p)
                        && post.disk.files.get(*p).is_none_or(|e| !same_file(e, d))
                    {
                        return fail(
                            "set-sparse/user-file-in-the-way-touched",
                            format!("{p}: was {:?}, now {:?}", d, post.disk.files.get(*p)),
                        );
                    }
                } else {
                    match post.disk.files.get(*p) {
                        Some(e) if e.entry == pre.tree[*p] => {}
                        other => {
                            return fail(
                                "set-sparse/entering-not-added",
                                format!(
                                    "{p} entered the patterns ({:?} -> {:?}) but the disk has {:?}, the tree {:?}",
                                    pre.patterns,
                                    new_patterns,
                                    other.map(|e| e.entry.show()),
                                    pre.tree[*p].show()
                                ),
                            );
                        }
                    }
                }
            }
            for p in &leaving {
                if let Some(e) = post.disk.files.get(*p) {
                    return fail(
                        "set-sparse/leaving-not-removed",
                        format!("{p} left the patterns ({:?} -> {:?}) but is still on disk: {}", pre.patterns, new_patterns, e.entry.show()),
                    );
                }
            }
            for (q, d) in &pre.disk.files {
                if entering.contains(&q) || leaving.contains(&q) {
                    continue;
                }
                tally.set_sparse_untouched_files_checked.inc();
                match post.disk.files.get(q) {
                    Some(e) if same_file(e, d) => {}
                    other => {
                        let sig = if pre.tree.contains_key(q) && in_patterns(&pre.patterns, q) {
                            "set-sparse/staying-file-touched"
                        } else {
                            "set-sparse/unrelated-file-touched"
                        };
                        return fail(sig, format!("{q}: was {d:?}, now {other:?} ({:?} -> {:?})", pre.patterns, new_patterns));
                    }
                }
            }
            for q in post.disk.files.keys() {
                if !pre.disk.files.contains_key(q) && !entering.contains(&q) {
                    return fail("set-sparse/unexpected-file-created", format!("{q} appeared ({:?} -> {:?})", pre.patterns, new_patterns));
                }
            }
            let expect = (entering.len() as u32, leaving.len() as u32, 0u32, n_blocked + n_leaving_below_file);
            let got = (stats.added_files, stats.removed_files, stats.updated_files, stats.skipped_files);
            if expect != got {
                return fail(
                    "set-sparse/stats",
                    format!(
                        "(added, removed, updated, skipped) = {got:?}, but {} paths entered ({n_blocked} blocked) and {} left \
                         ({:?} -> {:?})",
                        entering.len(),
                        leaving.len(),
                        pre.patterns,
                        new_patterns
                    ),
                );
            }
            if !entering.is_empty() {
                tally.set_sparse_entering.inc();
            }
            if !leaving.is_empty() {
                tally.set_sparse_leaving.inc();
            }
            if !entering.is_empty() && !leaving.is_empty() {
                tally.set_sparse_both.inc();
            }
            if n_blocked > 0 {
                tally.set_sparse_blocked.inc();
            }
            if !entering.is_empty() || !leaving.is_empty() {
                tally.nontrivial.inc();
            }
            Ok(())
        }
        Action::Snapshot => {
            if post_sorted != pre_sorted {
                return fail("snapshot/patterns-changed", format!("{:?} -> {:?}", pre.patterns, post.patterns));
            }
            let mut all: BTreeSet<&String> = pre.tree.keys().collect();
            all.extend(pre.disk.files.keys());
            all.extend(post.tree.keys());
            let mut outside_absent = false;
            let mut outside_user_file = false;
            let mut inside_edit = false;
            let mut inside_deletion = false;
            for p in all {
                let before = pre.tree.get(p);
                let after = post.tree.get(p);
                if in_patterns(&pre.patterns, p) {
                    let on_disk = pre.disk.files.get(p).map(|d| &d.entry);
                    if after != on_disk {
                        return fail(
                            "snapshot/inside-mismatch",
                            format!(
                                "{p} is inside the patterns {:?}: disk {:?}, tree before {:?}, tree after {:?}",
                                pre.patterns,
                                on_disk.map(Entry::show),
                                before.map(Entry::show),
                                after.map(Entry::show)
                            ),
                        );
                    }
                    if before.is_some() && after.is_none() {
                        inside_deletion = true;
                    } else if before != after {
                        inside_edit = true;
                    }
                } else {
                    if before.is_some() && !pre.disk.files.contains_key(p) {
                        outside_absent = true;
                    }
                    if pre.disk.files.get(p).is_some_and(|d| Some(&d.entry) != before) {
                        outside_user_file = true;
                    }
                    if before.is_some() && after.is_none() {
                        // special shape: the path is a file in the tree, and the user created a file
                        // below it (inside the patterns), which turns the path into a directory
                        let below: Vec<&String> = pre
                            .disk
                            .files
                            .keys()
                            .filter(|q| q.starts_with(&format!("{p}/")) && in_patterns(&pre.patterns, q))
                            .collect();
                        if !below.is_empty() {
                            return fail(
                                "snapshot/outside-recorded-as-deleted/new-file-inside-patterns-below-it",
                                format!(
                                    "{p} is a file in the tree ({:?}), outside the patterns {:?} and not on disk; the user created \
                                     {below:?} inside the patterns; the snapshot recorded those and silently dropped {p} from the tree",
                                    before.map(Entry::show),
                                    pre.patterns
                                ),
                            );
                        }
                        return fail(
                            "snapshot/outside-recorded-as-deleted",
                            format!("{p} is outside the patterns {:?} and was recorded as deleted (was {:?})", pre.patterns, before.map(Entry::show)),
                        );
                    }
                    if before != after {
                        return fail(
                            "snapshot/outside-changed",
                            format!(
                                "{p} is outside the patterns {:?} but its tree value changed from {:?} to {:?} (disk: {:?})",
                                pre.patterns,
                                before.map(Entry::show),
                                after.map(Entry::show),
                                pre.disk.files.get(p).map(|d| d.entry.show())
                            ),
                        );
                    }
                }
            }
            if outside_absent {
                tally.snapshot_with_outside_tree_paths_absent_from_disk.inc();
                tally.nontrivial.inc();
            }
            if outside_user_file {
                tally.snapshot_with_user_file_outside.inc();
            }
            if inside_edit {
                tally.snapshot_inside_edit_recorded.inc();
            }
            if inside_deletion {
                tally.snapshot_inside_deletion_recorded.inc();
            }
            Ok(())
        }
        Action::Checkout(t) => {
            let target = tree_spec(t);
            if post_sorted != pre_sorted {
                return fail("check_out/patterns-changed", format!("{:?} -> {:?}", pre.patterns, post.patterns));
            }
            if post.tree != target {
                return fail("check_out/tree-not-target", format!("tree is {:?}, wanted {:?}", post.tree, target));
            }
            let mut all: BTreeSet<&String> = pre.tree.keys().collect();
            all.extend(pre.disk.files.keys());
            all.extend(post.disk.files.keys());
            all.extend(target.keys());
            let mut outside_diff = false;
            let mut blocked_inside = false;
            let removed = |r: &str| in_patterns(&pre.patterns, r) && pre.tree.contains_key(r) && !target.contains_key(r);
            for p in all {
                let before = pre.tree.get(p);
                let after = target.get(p);
                let d_pre = pre.disk.files.get(p);
                let d_post = post.disk.files.get(p);
                if !in_patterns(&pre.patterns, p) {
                    if before != after {
                        outside_diff = true;
                    }
                    let same = match (d_pre, d_post) {
                        (None, None) => true,
                        (Some(a), Some(b)) => same_file(a, b),
                        _ => false,
                    };
                    if !same {
                        return fail(
                            "check_out/outside-touched",
                            format!("{p} is outside the patterns {:?}: disk was {d_pre:?}, now {d_post:?}", pre.patterns),
                        );
                    }
                } else if before == after {
                    let same = match (d_pre, d_post) {
                        (None, None) => true,
                        (Some(a), Some(b)) => same_file(a, b),
                        _ => false,
                    };
                    if !same {
                        return fail("check_out/unchanged-path-touched", format!("{p}: disk was {d_pre:?}, now {d_post:?}"));
                    }
                } else if (before.is_none() && blocked(&pre.disk, p, &removed)) || below_a_file(&pre.disk, p, &removed) {
                    // skipped: a user file is at the path or above it
                    blocked_inside = true;
                    let same = match (d_pre, d_post) {
                        (Some(a), Some(b)) => same_file(a, b),
                        (None, None) => true,
                        _ => false,
                    };
                    if !same {
                        return fail("check_out/user-file-in-the-way-touched", format!("{p}: disk was {d_pre:?}, now {d_post:?}"));
                    }
                } else if d_post.map(|d| &d.entry) != after {
                    return fail(
                        "check_out/inside-mismatch",
                        format!(
                            "{p} (patterns {:?}): tree {:?} -> {:?}, disk {:?} -> {:?}",
                            pre.patterns,
                            before.map(Entry::show),
                            after.map(Entry::show),
                            d_pre.map(|d| d.entry.show()),
                            d_post.map(|d| d.entry.show())
                        ),
                    );
                }
            }
            let _ = outcome;
            if outside_diff {
                tally.checkout_with_outside_differences.inc();
                tally.nontrivial.inc();
            }
            if blocked_inside {
                tally.checkout_blocked_inside.inc();
            }
            Ok(())
        }
    }
}

/// Tree paths the update `a` has to remove from disk but cannot reach, judged from the state
/// before it: a user file sits above them or a directory in their place.
fn unremovable(pre: &Obs, a: &Action) -> Vec<String> {
    let target;
    let goes: Box<dyn Fn(&str) -> bool> = match a {
        Action::SetSparse(new_patterns) => Box::new(move |p| !in_patterns(new_patterns, p)),
        Action::Checkout(t) => {
            target = tree_spec(t);
            Box::new(move |p| !target.contains_key(p))
        }
        _ => return vec![],
    };
    pre.tree
        .keys()
        .filter(|p| in_patterns(&pre.patterns, p) && goes(p))
        .filter(|p| below_a_file(&pre.disk, p, &|_| false) || pre.disk.dirs.contains(*p))
        .cloned()
        .collect()
}

/// Recognises the panic message of `assert_eq!(state_paths, tree_paths)` (two sets of quoted
/// repo paths) and returns (left, right).
fn parse_state_vs_tree_assertion(msg: &str) -> Option<(BTreeSet<String>, BTreeSet<String>)> {
    if !msg.contains("assertion `left == right` failed") || !msg.contains("local_working_copy.rs") {
        return None;
    }
    let set_after = |key: &str| -> Option<BTreeSet<String>> {
        let start = msg.find(key)? + key.len();
        let rest = &msg[start..];
        let open = rest.find('{')?;
        if !rest[..open].trim().is_empty() {
            return None;
        }
        let close = rest.find('}')?;
        let body = &rest[open + 1..close];
        let mut set = BTreeSet::new();
        for item in body.split(',') {
            let item = item.trim();
            if item.is_empty() {
                continue;
            }
            set.insert(item.strip_prefix('"')?.strip_suffix('"')?.to_string());
        }
        Some(set)
    };
    Some((set_after("left:")?, set_after("right:")?))
}

// ---------------------------------------------------------------------------------------
// one history

const INITIAL_TREE: &str = "TA";

fn case_json(history: &[Action]) -> Value {
    json!({
        "initial": {"check_out": INITIAL_TREE, "tree_content": tree_to_json(&tree_spec(INITIAL_TREE)), "patterns": [""]},
        "actions": history.iter().map(Action::to_json).collect::<Vec<_>>(),
    })
}

/// Rebuilds the workspace, replays `history`, checks its last transition. Returns the
/// canonical key of the reached state.
fn run_history(history: &[Action], tally: &Tally) -> Result<String, Failure> {
    let settings = settings();
    let mut ws = TestWorkspace::init_with_backend_and_settings(TestRepoBackend::Simple, &settings);
    {
        let tree = build_tree(&ws, &tree_spec(INITIAL_TREE));
        let commit = commit_with_tree(ws.repo.store(), tree);
        let op_id = ws.repo.op_id().clone();
        ws.workspace
            .check_out(op_id, None, &commit)
            .block_on()
            .unwrap_or_else(|e| machinery_failure(&format!("initial check_out: {e}")));
    }
    if history.is_empty() {
        let o = observe(&ws);
        if o.tree != tree_spec(INITIAL_TREE) || o.disk.files.iter().map(|(p, d)| (p.clone(), d.entry.clone())).collect::<TreeMap>() != o.tree {
            machinery_failure("the initial state is not the initial tree");
        }
        return Ok(canonical_key(&o));
    }
    let (prefix, last) = history.split_at(history.len() - 1);
    // tree paths whose removal an update of this history had to skip because the user put a
    // file above them (or a directory in their place)
    let mut skipped_removals: BTreeSet<String> = BTreeSet::new();
    for (i, a) in prefix.iter().enumerate() {
        if matches!(a, Action::SetSparse(_) | Action::Checkout(_)) {
            skipped_removals.extend(unremovable(&observe(&ws), a));
        }
        // every prefix was the last transition of a shorter history and was checked there
        if execute(&mut ws, a, i as i64).is_err() {
            machinery_failure(&format!("a prefix that succeeded before failed on replay: {:?}", prefix));
        }
    }
    let pre = observe(&ws);
    let outcome = execute(&mut ws, &last[0], prefix.len() as i64).map_err(|mut f| {
        if last[0] == Action::Snapshot
            && f.signature == "C27/snapshot/panic"
            && let Some((state_paths, tree_paths)) = parse_state_vs_tree_assertion(&f.message)
        {
            // jj's own debug assertion assert_eq!(state_paths, tree_paths): "recorded file states ==
            // tree paths inside the patterns". The narrow signature is for exactly one cause: the
            // surplus states are paths whose removal was skipped earlier in this history.
            let surplus: BTreeSet<String> = state_paths.difference(&tree_paths).cloned().collect();
            if !surplus.is_empty() && tree_paths.is_subset(&state_paths) && surplus.is_subset(&skipped_removals) {
                f.signature = "C27/snapshot/panic/stale-file-state-after-skipped-removal".into();
                f.message = format!(
                    "{} — jj still has file states for {surplus:?}; an earlier update of this history skipped the removal of \
                     exactly these paths (a user file above them) and left a placeholder state behind; patterns now {:?}",
                    f.message, pre.patterns
                );
            }
        }
        if let Action::SetSparse(new_patterns) = &last[0]
            && f.signature == "C27/set-sparse/panic"
        {
            // which leaving paths could not be removed because the user put a file above them?
            let stuck: Vec<&String> = pre
                .tree
                .keys()
                .filter(|p| in_patterns(&pre.patterns, p) && !in_patterns(new_patterns, p))
                .filter(|p| below_a_file(&pre.disk, p, &|_| false) || pre.disk.dirs.contains(*p))
                .collect();
            if !stuck.is_empty() && f.message.contains("assertion `left == right` failed") {
                f.signature = "C27/set-sparse/panic/leaving-path-cannot-be-removed".into();
                f.message = format!(
                    "{} — paths {stuck:?} leave the patterns ({:?} -> {new_patterns:?}) but lie below a file the user put there;                      set_sparse_patterns panics after it has already changed the disk, nothing is saved",
                    f.message, pre.patterns
                );
            }
        }
        f
    })?;
    let post = observe(&ws);
    check_transition(&pre, &last[0], &outcome, &post, tally)?;
    let key = canonical_key(&post);
    {
        let mut m = tally.per_action_changed.lock().unwrap();
        let e = m.entry(last[0].label()).or_insert((0, 0));
        e.0 += 1;
        if key != canonical_key(&pre) {
            e.1 += 1;
        }
    }
    Ok(key)
}

fn main() {
    let ctx = Ctx::from_args("C27", Level::ModelChecking);
    vcommon::silence_panics();
    if let Some((_sig, case)) = ctx.replay_case() {
        let actions: Vec<Action> = case["actions"]
            .as_array()
            .unwrap_or_else(|| machinery_failure("replay file has no actions"))
            .iter()
            .map(|v| Action::from_json(v).unwrap_or_else(|| machinery_failure("bad action in replay file")))
            .collect();
        let tally = Tally::default();
        // check every transition of the trace, not only the last one
        for n in 1..=actions.len() {
            if let Err(f) = run_history(&actions[..n], &tally) {
                ctx.violation(&f.signature, f.message, case_json(&actions[..n]));
                break;
            }
        }
        ctx.finish(Coverage { evaluations: actions.len() as u64, ..Default::default() });
    }

    let depth = ctx.pick(3, 6);
    let trees: Vec<&str> = ctx.pick(vec!["TA", "TB"], vec!["TA", "TB", "T0"]);
    let actions = alphabet(&trees);
    let tally = Tally::default();
    let failed: Mutex<BTreeSet<String>> = Mutex::new(BTreeSet::new());

    // determinism gate: the same history twice
    {
        let probe = vec![Action::SetSparse(vec!["a".into()]), Action::Write("f".into()), Action::Snapshot];
        let t = Tally::default();
        let k1 = run_history(&probe, &t).map_err(|f| f.signature);
        let k2 = run_history(&probe, &t).map_err(|f| f.signature);
        if k1 != k2 {
            machinery_failure(&format!("nondeterministic replay: {k1:?} vs {k2:?}"));
        }
    }

    let cfg = BfsConfig { max_depth: depth, max_states: 5_000_000, max_wall_s: ctx.pick(50.0, 1200.0) };
    let stats = vcommon::bfs::search(
        &cfg,
        |history: &[Action]| match run_history(history, &tally) {
            Ok(key) => Some(StepResult { key, actions: actions.clone() }),
            Err(f) => {
                ctx.violation(&f.signature, f.message, case_json(history));
                failed.lock().unwrap().insert(f.signature);
                None
            }
        },
        |a| a.label(),
    );

    // vacuity: every action of the alphabet must have changed the state at least once
    // (set_sparse[.] and check_out:TA lead back to states that were reached earlier, so "found a
    // globally new state" would be the wrong criterion)
    let per_action_changed = tally.per_action_changed.lock().unwrap().clone();
    let mut dead_actions = vec![];
    for a in &actions {
        match per_action_changed.get(&a.label()) {
            Some((_, changed)) if *changed > 0 => {}
            _ => dead_actions.push(a.label()),
        }
    }
    if ctx.violation_count() == 0 {
        if !dead_actions.is_empty() {
            machinery_failure(&format!("actions that never produced a new state: {dead_actions:?}"));
        }
        for (name, c) in [
            ("set_sparse with entering paths", &tally.set_sparse_entering),
            ("set_sparse with leaving paths", &tally.set_sparse_leaving),
            ("set_sparse blocked by a user file", &tally.set_sparse_blocked),
            ("snapshot with tree paths outside the patterns absent from disk", &tally.snapshot_with_outside_tree_paths_absent_from_disk),
            ("snapshot with a user file outside the patterns", &tally.snapshot_with_user_file_outside),
            ("snapshot recording an edit inside the patterns", &tally.snapshot_inside_edit_recorded),
            ("snapshot recording a deletion inside the patterns", &tally.snapshot_inside_deletion_recorded),
            ("check_out whose trees differ outside the patterns", &tally.checkout_with_outside_differences),
        ] {
            if c.get() == 0 {
                machinery_failure(&format!("vacuous: no transition with: {name}"));
            }
        }
    }

    let mut extra: BTreeMap<String, Value> = BTreeMap::new();
    extra.insert("max_depth".into(), json!(depth));
    extra.insert("max_depth_completed".into(), json!(stats.max_depth_completed));
    extra.insert("capped".into(), json!(stats.capped));
    extra.insert("alphabet".into(), json!(actions.iter().map(Action::label).collect::<Vec<_>>()));
    extra.insert("trees".into(), json!(trees.iter().map(|t| (t.to_string(), tree_to_json(&tree_spec(t)))).collect::<BTreeMap<_, _>>()));
    extra.insert("states_per_depth".into(), json!(stats.per_depth_states));
    extra.insert("histories_rejected_by_the_oracle".into(), json!(stats.invalid));
    extra.insert(
        "per_action_transitions_and_state_changing_transitions".into(),
        json!(per_action_changed.iter().map(|(k, v)| (k.clone(), json!([v.0, v.1]))).collect::<BTreeMap<_, _>>()),
    );
    extra.insert(
        "per_action_transitions_and_new_states".into(),
        json!(stats.per_action.iter().map(|(k, v)| (k.clone(), json!([v.0, v.1]))).collect::<BTreeMap<_, _>>()),
    );
    let t = &tally;
    extra.insert(
        "vacuity".into(),
        json!({
            "set_sparse_transitions_with_entering_paths": t.set_sparse_entering.get(),
            "set_sparse_transitions_with_leaving_paths": t.set_sparse_leaving.get(),
            "set_sparse_transitions_with_both": t.set_sparse_both.get(),
            "set_sparse_transitions_blocked_by_a_user_file": t.set_sparse_blocked.get(),
            "files_checked_for_same_inode_mtime_bytes_across_set_sparse": t.set_sparse_untouched_files_checked.get(),
            "snapshot_transitions_with_tree_paths_outside_patterns_absent_from_disk": t.snapshot_with_outside_tree_paths_absent_from_disk.get(),
            "snapshot_transitions_with_user_file_outside_patterns": t.snapshot_with_user_file_outside.get(),
            "snapshot_transitions_recording_an_edit_inside": t.snapshot_inside_edit_recorded.get(),
            "snapshot_transitions_recording_a_deletion_inside": t.snapshot_inside_deletion_recorded.get(),
            "check_out_transitions_whose_trees_differ_outside_patterns": t.checkout_with_outside_differences.get(),
            "check_out_transitions_blocked_by_a_user_file_inside": t.checkout_blocked_inside.get(),
        }),
    );
    println!(
        "[C27] depth={} states={} transitions={} per-depth={:?} capped={} vacuity={}",
        stats.max_depth_completed,
        stats.states,
        stats.transitions,
        stats.per_depth_states,
        stats.capped,
        extra["vacuity"]
    );
    let cov = Coverage {
        evaluations: stats.transitions + stats.invalid,
        distinct_nontrivial: tally.nontrivial.get(),
        rule: format!(
            "every sequence of length <= {depth} over the {}-action alphabet from the state 'TA checked out, patterns = root' \
             (sequences are not extended past an already seen canonical state); each sequence is executed once and its last \
             transition is checked; non-trivial = the last transition is a set_sparse_patterns with at least one entering or \
             leaving tree path, a snapshot while tree paths outside the patterns are absent from disk, or a check_out whose \
             trees differ outside the patterns",
            actions.len()
        ),
        samples: stats.sample_histories.iter().map(|h| json!(h)).collect(),
        exhaustive: !stats.capped,
        states: Some(stats.states),
        transitions: Some(stats.transitions),
        traces_validated_against_impl: Some(stats.transitions),
        extra,
        assumptions: vec![
            "canonical state = files on disk (bytes, exec bit, link target), working-copy tree, sparse patterns, and per \
             recorded file state whether it still matches the stat; two histories with the same canonical state have the \
             same futures because the working copy reads nothing else"
                .into(),
            "user edits carry harness-chosen mtimes in the past, so racy-timestamp effects (C26) do not influence the search".into(),
            "no path of the tree alphabet is a prefix of another (file/directory replacement belongs to C24/C25); no ignore \
             files; default snapshot options (auto-track everything inside the patterns)"
                .into(),
        ],
        ..Default::default()
    };
    ctx.finish(cov);
}

//! C04 — File content merge obeys the merge identity laws.
//!
//! Bounded-exhaustive over every 3-, 5- and 7-term merge whose terms are drawn from small
//! pools of files (every sequence of lines up to a length over a small line alphabet, the
//! same without final newline, two binary files, and files whose lines consist of several
//! words), crossed with line/word hunk granularity and both same-change settings, through
//! the three entry points `files::merge`, `files::merge_hunks` and `files::try_merge`.
//!
//! Oracle: (1) identity law from the counting rule on whole-file values, (2) shape,
//! (3) an independent re-derivation of the result hunk by hunk from the line diff of the
//! inputs (the diff layer is decided by C03) and the counting rule, (4) consistency of the
//! three entry points.

use std::collections::BTreeSet;

use jj_core::diff::ContentDiff;
use jj_lib::files;
use jj_lib::files::FileMergeHunkLevel;
use jj_lib::files::MergeResult;
use jj_lib::merge::Merge;
use jj_lib::merge::SameChange;
use jj_lib::tree_merge::MergeOptions;
use rayon::prelude::*;
use serde_json::Value;
use serde_json::json;
use vcommon::Counter;
use vcommon::Coverage;
use vcommon::Ctx;
use vcommon::Level;
use vcommon::Samples;
use vcommon::catch;

type Bytes = Vec<u8>;
type Fail = (String, String);

#[derive(Clone, Copy, PartialEq, Eq, Debug)]
struct Config {
    level: FileMergeHunkLevel,
    same_change: SameChange,
}

impl Config {
    fn level_name(self) -> &'static str {
        match self.level {
            FileMergeHunkLevel::Line => "line",
            FileMergeHunkLevel::Word => "word",
        }
    }
    fn sc_name(self) -> &'static str {
        match self.same_change {
            SameChange::Keep => "keep",
            SameChange::Accept => "accept",
        }
    }
    fn options(self) -> MergeOptions {
        MergeOptions { hunk_level: self.level, same_change: self.same_change }
    }
    fn all() -> Vec<Config> {
        let mut v = vec![];
        for level in [FileMergeHunkLevel::Line, FileMergeHunkLevel::Word] {
            for same_change in [SameChange::Keep, SameChange::Accept] {
                v.push(Config { level, same_change });
            }
        }
        v
    }
}

fn show(b: &[u8]) -> String {
    format!("{:?}", bstr::BStr::new(b))
}

fn show_all<T: AsRef<[u8]>>(v: &[T]) -> String {
    format!("[{}]", v.iter().map(|t| show(t.as_ref())).collect::<Vec<_>>().join(", "))
}

// ---------------------------------------------------------------------------------------
// The counting rule (same definition as C02's reference), on byte strings
// ---------------------------------------------------------------------------------------

#[derive(Debug, PartialEq, Eq, Clone, Copy)]
enum Expect {
    /// must resolve to the term with this index
    Must(usize),
    /// the statement allows resolving to this term or leaving the conflict
    May(usize),
    MustNot,
}

/// `terms` is the interleaved list add0, remove0, add1, remove1, ..., addN.
fn counting_rule(terms: &[&[u8]], same_change: SameChange) -> Expect {
    let mut vals: Vec<&[u8]> = terms.to_vec();
    vals.sort();
    vals.dedup();
    let mut pos: Vec<(&[u8], i32)> = vec![];
    let mut neg: Vec<(&[u8], i32)> = vec![];
    for v in vals {
        let adds = terms.iter().step_by(2).filter(|t| **t == v).count() as i32;
        let removes = terms.iter().skip(1).step_by(2).filter(|t| **t == v).count() as i32;
        let c = adds - removes;
        if c > 0 {
            pos.push((v, c));
        } else if c < 0 {
            neg.push((v, -c));
        }
    }
    let index_of = |v: &[u8]| {
        // index of the first side with that value
        (0..terms.len()).step_by(2).find(|&i| terms[i] == v).unwrap()
    };
    let total_pos: i32 = pos.iter().map(|p| p.1).sum();
    if total_pos == 1 {
        if !neg.is_empty() {
            vcommon::machinery_failure("counting rule: one remaining side but remaining bases");
        }
        return Expect::Must(index_of(pos[0].0));
    }
    if same_change == SameChange::Accept && pos.len() == 1 {
        if neg.len() == 1 {
            return Expect::Must(index_of(pos[0].0));
        }
        return Expect::May(index_of(pos[0].0));
    }
    Expect::MustNot
}

// ---------------------------------------------------------------------------------------
// Reference derivation of the merge result
// ---------------------------------------------------------------------------------------

/// A piece of a merge result: resolved text, or one text per input term.
#[derive(Debug, PartialEq, Eq, Clone)]
enum Seg {
    Resolved(Bytes),
    Conflict(Vec<Bytes>),
}

/// Canonical form of a list of pieces: adjacent resolved pieces are concatenated, empty
/// resolved pieces dropped. (How resolved text is chunked is not part of the statement.)
fn canonical(segs: Vec<Seg>) -> Vec<Seg> {
    let mut out: Vec<Seg> = vec![];
    for s in segs {
        match s {
            Seg::Resolved(t) => {
                if t.is_empty() {
                    continue;
                }
                if let Some(Seg::Resolved(prev)) = out.last_mut() {
                    prev.extend_from_slice(&t);
                } else {
                    out.push(Seg::Resolved(t));
                }
            }
            c => out.push(c),
        }
    }
    out
}

#[derive(Default, Clone, Copy)]
struct RefInfo {
    line_hunks: usize,
    disagreeing_hunks: usize,
    may_hunks: usize,
    word_attempts: usize,
    word_rescued: usize,
}

/// Interleaves the slices of one diff hunk (inputs were given as removes ++ adds) back into
/// term order add0, remove0, add1, ...
fn interleave<'a>(contents: &[&'a [u8]], num_removes: usize) -> Vec<&'a [u8]> {
    let (removes, adds) = contents.split_at(num_removes);
    let mut out = Vec::with_capacity(contents.len());
    for i in 0..adds.len() {
        out.push(adds[i]);
        if i < removes.len() {
            out.push(removes[i]);
        }
    }
    out
}

fn apply_rule(terms: &[&[u8]], sc: SameChange, may_resolves: bool, may_seen: &mut usize) -> Option<Bytes> {
    match counting_rule(terms, sc) {
        Expect::Must(i) => Some(terms[i].to_vec()),
        Expect::May(i) => {
            *may_seen += 1;
            may_resolves.then(|| terms[i].to_vec())
        }
        Expect::MustNot => None,
    }
}

/// Re-derives the pieces of the merge: split the inputs with the line diff, apply the
/// counting rule to every hunk, (word level) try to resolve each unresolved hunk completely
/// with the word diff, keep everything in input order.
fn reference(terms: &[Bytes], cfg: Config, may_resolves: bool) -> (Vec<Seg>, RefInfo) {
    let n = terms.len();
    let num_removes = n / 2;
    let removes: Vec<&[u8]> = terms.iter().skip(1).step_by(2).map(|t| &t[..]).collect();
    let adds: Vec<&[u8]> = terms.iter().step_by(2).map(|t| &t[..]).collect();
    let inputs: Vec<&[u8]> = removes.iter().chain(adds.iter()).copied().collect();
    let mut info = RefInfo::default();
    let mut segs = vec![];
    let diff = ContentDiff::by_line(inputs.iter().copied());
    for hunk in diff.hunks() {
        info.line_hunks += 1;
        let contents: Vec<&[u8]> = hunk.contents.iter().map(|c| AsRef::<[u8]>::as_ref(*c)).collect();
        let hterms = interleave(&contents, num_removes);
        if hterms.iter().any(|t| *t != hterms[0]) {
            info.disagreeing_hunks += 1;
        }
        if let Some(text) = apply_rule(&hterms, cfg.same_change, may_resolves, &mut info.may_hunks) {
            segs.push(Seg::Resolved(text));
            continue;
        }
        if cfg.level == FileMergeHunkLevel::Word {
            info.word_attempts += 1;
            let wdiff = ContentDiff::by_word(contents.iter().copied());
            let mut text = vec![];
            let mut all = true;
            for whunk in wdiff.hunks() {
                let wcontents: Vec<&[u8]> = whunk.contents.iter().map(|c| AsRef::<[u8]>::as_ref(*c)).collect();
                let wterms = interleave(&wcontents, num_removes);
                match apply_rule(&wterms, cfg.same_change, may_resolves, &mut info.may_hunks) {
                    Some(t) => text.extend_from_slice(&t),
                    None => {
                        all = false;
                        break;
                    }
                }
            }
            if all {
                info.word_rescued += 1;
                segs.push(Seg::Resolved(text));
                continue;
            }
        }
        segs.push(Seg::Conflict(hterms.iter().map(|t| t.to_vec()).collect()));
    }
    (canonical(segs), info)
}

// ---------------------------------------------------------------------------------------
// Oracle
// ---------------------------------------------------------------------------------------

#[derive(Default, Clone, Copy)]
struct Info {
    nontrivial: bool,
    identity_must: bool,
    identity_must_multi_hunk: bool,
    identity_via_same_change: bool,
    identical_sides_distinct_bases_unresolved: bool,
    resolved_by_hunks: bool,
    conflict: bool,
    partial_conflict: bool,
    may_hunks: usize,
    word_rescued: usize,
    word_not_rescued: usize,
}

fn check(terms: &[Bytes], cfg: Config) -> Result<Info, Fail> {
    let n = terms.len();
    let tag = format!("{}/{}", cfg.level_name(), cfg.sc_name());
    let ctxt = || format!("[{}; {}] terms (add0, remove0, add1, ...) {}", cfg.level_name(), cfg.sc_name(), show_all(terms));
    let input: Merge<Bytes> = Merge::from_vec(terms.to_vec());
    let options = cfg.options();

    let merged = catch(|| files::merge(&input, &options))
        .map_err(|e| (format!("C04/panic/merge/{tag}"), format!("files::merge panicked: {e} {}", ctxt())))?;
    let hunks = catch(|| files::merge_hunks(&input, &options))
        .map_err(|e| (format!("C04/panic/merge_hunks/{tag}"), format!("files::merge_hunks panicked: {e} {}", ctxt())))?;
    let tried = catch(|| files::try_merge(&input, &options))
        .map_err(|e| (format!("C04/panic/try_merge/{tag}"), format!("files::try_merge panicked: {e} {}", ctxt())))?;

    let mut info = Info::default();

    // (2) shape
    if !merged.is_resolved() && merged.as_slice().len() != n {
        return Err((
            format!("C04/shape/merge/{tag}"),
            format!("files::merge returned {} terms for {} input terms {}", merged.as_slice().len(), n, ctxt()),
        ));
    }
    let actual_segs: Vec<Seg> = match &hunks {
        MergeResult::Resolved(text) => vec![Seg::Resolved(text.to_vec())],
        MergeResult::Conflict(list) => {
            let mut segs = vec![];
            let mut unresolved = 0;
            for (i, h) in list.iter().enumerate() {
                if let Some(text) = h.as_resolved() {
                    segs.push(Seg::Resolved(text.to_vec()));
                } else {
                    unresolved += 1;
                    if h.as_slice().len() != n {
                        return Err((
                            format!("C04/shape/merge_hunks/{tag}"),
                            format!("hunk {i} of files::merge_hunks has {} terms for {} input terms {}", h.as_slice().len(), n, ctxt()),
                        ));
                    }
                    segs.push(Seg::Conflict(h.iter().map(|t| t.to_vec()).collect()));
                }
            }
            if unresolved == 0 {
                return Err((
                    format!("C04/shape/merge_hunks/{tag}"),
                    format!("files::merge_hunks returned Conflict without an unresolved hunk {}", ctxt()),
                ));
            }
            segs
        }
    };
    let actual = canonical(actual_segs);
    let actual_resolved: Option<Bytes> = if actual.iter().all(|s| matches!(s, Seg::Resolved(_))) {
        Some(actual.iter().flat_map(|s| match s {
            Seg::Resolved(t) => t.clone(),
            Seg::Conflict(_) => unreachable!(),
        }).collect())
    } else {
        None
    };

    // (4) the three entry points describe the same result
    let expected_merged: Vec<Bytes> = match &actual_resolved {
        Some(text) => vec![text.clone()],
        None => (0..n)
            .map(|i| {
                let mut t = vec![];
                for s in &actual {
                    match s {
                        Seg::Resolved(r) => t.extend_from_slice(r),
                        Seg::Conflict(c) => t.extend_from_slice(&c[i]),
                    }
                }
                t
            })
            .collect(),
    };
    let merged_terms: Vec<Bytes> = merged.iter().map(|t| t.to_vec()).collect();
    if merged_terms != expected_merged {
        return Err((
            format!("C04/entry-points/merge-vs-merge_hunks/{tag}"),
            format!("files::merge = {} but concatenating files::merge_hunks gives {} {}", show_all(&merged_terms), show_all(&expected_merged), ctxt()),
        ));
    }
    if tried.as_ref().map(|t| t.to_vec()) != actual_resolved {
        return Err((
            format!("C04/entry-points/try_merge-vs-merge_hunks/{tag}"),
            format!(
                "files::try_merge = {:?} but files::merge_hunks resolved = {:?} {}",
                tried.as_ref().map(|t| show(t)),
                actual_resolved.as_ref().map(|t| show(t)),
                ctxt()
            ),
        ));
    }

    // (1) identity law on whole-file values
    let term_refs: Vec<&[u8]> = terms.iter().map(|t| &t[..]).collect();
    let whole = counting_rule(&term_refs, cfg.same_change);
    if let Expect::Must(i) = whole {
        if actual_resolved.as_deref() != Some(&terms[i][..]) {
            let one_side = {
                // distinguishes "cancels to one side" from "all sides made the same change"
                counting_rule(&term_refs, SameChange::Keep) == whole
            };
            return Err((
                format!("C04/identity/{}/{tag}/arity{n}", if one_side { "one-remaining-side" } else { "same-change" }),
                format!(
                    "the terms cancel to {} but the merge gives {} {}",
                    show(&terms[i]),
                    match &actual_resolved {
                        Some(t) => format!("resolved {}", show(t)),
                        None => format!("a conflict {}", show_all(&merged_terms)),
                    },
                    ctxt()
                ),
            ));
        }
    }

    // (3) hunk-by-hunk re-derivation
    let (ref_a, rinfo) = reference(terms, cfg, false);
    let ok = if actual == ref_a {
        true
    } else if rinfo.may_hunks > 0 {
        let (ref_b, _) = reference(terms, cfg, true);
        actual == ref_b
    } else {
        false
    };
    if !ok {
        // "resolution": resolved vs conflict, or the resolved text, differs from the rule;
        // "conflict-content": both are conflicts at the same places but the texts differ
        let ref_resolved = ref_a.iter().all(|s| matches!(s, Seg::Resolved(_)));
        let kind = if ref_resolved || actual_resolved.is_some() { "resolution" } else { "conflict-content" };
        return Err((
            format!("C04/reference/{kind}/{tag}/arity{n}"),
            format!("files::merge_hunks gives {:?} but the hunk-wise cancellation rule gives {:?} {}", describe(&actual), describe(&ref_a), ctxt()),
        ));
    }

    // bookkeeping
    let all_equal = terms.iter().all(|t| *t == terms[0]);
    info.nontrivial = rinfo.line_hunks >= 2 && rinfo.disagreeing_hunks >= 1;
    if let Expect::Must(_) = whole {
        if n >= 3 && !all_equal {
            info.identity_must = true;
            info.identity_must_multi_hunk = info.nontrivial;
            info.identity_via_same_change = counting_rule(&term_refs, SameChange::Keep) != whole;
        }
    } else if actual_resolved.is_some() {
        info.resolved_by_hunks = true;
    }
    if let Expect::May(_) = whole {
        if actual_resolved.is_none() {
            info.identical_sides_distinct_bases_unresolved = true;
        }
    }
    if actual_resolved.is_none() {
        info.conflict = true;
        info.partial_conflict = actual.iter().any(|s| matches!(s, Seg::Resolved(_)));
    }
    info.may_hunks = rinfo.may_hunks;
    info.word_rescued = rinfo.word_rescued;
    info.word_not_rescued = rinfo.word_attempts - rinfo.word_rescued;
    Ok(info)
}

fn describe(segs: &[Seg]) -> Vec<String> {
    segs.iter()
        .map(|s| match s {
            Seg::Resolved(t) => format!("resolved {}", show(t)),
            Seg::Conflict(c) => format!("conflict {}", show_all(c)),
        })
        .collect()
}

fn case_json(terms: &[Bytes], cfg: Config) -> Value {
    json!({
        "terms": terms,
        "terms_readable": terms.iter().map(|t| show(t)).collect::<Vec<_>>(),
        "order": "add0, remove0, add1, remove1, ...",
        "hunk_level": cfg.level_name(),
        "same_change": cfg.sc_name(),
    })
}

// ---------------------------------------------------------------------------------------
// Enumerated spaces
// ---------------------------------------------------------------------------------------

/// Every file of at most `max_lines` lines over `lines`; with `no_eol`, also every such
/// non-empty file without its final newline; plus `extra` files. No duplicates.
fn pool(lines: &[&[u8]], max_lines: usize, no_eol: bool, extra: &[&[u8]]) -> Vec<Bytes> {
    let mut out: Vec<Bytes> = vec![];
    vcommon::enumerate::sequences(lines.len(), max_lines, |seq| {
        let mut s = vec![];
        for &i in seq {
            s.extend_from_slice(lines[i]);
        }
        out.push(s);
    });
    if no_eol {
        let stripped: Vec<Bytes> = out
            .iter()
            .filter(|s| s.ends_with(b"\n"))
            .map(|s| s[..s.len() - 1].to_vec())
            .collect();
        out.extend(stripped);
    }
    out.extend(extra.iter().map(|e| e.to_vec()));
    let mut seen = BTreeSet::new();
    out.retain(|s| seen.insert(s.clone()));
    out
}

const ABC: &[&[u8]] = &[b"a\n", b"b\n", b"c\n"];
const AB: &[&[u8]] = &[b"a\n", b"b\n"];
const WORDS4: &[&[u8]] = &[b"a b\n", b"c b\n", b"a d\n", b"c d\n"];
const WORDS3: &[&[u8]] = &[b"a b\n", b"c b\n", b"a d\n"];
const BINARY: &[&[u8]] = &[b"\0x", b"\xff\n"];

struct Stats {
    evals: Counter,
    nontrivial: Counter,
    identity_must: Counter,
    identity_must_multi_hunk: Counter,
    identity_via_same_change: Counter,
    identical_sides_distinct_bases_unresolved: Counter,
    resolved_by_hunks: Counter,
    conflict: Counter,
    partial_conflict: Counter,
    may_hunks: Counter,
    word_rescued: Counter,
    word_not_rescued: Counter,
    samples: Samples,
}

struct Runner<'a> {
    ctx: &'a Ctx,
    stats: &'a Stats,
    configs: Vec<Config>,
}

impl Runner<'_> {
    fn run(&self, terms: &[Bytes]) {
        let st = self.stats;
        for &cfg in &self.configs {
            st.evals.inc();
            match check(terms, cfg) {
                Ok(info) => {
                    let bump = |c: &Counter, b: bool| {
                        if b {
                            c.inc();
                        }
                    };
                    bump(&st.nontrivial, info.nontrivial);
                    bump(&st.identity_must, info.identity_must);
                    bump(&st.identity_must_multi_hunk, info.identity_must_multi_hunk);
                    bump(&st.identity_via_same_change, info.identity_via_same_change);
                    bump(&st.identical_sides_distinct_bases_unresolved, info.identical_sides_distinct_bases_unresolved);
                    bump(&st.resolved_by_hunks, info.resolved_by_hunks);
                    bump(&st.conflict, info.conflict);
                    bump(&st.partial_conflict, info.partial_conflict);
                    st.may_hunks.add(info.may_hunks as u64);
                    st.word_rescued.add(info.word_rescued as u64);
                    st.word_not_rescued.add(info.word_not_rescued as u64);
                    // which cases are *shown* is picked by a hash (every case is run regardless)
                    if info.nontrivial
                        && terms.iter().fold(0u64, |h, t| h.rotate_left(9) ^ vcommon::fnv(t)) % 50_021
                            == (terms.len() * 4 + cfg.level as usize * 2 + cfg.same_change as usize) as u64
                    {
                        st.samples.offer(|| case_json(terms, cfg));
                    }
                }
                Err((sig, msg)) => self.ctx.violation(&sig, msg, case_json(terms, cfg)),
            }
        }
    }

    /// Every ordered `arity`-tuple of files from `files`, except tuples made only of files in
    /// `covered` (enumerated by an earlier family of the same arity).
    fn tuples(&self, files: &[Bytes], arity: usize, covered: &BTreeSet<Bytes>) -> u64 {
        let before = self.stats.evals.get();
        let is_covered: Vec<bool> = files.iter().map(|s| covered.contains(s)).collect();
        let head = 2usize;
        let mut heads: Vec<Vec<usize>> = vec![];
        vcommon::enumerate::odometer(&vec![files.len(); head], |t| {
            heads.push(t.to_vec());
            true
        });
        heads.par_iter().for_each(|h| {
            let tail_dims = vec![files.len(); arity - head];
            let mut idx: Vec<usize> = h.clone();
            vcommon::enumerate::odometer(&tail_dims, |tail| {
                idx.truncate(head);
                idx.extend_from_slice(tail);
                if !idx.iter().all(|&i| is_covered[i]) {
                    let terms: Vec<Bytes> = idx.iter().map(|&i| files[i].clone()).collect();
                    self.run(&terms);
                }
                true
            });
        });
        self.stats.evals.get() - before
    }
}

fn main() {
    let ctx = Ctx::from_args("C04", Level::Exploration);
    vcommon::silence_panics();
    if let Some((_sig, case)) = ctx.replay_case() {
        let terms: Vec<Bytes> = serde_json::from_value(case["terms"].clone())
            .unwrap_or_else(|e| vcommon::machinery_failure(&format!("bad replay case: {e}")));
        if terms.len() % 2 == 0 {
            vcommon::machinery_failure("bad replay case: even number of terms");
        }
        let level = match case["hunk_level"].as_str() {
            Some("line") => FileMergeHunkLevel::Line,
            Some("word") => FileMergeHunkLevel::Word,
            _ => vcommon::machinery_failure("bad replay case: hunk_level"),
        };
        let same_change = match case["same_change"].as_str() {
            Some("keep") => SameChange::Keep,
            Some("accept") => SameChange::Accept,
            _ => vcommon::machinery_failure("bad replay case: same_change"),
        };
        if let Err((sig, msg)) = check(&terms, Config { level, same_change }) {
            ctx.violation(&sig, msg, case);
        }
        ctx.finish(Coverage { evaluations: 1, ..Default::default() });
    }

    let stats = Stats {
        evals: Counter::new(),
        nontrivial: Counter::new(),
        identity_must: Counter::new(),
        identity_must_multi_hunk: Counter::new(),
        identity_via_same_change: Counter::new(),
        identical_sides_distinct_bases_unresolved: Counter::new(),
        resolved_by_hunks: Counter::new(),
        conflict: Counter::new(),
        partial_conflict: Counter::new(),
        may_hunks: Counter::new(),
        word_rescued: Counter::new(),
        word_not_rescued: Counter::new(),
        samples: Samples::new(12),
    };
    let runner = Runner { ctx: &ctx, stats: &stats, configs: Config::all() };
    let mut extra: Vec<(String, Value)> = vec![];
    let mut family = |name: &str, files: Vec<Bytes>, arity: usize, covered: &[Bytes], what: &str| {
        let covered: BTreeSet<Bytes> = covered.iter().cloned().collect();
        let cases = runner.tuples(&files, arity, &covered);
        extra.push((
            format!("family_{name}"),
            json!({"files": files.len(), "terms": arity, "pool": what, "cases_incl_configs": cases,
                   "elapsed_s": (ctx.elapsed_s() * 10.0).round() / 10.0}),
        ));
        files
    };

    // 3 terms
    let k3 = ctx.pick(3, 4);
    family("3_terms_lines", pool(ABC, k3, true, BINARY), 3, &[],
        &format!("<= {k3} lines over a/b/c, with and without final newline, + 2 binary files"));
    let k3w = ctx.pick(2, 3);
    family("3_terms_words", pool(WORDS4, k3w, ctx.quick(), &[]), 3, &[],
        &format!("<= {k3w} lines over 'a b','c b','a d','c d'{}", if ctx.quick() { ", with and without final newline" } else { "" }));
    // 5 terms
    let f5 = if ctx.quick() {
        family("5_terms_lines", pool(ABC, 2, false, &[]), 5, &[], "<= 2 lines over a/b/c")
    } else {
        family("5_terms_lines", pool(ABC, 2, true, BINARY), 5, &[],
            "<= 2 lines over a/b/c, with and without final newline, + 2 binary files")
    };
    if ctx.quick() {
        // (in the thorough tier this pool is a subset of the previous one)
        family("5_terms_one_line", pool(ABC, 1, true, BINARY), 5, &f5,
            "<= 1 line over a/b/c, with and without final newline, + 2 binary files");
    }
    let k5w = ctx.pick(1, 2);
    family("5_terms_words", pool(if ctx.quick() { WORDS4 } else { WORDS3 }, k5w, false, &[]), 5, &[],
        &format!("<= {k5w} lines over {}", if ctx.quick() { "'a b','c b','a d','c d'" } else { "'a b','c b','a d'" }));
    // 7 terms
    let f7 = family("7_terms_lines", pool(AB, 2, false, &[]), 7, &[], "<= 2 lines over a/b");
    if ctx.thorough() {
        family("7_terms_one_line", pool(ABC, 1, false, &[]), 7, &f7, "<= 1 line over a/b/c");
        family("7_terms_words", pool(WORDS3, 1, false, &[]), 7, &[], "<= 1 line over 'a b','c b','a d'");
    }

    // vacuity
    for (name, c) in [
        ("identity antecedent", &stats.identity_must),
        ("identity antecedent with a real partition", &stats.identity_must_multi_hunk),
        ("identity through same-change", &stats.identity_via_same_change),
        ("resolved hunk-wise", &stats.resolved_by_hunks),
        ("conflict", &stats.conflict),
        ("partially resolved conflict", &stats.partial_conflict),
        ("word-level rescue", &stats.word_rescued),
        ("word-level failure", &stats.word_not_rescued),
        ("may-hunks", &stats.may_hunks),
    ] {
        if c.get() == 0 {
            vcommon::machinery_failure(&format!("vacuous run: no case exercised '{name}'"));
        }
    }

    extra.push(("configs".into(), json!(Config::all().iter().map(|c| format!("{}/{}", c.level_name(), c.sc_name())).collect::<Vec<_>>())));
    extra.push(("identity_law_cases".into(), json!(stats.identity_must.get())));
    extra.push(("identity_law_cases_with_two_or_more_diff_hunks".into(), json!(stats.identity_must_multi_hunk.get())));
    extra.push(("identity_law_cases_through_same_change".into(), json!(stats.identity_via_same_change.get())));
    extra.push(("accept_identical_sides_distinct_bases_left_unresolved".into(), json!(stats.identical_sides_distinct_bases_unresolved.get())));
    extra.push(("resolved_although_whole_files_do_not_cancel".into(), json!(stats.resolved_by_hunks.get())));
    extra.push(("conflict_results".into(), json!(stats.conflict.get())));
    extra.push(("conflict_results_with_resolved_parts".into(), json!(stats.partial_conflict.get())));
    extra.push(("hunks_where_statement_allows_both_outcomes".into(), json!(stats.may_hunks.get())));
    extra.push(("line_conflict_hunks_resolved_by_word_merge".into(), json!(stats.word_rescued.get())));
    extra.push(("line_conflict_hunks_not_resolved_by_word_merge".into(), json!(stats.word_not_rescued.get())));

    let cov = Coverage {
        evaluations: stats.evals.get(),
        distinct_nontrivial: stats.nontrivial.get(),
        rule: "one evaluation = one (ordered term tuple, hunk level, same-change setting) pushed through \
               files::merge, files::merge_hunks and files::try_merge and compared with the identity law, the shape \
               rule, a hunk-by-hunk re-derivation and with each other. Term tuples: every ordered tuple over the \
               file pool of each family (family_*); a later family of the same arity skips tuples drawn entirely \
               from an earlier family's pool, so no tuple is generated twice. Non-trivial = the line diff of the \
               terms has at least two hunks and at least one hunk on which the terms disagree"
            .into(),
        samples: stats.samples.take(),
        exhaustive: true,
        extra: extra.into_iter().collect(),
        assumptions: vec![
            "the hunk-wise reference splits the inputs with ContentDiff::by_line / by_word (decided by C03)".into(),
            "'identical sides merge to that content' is demanded under same-change=accept when the remaining bases \
             agree; with differing bases both outcomes are accepted; under same-change=keep jj documents that the \
             conflict is kept"
                .into(),
            "how resolved text is chunked into hunks is not compared (adjacent resolved hunks are concatenated)".into(),
            "files longer than the pools' bounds are outside the bound".into(),
        ],
        ..Default::default()
    };
    ctx.finish(cov);
}

//! C06 — An unedited conflicted file is snapshotted as the same conflict.
//!
//! Exhaustive over every `Merge<Option<FileId>>` of 3, 5 (and 7) terms whose terms are drawn
//! from a small set of file contents (absent, empty, one-line, multi-line with shared context,
//! no final newline, marker look-alike), which contains every redundant-pair (unsimplified)
//! shape and every absent-side shape of that arity.  Two routes run the real code:
//!
//! * `direct`: write the terms to a `TestRepo` store, materialize the simplified conflict the
//!   way the working copy does, feed the text back to `conflicts::update_from_content`;
//! * `wc`: build a commit whose tree has that conflict at one path (with executable-bit
//!   differences), `check_out` in a `TestWorkspace`, rewrite the file with identical bytes
//!   (new mtime) or with an edit, `snapshot()`.
//!
//! Oracle, clause 1 (unedited): the result is the original merge, term for term (route wc:
//! the snapshot's tree ids equal the commit's tree ids).  Clause 2 (edit confined to resolved
//! regions: every insertion of a fresh line at a line boundary outside `<<<<<<<`..`>>>>>>>`
//! blocks, every deletion of one resolved line): the result has the original arity and
//! every term of the simplified conflict is "edited resolved regions + that term's part of
//! every conflict hunk"; redundant pairs keep their positions and values; an absent term stays
//! absent unless its content became non-empty.

use std::collections::BTreeMap;
use std::sync::Arc;

use bstr::BString;
use jj_lib::backend::FileId;
use jj_lib::backend::TreeValue;
use jj_lib::config::ConfigLayer;
use jj_lib::config::ConfigSource;
use jj_lib::conflict_labels::ConflictLabels;
use jj_lib::conflicts::ConflictMarkerStyle;
use jj_lib::conflicts::ConflictMaterializeOptions;
use jj_lib::conflicts::choose_materialized_conflict_marker_len;
use jj_lib::conflicts::materialize_merge_result_to_bytes;
use jj_lib::conflicts::update_from_content;
use jj_lib::files;
use jj_lib::files::FileMergeHunkLevel;
use jj_lib::files::MergeResult;
use jj_lib::merge::Merge;
use jj_lib::merge::SameChange;
use jj_lib::merged_tree::MergedTree;
use jj_lib::repo::Repo as _;
use jj_lib::repo_path::RepoPath;
use jj_lib::settings::UserSettings;
use jj_lib::store::Store;
use jj_lib::tree_merge::MergeOptions;
use pollster::FutureExt as _;
use rayon::prelude::*;
use serde_json::Value;
use serde_json::json;
use testutils::TestRepo;
use testutils::TestTreeBuilder;
use testutils::TestWorkspace;
use testutils::commit_with_tree;
use testutils::repo_path;
use vcommon::Coverage;
use vcommon::Ctx;
use vcommon::Level;
use vcommon::Samples;
use vcommon::catch;
use vcommon::enumerate::decode;
use vcommon::enumerate::product;

const PATH: &str = "file";
const OTHER_PATH: &str = "other";
const FRESH_LINE: &[u8] = b"Z\n";

// ---------------------------------------------------------------------------------------
// names

const STYLES: [ConflictMarkerStyle; 4] = [
    ConflictMarkerStyle::Diff,
    ConflictMarkerStyle::DiffExperimental,
    ConflictMarkerStyle::Snapshot,
    ConflictMarkerStyle::Git,
];

fn style_name(s: ConflictMarkerStyle) -> &'static str {
    match s {
        ConflictMarkerStyle::Diff => "diff",
        ConflictMarkerStyle::DiffExperimental => "diff-experimental",
        ConflictMarkerStyle::Snapshot => "snapshot",
        ConflictMarkerStyle::Git => "git",
    }
}

fn style_from(s: &str) -> ConflictMarkerStyle {
    match s {
        "diff" => ConflictMarkerStyle::Diff,
        "diff-experimental" => ConflictMarkerStyle::DiffExperimental,
        "snapshot" => ConflictMarkerStyle::Snapshot,
        "git" => ConflictMarkerStyle::Git,
        other => vcommon::machinery_failure(&format!("bad style {other}")),
    }
}

#[derive(Clone, Copy, PartialEq, Eq, Debug)]
struct MergeCfg {
    hunk_level: FileMergeHunkLevel,
    same_change: SameChange,
}

impl MergeCfg {
    fn name(&self) -> String {
        format!(
            "{}/{}",
            match self.hunk_level {
                FileMergeHunkLevel::Line => "line",
                FileMergeHunkLevel::Word => "word",
            },
            match self.same_change {
                SameChange::Accept => "accept",
                SameChange::Keep => "keep",
            }
        )
    }
    fn from_name(s: &str) -> Self {
        let (l, c) = s.split_once('/').unwrap_or(("line", "accept"));
        MergeCfg {
            hunk_level: if l == "word" { FileMergeHunkLevel::Word } else { FileMergeHunkLevel::Line },
            same_change: if c == "keep" { SameChange::Keep } else { SameChange::Accept },
        }
    }
    fn options(&self) -> MergeOptions {
        MergeOptions { hunk_level: self.hunk_level, same_change: self.same_change }
    }
}

fn settings_for(mc: MergeCfg, style: ConflictMarkerStyle) -> UserSettings {
    let mut config = testutils::base_user_config();
    let (l, c) = {
        let n = mc.name();
        let (l, c) = n.split_once('/').unwrap();
        (l.to_string(), c.to_string())
    };
    let text = format!(
        "merge.hunk-level = \"{l}\"\nmerge.same-change = \"{c}\"\nui.conflict-marker-style = \"{}\"\n",
        style_name(style)
    );
    config.add_layer(
        ConfigLayer::parse(ConfigSource::User, &text)
            .unwrap_or_else(|e| vcommon::machinery_failure(&format!("config: {e}"))),
    );
    UserSettings::from_config(config).unwrap_or_else(|e| vcommon::machinery_failure(&format!("settings: {e}")))
}

fn show(bytes: &[u8]) -> String {
    bytes.iter().map(|b| std::ascii::escape_default(*b).to_string()).collect()
}

fn show_opt(t: &Option<Vec<u8>>) -> String {
    match t {
        None => "<absent>".into(),
        Some(b) => format!("\"{}\"", show(b)),
    }
}

fn show_terms(ts: &[Option<Vec<u8>>]) -> String {
    format!("[{}]", ts.iter().map(show_opt).collect::<Vec<_>>().join(", "))
}

// ---------------------------------------------------------------------------------------
// edits

#[derive(Clone, Debug, PartialEq, Eq)]
enum Edit {
    /// insert `Z\n` at this byte offset of the materialized text (a line boundary)
    Insert { offset: usize },
    /// delete the bytes `offset..offset+len` (one line of a resolved region)
    Delete { offset: usize, len: usize },
}

impl Edit {
    fn kind(&self) -> &'static str {
        match self {
            Edit::Insert { .. } => "insert",
            Edit::Delete { .. } => "delete",
        }
    }
    fn to_json(&self) -> Value {
        match self {
            Edit::Insert { offset } => json!({"kind": "insert", "offset": offset}),
            Edit::Delete { offset, len } => json!({"kind": "delete", "offset": offset, "len": len}),
        }
    }
    fn from_json(v: &Value) -> Option<Edit> {
        match v["kind"].as_str()? {
            "insert" => Some(Edit::Insert { offset: v["offset"].as_u64()? as usize }),
            "delete" => Some(Edit::Delete {
                offset: v["offset"].as_u64()? as usize,
                len: v["len"].as_u64()? as usize,
            }),
            _ => None,
        }
    }
    fn apply(&self, text: &[u8]) -> Vec<u8> {
        match self {
            Edit::Insert { offset } => {
                let mut out = text[..*offset].to_vec();
                out.extend_from_slice(FRESH_LINE);
                out.extend_from_slice(&text[*offset..]);
                out
            }
            Edit::Delete { offset, len } => {
                let mut out = text[..*offset].to_vec();
                out.extend_from_slice(&text[offset + len..]);
                out
            }
        }
    }
}

/// Layout of a materialized file: resolved byte ranges alternate with conflict blocks:
/// `resolved[0] block[0] resolved[1] ... block[n-1] resolved[n]` (resolved ranges may be empty).
#[derive(Debug, Clone)]
struct Layout {
    resolved: Vec<(usize, usize)>,
    blocks: Vec<(usize, usize)>,
}

fn is_marker_line(line: &[u8], ch: u8, len: usize) -> bool {
    let run = line.iter().take_while(|b| **b == ch).count();
    run >= len && line.get(run).is_none_or(|b| b.is_ascii_whitespace())
}

/// Boring scan for conflict blocks: a block starts at a line beginning with >= `len` '<' and
/// ends with the next line beginning with >= `len` '>' (contents never contain such lines
/// because `len` exceeds every marker-like line of the contents).
fn layout_of(text: &[u8], len: usize) -> Option<Layout> {
    let mut resolved = vec![];
    let mut blocks = vec![];
    let mut pos = 0;
    let mut resolved_start = 0;
    let mut block_start: Option<usize> = None;
    for line in text.split_inclusive(|b| *b == b'\n') {
        match block_start {
            None if is_marker_line(line, b'<', len) => {
                resolved.push((resolved_start, pos));
                block_start = Some(pos);
            }
            Some(start) if is_marker_line(line, b'>', len) => {
                blocks.push((start, pos + line.len()));
                block_start = None;
                resolved_start = pos + line.len();
            }
            _ => {}
        }
        pos += line.len();
    }
    if block_start.is_some() {
        return None;
    }
    resolved.push((resolved_start, text.len()));
    Some(Layout { resolved, blocks })
}

/// Every edit confined to the resolved regions of `text`.
fn edits_of(text: &[u8], layout: &Layout) -> Vec<Edit> {
    let mut edits = vec![];
    for &(start, end) in &layout.resolved {
        // line boundaries of this region: its start and the position after every LF in it
        let mut boundaries = vec![start];
        let mut line_start = start;
        for (i, b) in text[start..end].iter().enumerate() {
            if *b == b'\n' {
                let after = start + i + 1;
                boundaries.push(after);
                edits.push(Edit::Delete { offset: line_start, len: after - line_start });
                line_start = after;
            }
        }
        if line_start < end {
            // unterminated last line of the file
            edits.push(Edit::Delete { offset: line_start, len: end - line_start });
        }
        for p in boundaries {
            // only real line boundaries: never glue the fresh line to a line without EOL
            if p == 0 || text[p - 1] == b'\n' {
                edits.push(Edit::Insert { offset: p });
            }
        }
    }
    edits
}

// ---------------------------------------------------------------------------------------
// reference: what every term must become

type Term = Option<Vec<u8>>;

fn signed_counts(terms: &[Term]) -> BTreeMap<Term, i32> {
    let mut m = BTreeMap::new();
    for (i, t) in terms.iter().enumerate() {
        *m.entry(t.clone()).or_insert(0) += if i % 2 == 0 { 1 } else { -1 };
    }
    m.retain(|_, c| *c != 0);
    m
}

/// Everything about one merge + style that does not depend on the edit.
struct Prepared {
    terms: Vec<Term>,
    file_ids: Merge<Option<FileId>>,
    simplified_terms: Vec<Term>,
    marker_len: usize,
    text: Vec<u8>,
    /// `None` when the simplified conflict merges cleanly (no markers in the file)
    conflict: Option<(Vec<Merge<BString>>, Layout)>,
}

struct Failure {
    signature: String,
    message: String,
}

fn fail(signature: impl Into<String>, message: impl Into<String>) -> Failure {
    Failure { signature: signature.into(), message: message.into() }
}

fn write_terms(store: &Store, path: &RepoPath, terms: &[Term]) -> Merge<Option<FileId>> {
    Merge::from_vec(
        terms
            .iter()
            .map(|t| {
                t.as_ref().map(|bytes| {
                    store
                        .write_file(path, &mut bytes.as_slice())
                        .block_on()
                        .unwrap_or_else(|e| vcommon::machinery_failure(&format!("write_file: {e}")))
                })
            })
            .collect::<Vec<_>>(),
    )
}

fn read_terms(store: &Store, path: &RepoPath, ids: &Merge<Option<FileId>>) -> Vec<Term> {
    ids.iter()
        .map(|id| id.as_ref().map(|id| testutils::read_file(store, path, id)))
        .collect()
}

/// Splits the materialized text according to the hunks the merge produced and cross-checks
/// that the resolved hunks are in the file verbatim.
fn prepare(
    store: &Store,
    path: &RepoPath,
    terms: &[Term],
    style: ConflictMarkerStyle,
    merge_opts: &MergeOptions,
    text_override: Option<Vec<u8>>,
) -> Result<Prepared, Failure> {
    let file_ids = write_terms(store, path, terms);
    // ids are content hashes, so simplifying ids == simplifying (absent | content) terms
    let simplified_ids = file_ids.simplify();
    let by_id: BTreeMap<Option<FileId>, Term> =
        file_ids.iter().cloned().zip(terms.iter().cloned()).collect();
    let simplified_terms: Vec<Term> = simplified_ids.iter().map(|id| by_id[id].clone()).collect();
    let contents: Merge<BString> = Merge::from_vec(
        simplified_terms
            .iter()
            .map(|t| BString::from(t.clone().unwrap_or_default()))
            .collect::<Vec<_>>(),
    );
    let marker_len = choose_materialized_conflict_marker_len(&contents);
    let text = match text_override {
        Some(t) => t,
        None => {
            let options = ConflictMaterializeOptions {
                marker_style: style,
                marker_len: Some(marker_len),
                merge: merge_opts.clone(),
            };
            catch(|| materialize_merge_result_to_bytes(&contents, &ConflictLabels::unlabeled(), &options))
                .map_err(|e| fail("C06/materialize/panic", format!("{}: {e}", show_terms(terms))))?
                .into()
        }
    };
    let conflict = match catch(|| files::merge_hunks(&contents, merge_opts))
        .map_err(|e| fail("C06/merge_hunks/panic", format!("{}: {e}", show_terms(terms))))?
    {
        MergeResult::Resolved(_) => None,
        MergeResult::Conflict(hunks) => {
            let not_verbatim = |why: &str| {
                fail(
                    "C06/materialize/resolved-regions-not-verbatim",
                    format!(
                        "{why}: terms {} style {} text \"{}\" hunks {:?}",
                        show_terms(terms),
                        style_name(style),
                        show(&text),
                        hunks
                    ),
                )
            };
            let layout = layout_of(&text, marker_len).ok_or_else(|| not_verbatim("unterminated conflict block"))?;
            let want_resolved: Vec<&[u8]> =
                hunks.iter().filter_map(|h| h.as_resolved()).map(|b| b.as_slice()).collect();
            let got_resolved: Vec<&[u8]> = layout
                .resolved
                .iter()
                .map(|&(s, e)| &text[s..e])
                .filter(|r| !r.is_empty())
                .collect();
            let num_conflicts = hunks.iter().filter(|h| !h.is_resolved()).count();
            if want_resolved != got_resolved || layout.blocks.len() != num_conflicts {
                return Err(not_verbatim("text outside the conflict blocks differs from the resolved hunks"));
            }
            Some((hunks, layout))
        }
    };
    Ok(Prepared { terms: terms.to_vec(), file_ids, simplified_terms, marker_len, text, conflict })
}

/// The terms the whole (unsimplified) conflict must have after `edit`.
fn expected_after_edit(p: &Prepared, edit: &Edit) -> (Vec<Term>, Vec<Term>) {
    let (hunks, layout) = p.conflict.as_ref().unwrap();
    let conflict_hunks: Vec<&Merge<BString>> = hunks.iter().filter(|h| !h.is_resolved()).collect();
    // edited resolved regions
    let mut regions: Vec<Vec<u8>> = vec![];
    let mut applied = false;
    for &(s, e) in &layout.resolved {
        let mut r = p.text[s..e].to_vec();
        match edit {
            Edit::Insert { offset } if !applied && *offset >= s && *offset <= e => {
                let at = offset - s;
                let tail = r.split_off(at);
                r.extend_from_slice(FRESH_LINE);
                r.extend_from_slice(&tail);
                applied = true;
            }
            Edit::Delete { offset, len } if !applied && *offset >= s && offset + len <= e => {
                r.drain(offset - s..offset - s + len);
                applied = true;
            }
            _ => {}
        }
        regions.push(r);
    }
    if !applied {
        vcommon::machinery_failure(&format!("edit {edit:?} is not inside a resolved region of {:?}", layout));
    }
    let num_simplified = p.simplified_terms.len();
    let mut new_simplified: Vec<Term> = vec![];
    for i in 0..num_simplified {
        let mut content = vec![];
        for (j, region) in regions.iter().enumerate() {
            content.extend_from_slice(region);
            if let Some(h) = conflict_hunks.get(j) {
                content.extend_from_slice(h.as_slice()[i].as_slice());
            }
        }
        // an absent side is still absent if nothing was added to it
        if p.simplified_terms[i].is_none() && content.is_empty() {
            new_simplified.push(None);
        } else {
            new_simplified.push(Some(content));
        }
    }
    let full = if num_simplified == p.terms.len() {
        new_simplified.clone()
    } else {
        // positions of the surviving terms: Merge::update_from_simplified (lower layer, C01)
        Merge::from_vec(p.terms.clone())
            .update_from_simplified(Merge::from_vec(new_simplified.clone()))
            .iter()
            .cloned()
            .collect()
    };
    (new_simplified, full)
}

#[derive(Default, Clone, Copy)]
struct Info {
    has_markers: bool,
    simplified_smaller: bool,
    has_absent: bool,
    absent_became_present: bool,
    absent_stayed_absent: bool,
    absorbed_resolution: bool,
}

fn basic_info(p: &Prepared) -> Info {
    Info {
        has_markers: p.conflict.is_some(),
        simplified_smaller: p.simplified_terms.len() < p.terms.len(),
        has_absent: p.terms.iter().any(|t| t.is_none()),
        ..Default::default()
    }
}

/// Compares the terms jj recorded with the expectation for an edit.
fn judge_edit(
    route: &str,
    p: &Prepared,
    edit: &Edit,
    result_terms: &[Term],
    context: &str,
) -> Result<Info, Failure> {
    let (new_simplified, expected_full) = expected_after_edit(p, edit);
    let kind = edit.kind();
    let describe = |what: &str| {
        format!(
            "{what}: terms {} {context} edit {edit:?}\n  file: \"{}\"\n  edited: \"{}\"\n  recorded: {}\n  expected: {}",
            show_terms(&p.terms),
            show(&p.text),
            show(&edit.apply(&p.text)),
            show_terms(result_terms),
            show_terms(&expected_full),
        )
    };
    if result_terms.len() != p.terms.len() {
        return Err(fail(
            format!("C06/{route}/edit-{kind}/arity"),
            describe("the recorded conflict does not have the original (unsimplified) arity"),
        ));
    }
    if signed_counts(result_terms) != signed_counts(&new_simplified) {
        return Err(fail(
            format!("C06/{route}/edit-{kind}/sides"),
            describe("the sides of the recorded conflict are not 'edited resolved regions + own conflict parts'"),
        ));
    }
    if result_terms != expected_full.as_slice() {
        return Err(fail(
            format!("C06/{route}/edit-{kind}/positions"),
            describe("terms moved or redundant pairs changed"),
        ));
    }
    let mut info = basic_info(p);
    for (old, new) in p.simplified_terms.iter().zip(&new_simplified) {
        if old.is_none() {
            if new.is_some() {
                info.absent_became_present = true;
            } else {
                info.absent_stayed_absent = true;
            }
        }
    }
    // did jj absorb an automatic resolution into some side (a resolved hunk that was not common
    // to all sides)?
    let (hunks, _) = p.conflict.as_ref().unwrap();
    for (i, old) in p.simplified_terms.iter().enumerate() {
        let mut rebuilt = vec![];
        for h in hunks {
            match h.as_resolved() {
                Some(r) => rebuilt.extend_from_slice(r),
                None => rebuilt.extend_from_slice(h.as_slice()[i].as_slice()),
            }
        }
        if rebuilt != old.clone().unwrap_or_default() {
            info.absorbed_resolution = true;
        }
    }
    Ok(info)
}

// ---------------------------------------------------------------------------------------
// route 1: conflicts::update_from_content directly

struct DirectEnv {
    repo: TestRepo,
    merge_cfg: MergeCfg,
}

impl DirectEnv {
    fn new(merge_cfg: MergeCfg) -> Self {
        let settings = settings_for(merge_cfg, ConflictMarkerStyle::Diff);
        let repo = TestRepo::init_with_settings(&settings);
        let got = repo.repo.store().merge_options();
        if got.hunk_level != merge_cfg.hunk_level || got.same_change != merge_cfg.same_change {
            vcommon::machinery_failure("store merge options do not follow the settings");
        }
        DirectEnv { repo, merge_cfg }
    }
    fn store(&self) -> &Arc<Store> {
        self.repo.repo.store()
    }
}

fn direct_one(env: &DirectEnv, p: &Prepared, style: ConflictMarkerStyle, edit: Option<&Edit>) -> Result<Info, Failure> {
    let store = env.store();
    let path = repo_path(PATH);
    let context = format!("style {} merge {}", style_name(style), env.merge_cfg.name());
    let content = match edit {
        None => p.text.clone(),
        Some(e) => e.apply(&p.text),
    };
    let result = catch(|| update_from_content(&p.file_ids, store, path, &content, p.marker_len).block_on())
        .map_err(|e| {
            fail(
                "C06/direct/panic",
                format!("update_from_content panicked: {e}; terms {} {context} edit {edit:?}", show_terms(&p.terms)),
            )
        })?
        .map_err(|e| {
            fail(
                "C06/direct/error",
                format!("update_from_content failed: {e}; terms {} {context} edit {edit:?}", show_terms(&p.terms)),
            )
        })?;
    match edit {
        None => {
            if result != p.file_ids {
                let shape = if result.as_slice().len() != p.file_ids.as_slice().len() {
                    if result.is_resolved() { "resolved" } else { "arity" }
                } else {
                    "terms"
                };
                let markers = if p.conflict.is_some() { "with-markers" } else { "clean-text" };
                return Err(fail(
                    format!("C06/direct/unedited/{markers}/{shape}"),
                    format!(
                        "unchanged materialized file is not recorded as the original conflict: terms {} {context} marker_len {}\n  file: \"{}\"\n  recorded: {}",
                        show_terms(&p.terms),
                        p.marker_len,
                        show(&p.text),
                        show_terms(&read_terms(store, path, &result)),
                    ),
                ));
            }
            Ok(basic_info(p))
        }
        Some(e) => {
            let result_terms = read_terms(store, path, &result);
            judge_edit("direct", p, e, &result_terms, &context)
        }
    }
}

// ---------------------------------------------------------------------------------------
// route 2: check_out + snapshot in a real working copy

struct WcEnv {
    ws: TestWorkspace,
    empty_commit: jj_lib::commit::Commit,
    style: ConflictMarkerStyle,
    merge_cfg: MergeCfg,
}

impl WcEnv {
    fn new(merge_cfg: MergeCfg, style: ConflictMarkerStyle) -> Self {
        let settings = settings_for(merge_cfg, style);
        let ws = TestWorkspace::init_with_settings(&settings);
        let store = ws.repo.store().clone();
        let empty_tree = MergedTree::resolved(store.clone(), store.empty_tree_id().clone());
        let empty_commit = commit_with_tree(&store, empty_tree);
        WcEnv { ws, empty_commit, style, merge_cfg }
    }
}

/// One working-copy case: terms with executable bits; `edit_index`: `None` = rewrite identical
/// bytes, `Some(k)` = apply the k-th edit of `edits_of` (taken modulo the number of edits).
fn wc_one(env: &mut WcEnv, terms: &[Term], exec: &[bool], edit_index: Option<usize>) -> Result<(Info, bool), Failure> {
    let path = repo_path(PATH);
    let store = env.ws.repo.store().clone();
    let context = format!("style {} merge {} exec {:?}", style_name(env.style), env.merge_cfg.name(), exec);
    // Every term tree also has a second path whose content differs in every term, so that the
    // tree-level conflict keeps its arity; the tree is then normalised with
    // `MergedTree::resolve()`, which is what every jj code path that creates a conflicted
    // commit does (a tree that is not a fixed point of `resolve()` is re-resolved by any
    // snapshot, whatever the files look like).
    let other = repo_path(OTHER_PATH);
    let tree_ids: Vec<_> = terms
        .iter()
        .zip(exec)
        .enumerate()
        .map(|(i, (t, x))| {
            let mut b = TestTreeBuilder::new(store.clone());
            if let Some(bytes) = t {
                b.file(path, bytes).executable(*x);
            }
            b.file(other, format!("other {i}\n"));
            b.write_single_tree().id().clone()
        })
        .collect();
    let raw_tree = MergedTree::new(store.clone(), Merge::from_vec(tree_ids), ConflictLabels::unlabeled());
    let tree = raw_tree
        .resolve()
        .block_on()
        .unwrap_or_else(|e| vcommon::machinery_failure(&format!("resolve: {e}")));
    if tree.tree_ids().as_slice().len() != terms.len() {
        vcommon::machinery_failure("the second path did not keep the tree-level arity");
    }
    let commit = commit_with_tree(&store, tree.clone());
    let op_id = env.ws.repo.op_id().clone();
    let wc_err = |what: &str, e: String| {
        fail(
            format!("C06/wc/{what}"),
            format!("{what}: {e}; terms {} {context}", show_terms(terms)),
        )
    };
    // start every case from the same state: the path does not exist
    env.ws
        .workspace
        .check_out(op_id.clone(), None, &env.empty_commit)
        .block_on()
        .map_err(|e| wc_err("checkout-error", e.to_string()))?;
    catch(|| env.ws.workspace.check_out(op_id.clone(), None, &commit).block_on())
        .map_err(|e| wc_err("checkout-panic", e))?
        .map_err(|e| wc_err("checkout-error", e.to_string()))?;
    let disk_path = path
        .to_fs_path(env.ws.workspace.workspace_root())
        .unwrap_or_else(|e| vcommon::machinery_failure(&format!("fs path: {e}")));
    let path_value = tree
        .path_value(path)
        .block_on()
        .unwrap_or_else(|e| vcommon::machinery_failure(&format!("path_value: {e}")));
    if path_value.is_resolved() {
        // the tree merge resolved this path (trivially or by merging the contents): the file
        // is not conflicted, the property says nothing about it
        return Ok((Info::default(), false));
    }
    // the conflict really recorded at the path (the tree merge keeps unresolvable conflicts
    // unsimplified, so this is the input, but we do not rely on that)
    let Some(actual_ids) = path_value.to_file_merge() else {
        vcommon::machinery_failure("non-file term in a file conflict");
    };
    let actual_terms = read_terms(&store, path, &actual_ids);
    let terms: &[Term] = &actual_terms;
    let on_disk = std::fs::read(&disk_path).map_err(|e| wc_err("file-not-written", e.to_string()))?;
    let is_conflict_at_path = true;
    let p = prepare(&store, path, terms, env.style, &env.merge_cfg.options(), Some(on_disk.clone()))?;
    let (new_bytes, edit) = match edit_index {
        None => (on_disk.clone(), None),
        Some(k) => {
            let Some((_, layout)) = &p.conflict else {
                return Ok((basic_info(&p), false));
            };
            if !is_conflict_at_path {
                return Ok((basic_info(&p), false));
            }
            let edits = edits_of(&p.text, layout);
            if edits.is_empty() {
                return Ok((basic_info(&p), false));
            }
            let e = edits[k % edits.len()].clone();
            (e.apply(&p.text), Some(e))
        }
    };
    // rewrite the file (same bytes for the unedited clause) and move its mtime, so that the
    // snapshot really reads it again
    std::fs::write(&disk_path, &new_bytes).unwrap_or_else(|e| vcommon::machinery_failure(&format!("write: {e}")));
    let f = std::fs::File::options()
        .write(true)
        .open(&disk_path)
        .unwrap_or_else(|e| vcommon::machinery_failure(&format!("open: {e}")));
    let old_mtime = f.metadata().and_then(|m| m.modified()).unwrap_or_else(|e| vcommon::machinery_failure(&format!("mtime: {e}")));
    f.set_modified(old_mtime - std::time::Duration::from_secs(7))
        .unwrap_or_else(|e| vcommon::machinery_failure(&format!("set mtime: {e}")));
    drop(f);
    let new_tree = catch(|| env.ws.snapshot())
        .map_err(|e| wc_err("snapshot-panic", e))?
        .map_err(|e| wc_err("snapshot-error", e.to_string()))?;
    match &edit {
        None => {
            if new_tree.tree_ids() != tree.tree_ids() {
                let new_value = new_tree.path_value(path).block_on().ok();
                let shape = if new_tree.tree_ids().num_sides() != tree.tree_ids().num_sides() {
                    "arity"
                } else {
                    "terms"
                };
                let markers = if p.conflict.is_some() { "with-markers" } else { "clean-text" };
                return Err(fail(
                    format!("C06/wc/unedited/{markers}/{shape}"),
                    format!(
                        "snapshot of an untouched conflicted file changed the tree: terms {} {context}\n  file: \"{}\"\n  tree ids before {:?}\n  tree ids after  {:?}\n  path value after {:?}",
                        show_terms(terms),
                        show(&on_disk),
                        tree.tree_ids(),
                        new_tree.tree_ids(),
                        new_value,
                    ),
                ));
            }
            let mut info = basic_info(&p);
            info.has_markers = info.has_markers && is_conflict_at_path;
            Ok((info, true))
        }
        Some(e) => {
            let new_value = new_tree
                .path_value(path)
                .block_on()
                .unwrap_or_else(|e| vcommon::machinery_failure(&format!("path_value: {e}")));
            let result_terms: Vec<Term> = new_value
                .iter()
                .map(|v| match v {
                    None => None,
                    Some(TreeValue::File { id, .. }) => Some(testutils::read_file(&store, path, id)),
                    Some(other) => Some(format!("<not a file: {other:?}>").into_bytes()),
                })
                .collect();
            let info = judge_edit("wc", &p, e, &result_terms, &context)?;
            Ok((info, true))
        }
    }
}

// ---------------------------------------------------------------------------------------
// the space

fn contents_alphabet(n: usize) -> Vec<Term> {
    // U, V, W share the anchor lines x and m: (U, V, W) has a conflict on line 2 and an
    // automatic resolution on line 4
    let all: Vec<Term> = vec![
        None,
        Some(b"x\na\nm\np\n".to_vec()),
        Some(b"x\nb\nm\np\n".to_vec()),
        Some(b"x\nc\nm\nq\n".to_vec()),
        Some(b"x\n<<<<<<< k\nm\np\n".to_vec()),
        Some(b"a\n".to_vec()),
        Some(b"x\nc\nm\np".to_vec()),
        Some(b"".to_vec()),
        Some(b"x\r\nb\r\nm\r\np\r\n".to_vec()),
    ];
    all.into_iter().take(n).collect()
}

#[derive(Default, Clone)]
struct Tally {
    evals: u64,
    nontrivial: u64,
    merges: u64,
    unedited: u64,
    unedited_with_markers: u64,
    unedited_clean_text: u64,
    unedited_simplified_smaller: u64,
    unedited_simplified_smaller_with_markers: u64,
    unedited_with_absent: u64,
    edits: u64,
    edits_insert: u64,
    edits_delete: u64,
    edits_simplified_smaller: u64,
    edits_absent_became_present: u64,
    edits_absent_stayed_absent: u64,
    edits_absorbed_resolution: u64,
    wc_cases: u64,
    wc_skipped_not_applicable: u64,
    wc_exec_differs: u64,
    wc_edits: u64,
    wc_unedited_redundant_with_markers: u64,
    wc_edits_redundant: u64,
}

impl Tally {
    fn merge(&mut self, o: &Tally) {
        self.evals += o.evals;
        self.nontrivial += o.nontrivial;
        self.merges += o.merges;
        self.unedited += o.unedited;
        self.unedited_with_markers += o.unedited_with_markers;
        self.unedited_clean_text += o.unedited_clean_text;
        self.unedited_simplified_smaller += o.unedited_simplified_smaller;
        self.unedited_simplified_smaller_with_markers += o.unedited_simplified_smaller_with_markers;
        self.unedited_with_absent += o.unedited_with_absent;
        self.edits += o.edits;
        self.edits_insert += o.edits_insert;
        self.edits_delete += o.edits_delete;
        self.edits_simplified_smaller += o.edits_simplified_smaller;
        self.edits_absent_became_present += o.edits_absent_became_present;
        self.edits_absent_stayed_absent += o.edits_absent_stayed_absent;
        self.edits_absorbed_resolution += o.edits_absorbed_resolution;
        self.wc_cases += o.wc_cases;
        self.wc_skipped_not_applicable += o.wc_skipped_not_applicable;
        self.wc_exec_differs += o.wc_exec_differs;
        self.wc_edits += o.wc_edits;
        self.wc_unedited_redundant_with_markers += o.wc_unedited_redundant_with_markers;
        self.wc_edits_redundant += o.wc_edits_redundant;
    }
    fn record_unedited(&mut self, info: &Info) {
        self.evals += 1;
        self.unedited += 1;
        if info.has_markers {
            self.nontrivial += 1;
            self.unedited_with_markers += 1;
        } else {
            self.unedited_clean_text += 1;
        }
        self.unedited_simplified_smaller += info.simplified_smaller as u64;
        self.unedited_simplified_smaller_with_markers += (info.simplified_smaller && info.has_markers) as u64;
        self.unedited_with_absent += info.has_absent as u64;
    }
    fn record_edit(&mut self, info: &Info, edit: &Edit) {
        self.evals += 1;
        self.nontrivial += 1;
        self.edits += 1;
        match edit {
            Edit::Insert { .. } => self.edits_insert += 1,
            Edit::Delete { .. } => self.edits_delete += 1,
        }
        self.edits_simplified_smaller += info.simplified_smaller as u64;
        self.edits_absent_became_present += info.absent_became_present as u64;
        self.edits_absent_stayed_absent += info.absent_stayed_absent as u64;
        self.edits_absorbed_resolution += info.absorbed_resolution as u64;
    }
    fn to_json(&self) -> Value {
        json!({
            "merges_enumerated (route x merge x style/exec)": self.merges,
            "unedited_evaluations": self.unedited,
            "unedited_with_conflict_markers": self.unedited_with_markers,
            "unedited_clean_text (simplified conflict merges cleanly)": self.unedited_clean_text,
            "unedited_with_redundant_pairs (simplified arity < arity)": self.unedited_simplified_smaller,
            "unedited_with_redundant_pairs_and_markers": self.unedited_simplified_smaller_with_markers,
            "unedited_with_absent_side": self.unedited_with_absent,
            "edit_evaluations": self.edits,
            "edits_insert_line": self.edits_insert,
            "edits_delete_line": self.edits_delete,
            "edits_on_conflicts_with_redundant_pairs": self.edits_simplified_smaller,
            "edits_absent_side_became_present": self.edits_absent_became_present,
            "edits_absent_side_stayed_absent (expected 0: a file with an absent side has no resolved text)": self.edits_absent_stayed_absent,
            "edits_where_a_resolved_hunk_was_not_common_to_all_sides": self.edits_absorbed_resolution,
            "wc_route_cases": self.wc_cases,
            "wc_route_not_applicable (path resolved by the tree merge, or no resolved region to edit)": self.wc_skipped_not_applicable,
            "wc_route_cases_with_executable_bit_difference": self.wc_exec_differs,
            "wc_route_edit_cases": self.wc_edits,
            "wc_route_unedited_with_redundant_pairs_and_markers": self.wc_unedited_redundant_with_markers,
            "wc_route_edits_on_conflicts_with_redundant_pairs": self.wc_edits_redundant,
        })
    }
}

fn direct_case_json(terms: &[Term], style: ConflictMarkerStyle, mc: MergeCfg, edit: Option<&Edit>) -> Value {
    json!({
        "route": "direct",
        "terms": terms,
        "terms_text": terms.iter().map(show_opt).collect::<Vec<_>>(),
        "style": style_name(style),
        "merge": mc.name(),
        "edit": edit.map(|e| e.to_json()),
    })
}

fn wc_case_json(terms: &[Term], exec: &[bool], style: ConflictMarkerStyle, mc: MergeCfg, edit_index: Option<usize>) -> Value {
    json!({
        "route": "wc",
        "terms": terms,
        "terms_text": terms.iter().map(show_opt).collect::<Vec<_>>(),
        "exec": exec,
        "style": style_name(style),
        "merge": mc.name(),
        "edit_index": edit_index,
    })
}

fn replay(ctx: &Ctx, case: &Value) {
    let terms: Vec<Term> = serde_json::from_value(case["terms"].clone())
        .unwrap_or_else(|e| vcommon::machinery_failure(&format!("bad replay case: {e}")));
    let style = style_from(case["style"].as_str().unwrap_or(""));
    let mc = MergeCfg::from_name(case["merge"].as_str().unwrap_or(""));
    let outcome = if case["route"] == "wc" {
        let exec: Vec<bool> = serde_json::from_value(case["exec"].clone()).unwrap_or_default();
        let edit_index = case["edit_index"].as_u64().map(|k| k as usize);
        let mut env = WcEnv::new(mc, style);
        wc_one(&mut env, &terms, &exec, edit_index).map(|_| ())
    } else {
        let env = DirectEnv::new(mc);
        let edit = Edit::from_json(&case["edit"]);
        prepare(env.store(), repo_path(PATH), &terms, style, &mc.options(), None)
            .and_then(|p| direct_one(&env, &p, style, edit.as_ref()))
            .map(|_| ())
    };
    match outcome {
        Ok(()) => println!("replay: held"),
        Err(f) => ctx.violation(&f.signature, f.message, case.clone()),
    }
}

fn main() {
    let ctx = Ctx::from_args("C06", Level::Exploration);
    vcommon::silence_panics();
    if let Some((_sig, case)) = ctx.replay_case() {
        replay(&ctx, &case);
        ctx.finish(Coverage { evaluations: 1, ..Default::default() });
    }

    let all_merge_cfgs = [
        MergeCfg { hunk_level: FileMergeHunkLevel::Line, same_change: SameChange::Accept },
        MergeCfg { hunk_level: FileMergeHunkLevel::Word, same_change: SameChange::Keep },
        MergeCfg { hunk_level: FileMergeHunkLevel::Line, same_change: SameChange::Keep },
        MergeCfg { hunk_level: FileMergeHunkLevel::Word, same_change: SameChange::Accept },
    ];
    let merge_cfgs = &all_merge_cfgs[..ctx.pick(2, 4)];
    // (arity, number of contents) per family
    let direct_families: Vec<(usize, usize)> = ctx.pick(vec![(3, 9), (5, 5)], vec![(3, 9), (5, 9), (7, 4)]);
    let wc_families: Vec<(usize, usize)> = ctx.pick(vec![(3, 5), (5, 4)], vec![(3, 9), (5, 5)]);
    let wc_styles: Vec<ConflictMarkerStyle> =
        ctx.pick(vec![ConflictMarkerStyle::Diff, ConflictMarkerStyle::Git], STYLES.to_vec());

    let samples = Samples::new(3);
    let samples_edit = Samples::new(3);
    let samples_wc = Samples::new(4);
    let mut total = Tally::default();
    let mut extra: BTreeMap<String, Value> = BTreeMap::new();
    let mut spaces = vec![];

    // ---- route 1 -----------------------------------------------------------------------
    for &(arity, ncontents) in &direct_families {
        let alphabet = contents_alphabet(ncontents);
        let dims = vec![alphabet.len(); arity];
        let n = product(&dims);
        for &mc in merge_cfgs {
            let chunk = 64u64;
            let chunks: Vec<u64> = (0..n.div_ceil(chunk)).collect();
            let fam = chunks
                .par_iter()
                .map_init(
                    || DirectEnv::new(mc),
                    |env, &c| {
                        let mut tally = Tally::default();
                        for idx in c * chunk..((c + 1) * chunk).min(n) {
                            let digits = decode(idx, &dims);
                            let terms: Vec<Term> = digits.iter().map(|&d| alphabet[d].clone()).collect();
                            for style in STYLES {
                                tally.merges += 1;
                                let p = match prepare(env.store(), repo_path(PATH), &terms, style, &mc.options(), None) {
                                    Ok(p) => p,
                                    Err(f) => {
                                        tally.evals += 1;
                                        ctx.violation(&f.signature, f.message, direct_case_json(&terms, style, mc, None));
                                        continue;
                                    }
                                };
                                match direct_one(env, &p, style, None) {
                                    Ok(info) => {
                                        tally.record_unedited(&info);
                                        if info.simplified_smaller && info.has_markers && idx % 37 == 0 && style == ConflictMarkerStyle::Snapshot {
                                            samples.offer(|| direct_case_json(&terms, style, mc, None));
                                        }
                                    }
                                    Err(f) => {
                                        tally.evals += 1;
                                        ctx.violation(&f.signature, f.message, direct_case_json(&terms, style, mc, None));
                                    }
                                }
                                if let Some((_, layout)) = &p.conflict {
                                    for e in edits_of(&p.text, layout) {
                                        match direct_one(env, &p, style, Some(&e)) {
                                            Ok(info) => {
                                                tally.record_edit(&info, &e);
                                                if info.simplified_smaller && info.absent_became_present && idx % 41 == 0 && style == ConflictMarkerStyle::Git {
                                                    samples_edit.offer(|| direct_case_json(&terms, style, mc, Some(&e)));
                                                }
                                            }
                                            Err(f) => {
                                                tally.evals += 1;
                                                ctx.violation(
                                                    &f.signature,
                                                    f.message,
                                                    direct_case_json(&terms, style, mc, Some(&e)),
                                                );
                                            }
                                        }
                                    }
                                }
                            }
                        }
                        tally
                    },
                )
                .reduce(Tally::default, |mut a, b| {
                    a.merge(&b);
                    a
                });
            println!(
                "[C06] direct {arity} terms over {ncontents} contents, merge {}: merges x styles={} unedited={} edits={} t={:.1}s",
                mc.name(),
                fam.merges,
                fam.unedited,
                fam.edits,
                ctx.elapsed_s()
            );
            total.merge(&fam);
        }
        spaces.push(format!(
            "direct: every {arity}-term Merge<Option<FileId>> over {} x 4 marker styles x {} merge settings, unedited + every edit",
            show_terms(&alphabet),
            merge_cfgs.len()
        ));
    }

    // ---- route 2 -----------------------------------------------------------------------
    for &(arity, ncontents) in &wc_families {
        let alphabet = contents_alphabet(ncontents);
        // executable patterns: all combinations for 3 terms; for 5 terms none / first side /
        // first base / all
        let exec_patterns: Vec<Vec<bool>> = if arity == 3 {
            (0..8u32).map(|m| (0..3).map(|i| m >> i & 1 == 1).collect()).collect()
        } else {
            vec![
                vec![false; arity],
                (0..arity).map(|i| i == 0).collect(),
                (0..arity).map(|i| i == 1).collect(),
                vec![true; arity],
            ]
        };
        let dims = vec![alphabet.len(); arity];
        let n = product(&dims);
        for &mc in &merge_cfgs[..1.max(merge_cfgs.len() / 2)] {
            for &style in &wc_styles {
                let chunk = 16u64;
                let chunks: Vec<u64> = (0..n.div_ceil(chunk)).collect();
                let fam = chunks
                    .par_iter()
                    .map_init(
                        || WcEnv::new(mc, style),
                        |env, &c| {
                            let mut tally = Tally::default();
                            for idx in c * chunk..((c + 1) * chunk).min(n) {
                                let digits = decode(idx, &dims);
                                let terms: Vec<Term> = digits.iter().map(|&d| alphabet[d].clone()).collect();
                                if terms.iter().all(|t| t.is_none()) {
                                    continue; // no file at all
                                }
                                for exec in &exec_patterns {
                                    // bits of absent terms are meaningless: keep one representative
                                    if terms.iter().zip(exec).any(|(t, x)| t.is_none() && *x) {
                                        continue;
                                    }
                                    tally.merges += 1;
                                    // unedited, then one edit (rotating through the edits)
                                    for edit_index in [None, Some(idx as usize)] {
                                        match wc_one(env, &terms, exec, edit_index) {
                                            Ok((info, applicable)) => {
                                                if !applicable {
                                                    tally.wc_skipped_not_applicable += 1;
                                                    continue;
                                                }
                                                tally.wc_cases += 1;
                                                let present: Vec<bool> = terms
                                                    .iter()
                                                    .zip(exec)
                                                    .filter(|(t, _)| t.is_some())
                                                    .map(|(_, x)| *x)
                                                    .collect();
                                                if present.iter().any(|x| *x != present[0]) {
                                                    tally.wc_exec_differs += 1;
                                                }
                                                match edit_index {
                                                    None => {
                                                        tally.record_unedited(&info);
                                                        tally.wc_unedited_redundant_with_markers +=
                                                            (info.simplified_smaller && info.has_markers) as u64;
                                                    }
                                                    Some(_) => {
                                                        tally.wc_edits += 1;
                                                        tally.wc_edits_redundant += info.simplified_smaller as u64;
                                                        // kind is not known here; count as insert/delete via evals only
                                                        tally.evals += 1;
                                                        tally.nontrivial += 1;
                                                        tally.edits += 1;
                                                        tally.edits_simplified_smaller += info.simplified_smaller as u64;
                                                        tally.edits_absent_became_present += info.absent_became_present as u64;
                                                        tally.edits_absent_stayed_absent += info.absent_stayed_absent as u64;
                                                        tally.edits_absorbed_resolution += info.absorbed_resolution as u64;
                                                    }
                                                }
                                                if info.simplified_smaller && info.has_markers && idx % 29 == 0 {
                                                    samples_wc.offer(|| wc_case_json(&terms, exec, style, mc, edit_index));
                                                }
                                            }
                                            Err(f) => {
                                                tally.evals += 1;
                                                ctx.violation(
                                                    &f.signature,
                                                    f.message,
                                                    wc_case_json(&terms, exec, style, mc, edit_index),
                                                );
                                            }
                                        }
                                    }
                                }
                            }
                            tally
                        },
                    )
                    .reduce(Tally::default, |mut a, b| {
                        a.merge(&b);
                        a
                    });
                println!(
                    "[C06] wc {arity} terms over {ncontents} contents x exec, style {} merge {}: trees={} cases={} (edits {}) n/a={} t={:.1}s",
                    style_name(style),
                    mc.name(),
                    fam.merges,
                    fam.wc_cases,
                    fam.wc_edits,
                    fam.wc_skipped_not_applicable,
                    ctx.elapsed_s()
                );
                total.merge(&fam);
            }
        }
        spaces.push(format!(
            "wc: every {arity}-term conflict at one path over {} x {} executable-bit patterns x styles {:?} x {} merge setting(s): checkout, rewrite identical bytes / one edit, snapshot",
            show_terms(&alphabet),
            exec_patterns.len(),
            wc_styles.iter().map(|s| style_name(*s)).collect::<Vec<_>>(),
            1.max(merge_cfgs.len() / 2),
        ));
    }

    let tj = total.to_json();
    println!("[C06] counters: {tj}");
    // vacuity gate (only meaningful when nothing failed: violations skip their counters)
    if ctx.violation_count() == 0 {
        for (k, v) in tj.as_object().unwrap() {
            if v.as_u64() == Some(0) && !k.contains("not_applicable") && !k.contains("stayed_absent") {
                vcommon::machinery_failure(&format!("vacuous: counter '{k}' is zero"));
            }
        }
    }
    extra.insert("spaces".into(), json!(spaces));
    extra.insert("counters".into(), tj);
    let cov = Coverage {
        evaluations: total.evals,
        distinct_nontrivial: total.nontrivial,
        rule: "one evaluation = one call of update_from_content (route direct) or one checkout+snapshot (route wc) \
               judged by the oracle; every (merge, style, merge setting, edit) is generated once; non-trivial = the \
               file on disk really contains conflict markers (unedited clause) or is an edit of such a file; files \
               whose simplified conflict merges cleanly are evaluated for the unedited clause but counted as trivial"
            .into(),
        samples: [samples.take(), samples_edit.take(), samples_wc.take()].concat(),
        exhaustive: true,
        extra,
        assumptions: vec![
            "files::merge_hunks (C04) defines the hunks; Merge::simplify / update_from_simplified (C01) define which positions survive simplification".into(),
            "edit clause: 'applied to every side' is read as: every term becomes (edited resolved regions + its own part of each conflict hunk); a resolved hunk that came from an automatic resolution is therefore absorbed into every side, as jj documents".into(),
            "when the simplified conflict merges cleanly the file has no markers; only the unedited clause is evaluated for it".into(),
            "the working-copy route resets the path by checking out an empty tree before every case, so cases are independent".into(),
        ],
        ..Default::default()
    };
    ctx.finish(cov);
}

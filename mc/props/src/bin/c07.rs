//! C07 — Tree merges are the path-wise merge of their inputs.
//!
//! Bounded-exhaustive: every 3-, 5- and 7-tuple over fixed alphabets of small trees (files,
//! executables, symlinks, nested directories, file/directory clashes) is merged by the real
//! `tree_merge::merge_trees` and by `MergedTree::merge` (also with inputs that are themselves
//! unresolved results of earlier merges), under both same-change settings and two backend
//! concurrency limits. The result is compared with a per-path reference that works on flat
//! `path -> leaf` maps: at every path take the input trees' values, resolve trivially, else
//! descend if all present terms are directories, else try the content merge if all terms are
//! files, else leave the terms as they are.
//!
//! Lower layers used by the reference (each has its own property): `trivial_merge` (C02),
//! `Merge::{flatten, simplify}` (C01), `files::try_merge` (C04), `TreeBuilder` to turn an
//! expected flat map into a tree id.

use std::collections::BTreeMap;
use std::collections::BTreeSet;
use std::collections::HashMap;
use std::pin::Pin;
use std::sync::Arc;
use std::sync::Mutex;
use std::time::SystemTime;

use async_trait::async_trait;
use futures::AsyncRead;
use futures::AsyncReadExt as _;
use futures::StreamExt as _;
use futures::stream::BoxStream;
use jj_lib::backend::Backend;
use jj_lib::backend::BackendError;
use jj_lib::backend::BackendResult;
use jj_lib::backend::ChangeId;
use jj_lib::backend::Commit;
use jj_lib::backend::CommitId;
use jj_lib::backend::CopyHistory;
use jj_lib::backend::CopyId;
use jj_lib::backend::CopyRecord;
use jj_lib::backend::FileId;
use jj_lib::backend::MergedTreeValue;
use jj_lib::backend::RelatedCopy;
use jj_lib::backend::SigningFn;
use jj_lib::backend::SymlinkId;
use jj_lib::backend::Tree as BackendTree;
use jj_lib::backend::TreeId;
use jj_lib::backend::TreeValue;
use jj_lib::backend::make_root_commit;
use jj_lib::content_hash::ContentHash;
use jj_lib::content_hash::blake2b_hash;
use jj_lib::object_id::ObjectId as _;
use jj_lib::files;
use jj_lib::files::FileMergeHunkLevel;
use jj_lib::index::Index;
use jj_lib::matchers::EverythingMatcher;
use jj_lib::merge::Merge;
use jj_lib::merge::SameChange;
use jj_lib::merge::trivial_merge;
use jj_lib::merged_tree::MergedTree;
use jj_lib::repo_path::RepoPath;
use jj_lib::repo_path::RepoPathBuf;
use jj_lib::signing::Signer;
use jj_lib::store::Store;
use jj_lib::tree_builder::TreeBuilder;
use jj_lib::tree_merge::MergeOptions;
use jj_lib::tree_merge::merge_trees;
use pollster::FutureExt as _;
use rayon::prelude::*;
use serde_json::Value;
use serde_json::json;
use vcommon::Counter;
use vcommon::Coverage;
use vcommon::Ctx;
use vcommon::Level;
use vcommon::Samples;
use vcommon::catch;
use vcommon::machinery_failure;

// ---------------------------------------------------------------------------------------
// A strict in-memory backend (objects are stored per path, like testutils' TestBackend, so a
// tree written at the wrong directory cannot be read back) with a configurable concurrency
// limit and *owned* completion order: every read/write yields to the executor a number of
// times derived from a hash of the request and the world's schedule salt, so that
// `FuturesUnordered` in the tree merger sees requests complete out of order, identically on
// every run.

#[derive(Default)]
struct MemData {
    files: HashMap<(RepoPathBuf, FileId), Vec<u8>>,
    symlinks: HashMap<(RepoPathBuf, SymlinkId), String>,
    trees: HashMap<(RepoPathBuf, TreeId), BackendTree>,
    commits: HashMap<CommitId, Commit>,
}

struct MemBackend {
    root_commit_id: CommitId,
    root_change_id: ChangeId,
    empty_tree_id: TreeId,
    data: Mutex<MemData>,
    conc: usize,
    salt: Option<u64>,
}

impl std::fmt::Debug for MemBackend {
    fn fmt(&self, f: &mut std::fmt::Formatter<'_>) -> std::fmt::Result {
        f.debug_struct("MemBackend").finish_non_exhaustive()
    }
}

fn obj_hash(content: &(impl ContentHash + ?Sized)) -> Vec<u8> {
    blake2b_hash(content).as_slice()[..10].to_vec()
}

struct YieldNow(bool);
impl Future for YieldNow {
    type Output = ();
    fn poll(mut self: Pin<&mut Self>, cx: &mut std::task::Context<'_>) -> std::task::Poll<()> {
        if self.0 {
            std::task::Poll::Ready(())
        } else {
            self.0 = true;
            cx.waker().wake_by_ref();
            std::task::Poll::Pending
        }
    }
}

impl MemBackend {
    fn new(conc: usize, salt: Option<u64>) -> Self {
        MemBackend {
            root_commit_id: CommitId::from_bytes(&[0; 10]),
            root_change_id: ChangeId::from_bytes(&[0; 16]),
            empty_tree_id: TreeId::new(obj_hash(&BackendTree::default())),
            data: Mutex::new(MemData::default()),
            conc,
            salt,
        }
    }

    async fn delay(&self, kind: &str, path: &RepoPath, id: &[u8]) {
        let Some(salt) = self.salt else { return };
        let mut key = kind.as_bytes().to_vec();
        key.extend_from_slice(path.as_internal_file_string().as_bytes());
        key.extend_from_slice(id);
        key.extend_from_slice(&salt.to_le_bytes());
        for _ in 0..(vcommon::fnv(&key) >> 7) % 4 {
            YieldNow(false).await;
        }
    }

    fn not_found(kind: &str, path: &RepoPath, hex: String) -> BackendError {
        BackendError::ObjectNotFound {
            object_type: kind.to_string(),
            hash: hex,
            source: format!("at path {path:?}").into(),
        }
    }
}

#[async_trait]
impl Backend for MemBackend {
    fn name(&self) -> &str {
        "mem"
    }
    fn commit_id_length(&self) -> usize {
        10
    }
    fn change_id_length(&self) -> usize {
        16
    }
    fn root_commit_id(&self) -> &CommitId {
        &self.root_commit_id
    }
    fn root_change_id(&self) -> &ChangeId {
        &self.root_change_id
    }
    fn empty_tree_id(&self) -> &TreeId {
        &self.empty_tree_id
    }
    fn concurrency(&self) -> usize {
        self.conc
    }
    async fn read_file(
        &self,
        path: &RepoPath,
        id: &FileId,
    ) -> BackendResult<Pin<Box<dyn AsyncRead + Send>>> {
        self.delay("rf", path, id.as_bytes()).await;
        let data = self.data.lock().unwrap();
        match data.files.get(&(path.to_owned(), id.clone())) {
            None => Err(Self::not_found("file", path, id.hex())),
            Some(c) => Ok(Box::pin(futures::io::Cursor::new(c.clone()))),
        }
    }
    async fn write_file(
        &self,
        path: &RepoPath,
        contents: &mut (dyn AsyncRead + Send + Unpin),
    ) -> BackendResult<FileId> {
        let mut bytes = vec![];
        contents.read_to_end(&mut bytes).await.unwrap();
        let id = FileId::new(obj_hash(&bytes));
        self.delay("wf", path, id.as_bytes()).await;
        self.data.lock().unwrap().files.insert((path.to_owned(), id.clone()), bytes);
        Ok(id)
    }
    async fn read_symlink(&self, path: &RepoPath, id: &SymlinkId) -> BackendResult<String> {
        self.delay("rs", path, id.as_bytes()).await;
        let data = self.data.lock().unwrap();
        data.symlinks
            .get(&(path.to_owned(), id.clone()))
            .cloned()
            .ok_or_else(|| Self::not_found("symlink", path, id.hex()))
    }
    async fn write_symlink(&self, path: &RepoPath, target: &str) -> BackendResult<SymlinkId> {
        let id = SymlinkId::new(obj_hash(target.as_bytes()));
        self.delay("ws", path, id.as_bytes()).await;
        self.data.lock().unwrap().symlinks.insert((path.to_owned(), id.clone()), target.to_string());
        Ok(id)
    }
    async fn read_copy(&self, _id: &CopyId) -> BackendResult<CopyHistory> {
        Err(BackendError::Unsupported("no copy tracking".into()))
    }
    async fn write_copy(&self, _copy: &CopyHistory) -> BackendResult<CopyId> {
        Err(BackendError::Unsupported("no copy tracking".into()))
    }
    async fn get_related_copies(&self, _copy_id: &CopyId) -> BackendResult<Vec<RelatedCopy>> {
        Err(BackendError::Unsupported("no copy tracking".into()))
    }
    async fn read_tree(&self, path: &RepoPath, id: &TreeId) -> BackendResult<BackendTree> {
        if id == &self.empty_tree_id {
            return Ok(BackendTree::default());
        }
        self.delay("rt", path, id.as_bytes()).await;
        let data = self.data.lock().unwrap();
        data.trees
            .get(&(path.to_owned(), id.clone()))
            .cloned()
            .ok_or_else(|| Self::not_found("tree", path, id.hex()))
    }
    async fn write_tree(&self, path: &RepoPath, contents: &BackendTree) -> BackendResult<TreeId> {
        let id = TreeId::new(obj_hash(contents));
        self.delay("wt", path, id.as_bytes()).await;
        self.data.lock().unwrap().trees.insert((path.to_owned(), id.clone()), contents.clone());
        Ok(id)
    }
    async fn read_commit(&self, id: &CommitId) -> BackendResult<Commit> {
        if id == &self.root_commit_id {
            return Ok(make_root_commit(self.root_change_id.clone(), self.empty_tree_id.clone()));
        }
        let data = self.data.lock().unwrap();
        data.commits
            .get(id)
            .cloned()
            .ok_or_else(|| Self::not_found("commit", RepoPath::root(), id.hex()))
    }
    async fn write_commit(
        &self,
        contents: Commit,
        _sign_with: Option<&mut SigningFn>,
    ) -> BackendResult<(CommitId, Commit)> {
        let id = CommitId::new(obj_hash(&contents));
        self.data.lock().unwrap().commits.insert(id.clone(), contents.clone());
        Ok((id, contents))
    }
    fn get_copy_records(
        &self,
        _paths: Option<&[RepoPathBuf]>,
        _root: &CommitId,
        _head: &CommitId,
    ) -> BackendResult<BoxStream<'_, BackendResult<CopyRecord>>> {
        Ok(futures::stream::empty().boxed())
    }
    fn gc(&self, _index: &dyn Index, _keep_newer: SystemTime) -> BackendResult<()> {
        Ok(())
    }
}

// ---------------------------------------------------------------------------------------
// Reference data model: a tree is a flat map from leaf path to leaf.

#[derive(Clone, PartialEq, Eq, Hash, Debug, PartialOrd, Ord)]
enum Leaf {
    File { content: String, exec: bool },
    Symlink(String),
}

type Flat = BTreeMap<String, Leaf>;

/// The value of a reference tree at a path.
#[derive(Clone, PartialEq, Eq, Hash, Debug, PartialOrd, Ord)]
enum RV {
    Leaf(Leaf),
    /// A directory, identified by everything below it (absolute paths).
    Dir(Flat),
}

type V = Option<RV>;

fn value_at(t: &Flat, p: &str) -> V {
    if let Some(l) = t.get(p) {
        return Some(RV::Leaf(l.clone()));
    }
    let prefix = format!("{p}/");
    let sub: Flat = t
        .iter()
        .filter(|(k, _)| k.starts_with(&prefix))
        .map(|(k, v)| (k.clone(), v.clone()))
        .collect();
    if sub.is_empty() { None } else { Some(RV::Dir(sub)) }
}

fn child_names(trees: &[Flat], dir: &str) -> BTreeSet<String> {
    let prefix = if dir.is_empty() { String::new() } else { format!("{dir}/") };
    let mut names = BTreeSet::new();
    for t in trees {
        for k in t.keys() {
            if let Some(rest) = k.strip_prefix(&prefix) {
                let name = rest.split('/').next().unwrap();
                names.insert(name.to_string());
            }
        }
    }
    names
}

fn join(dir: &str, name: &str) -> String {
    if dir.is_empty() { name.to_string() } else { format!("{dir}/{name}") }
}

#[derive(Default, Debug, Clone)]
struct Expected {
    /// visited paths that resolve to a present leaf
    resolved: BTreeMap<String, Leaf>,
    /// visited paths that must be absent in the result (resolved to nothing, or a directory
    /// that was descended into and ended up with nothing below it)
    absent: BTreeSet<String>,
    /// visited paths left unresolved, with the positional terms
    conflicts: BTreeMap<String, Vec<V>>,
    /// directories that were descended into (not compared themselves)
    descended: BTreeSet<String>,
    // classification for the vacuity counters
    root_trivial: bool,
    content_merged: u32,
    content_merge_failed: u32,
    exec_merge_decided: u32,
    mixed_conflicts: u32,
    non_file_conflicts: u32,
    emptied_dirs: u32,
    subtree_taken_whole: u32,
}

/// "then content merge for files": all terms of the simplified conflict must be files; the
/// executable bit is merged trivially (always accepting same changes), the content trivially
/// or by `files::try_merge`.
fn merge_files(terms: &[V], opts: &MergeOptions, exp: &mut Expected) -> Option<Leaf> {
    let simplified = Merge::from_vec(terms.to_vec()).simplify();
    let mut contents = vec![];
    let mut execs = vec![];
    for t in simplified.iter() {
        match t {
            Some(RV::Leaf(Leaf::File { content, exec })) => {
                contents.push(content.clone());
                execs.push(*exec);
            }
            _ => return None,
        }
    }
    let exec = *trivial_merge(&execs, SameChange::Accept)?;
    if execs.iter().any(|e| *e != execs[0]) {
        exp.exec_merge_decided += 1;
    }
    if let Some(c) = trivial_merge(&contents, opts.same_change) {
        return Some(Leaf::File { content: c.clone(), exec });
    }
    let by_content = Merge::from_vec(contents).simplify();
    match files::try_merge(&by_content, opts) {
        Some(merged) => {
            exp.content_merged += 1;
            Some(Leaf::File { content: String::from_utf8(merged.into()).unwrap(), exec })
        }
        None => {
            exp.content_merge_failed += 1;
            None
        }
    }
}

fn reference_dir(trees: &[Flat], dir: &str, opts: &MergeOptions, exp: &mut Expected) {
    for name in child_names(trees, dir) {
        let p = join(dir, &name);
        let terms: Vec<V> = trees.iter().map(|t| value_at(t, &p)).collect();
        match trivial_merge(&terms, opts.same_change) {
            Some(None) => {
                exp.absent.insert(p);
            }
            Some(Some(RV::Leaf(l))) => {
                exp.resolved.insert(p, l.clone());
            }
            Some(Some(RV::Dir(sub))) => {
                exp.subtree_taken_whole += 1;
                for (k, l) in sub {
                    exp.resolved.insert(k.clone(), l.clone());
                }
            }
            None => {
                let any_dir = terms.iter().any(|t| matches!(t, Some(RV::Dir(_))));
                let any_leaf = terms.iter().any(|t| matches!(t, Some(RV::Leaf(_))));
                if any_dir && !any_leaf {
                    let before = exp.resolved.len() + exp.conflicts.len();
                    exp.descended.insert(p.clone());
                    reference_dir(trees, &p, opts, exp);
                    if exp.resolved.len() + exp.conflicts.len() == before {
                        exp.emptied_dirs += 1;
                        exp.absent.insert(p);
                    }
                } else if let Some(l) = merge_files(&terms, opts, exp) {
                    // (directory terms that cancel each other do not prevent the file merge)
                    exp.resolved.insert(p, l);
                } else {
                    if any_dir {
                        exp.mixed_conflicts += 1;
                    } else if terms
                        .iter()
                        .any(|t| !matches!(t, Some(RV::Leaf(Leaf::File { .. }))))
                    {
                        exp.non_file_conflicts += 1;
                    }
                    exp.conflicts.insert(p, terms);
                }
            }
        }
    }
}

fn reference(trees: &[Flat], opts: &MergeOptions) -> Expected {
    let mut exp = Expected::default();
    if let Some(t) = trivial_merge(trees, opts.same_change) {
        exp.root_trivial = true;
        exp.resolved = t.clone();
        return exp;
    }
    reference_dir(trees, "", opts, &mut exp);
    exp
}

/// The i-th term tree the result must have when conflicts remain: resolved entries plus the
/// i-th term of every conflict.
fn expected_term(exp: &Expected, i: usize) -> Flat {
    let mut t = exp.resolved.clone();
    for terms in exp.conflicts.iter() {
        match &terms.1[i] {
            None => {}
            Some(RV::Leaf(l)) => {
                t.insert(terms.0.clone(), l.clone());
            }
            Some(RV::Dir(sub)) => {
                for (k, l) in sub {
                    t.insert(k.clone(), l.clone());
                }
            }
        }
    }
    t
}

fn signed(terms: &[V]) -> BTreeMap<V, i32> {
    let mut m = BTreeMap::new();
    for (i, t) in terms.iter().enumerate() {
        *m.entry(t.clone()).or_insert(0) += if i % 2 == 0 { 1 } else { -1 };
    }
    m.retain(|_, c| *c != 0);
    m
}

fn signed_ids(m: &Merge<TreeId>) -> BTreeMap<TreeId, i32> {
    let mut out = BTreeMap::new();
    for (i, t) in m.iter().enumerate() {
        *out.entry(t.clone()).or_insert(0) += if i % 2 == 0 { 1 } else { -1 };
    }
    out.retain(|_, c| *c != 0);
    out
}

// ---------------------------------------------------------------------------------------
// One store configuration.

struct World {
    store: Arc<Store>,
    sc: SameChange,
    conc: usize,
    opts: MergeOptions,
    tree_ids: Mutex<HashMap<Flat, TreeId>>,
    flats: Mutex<HashMap<TreeId, Flat>>,
    merged_inputs: Mutex<HashMap<String, MergedTree>>,
}

fn sc_name(sc: SameChange) -> &'static str {
    match sc {
        SameChange::Keep => "keep",
        SameChange::Accept => "accept",
    }
}

fn rp(p: &str) -> RepoPathBuf {
    RepoPathBuf::from_internal_string(p).unwrap()
}

impl World {
    fn new(sc: SameChange, conc: usize) -> World {
        let settings = testutils::user_settings();
        // concurrency 1: every request completes at once; otherwise: hashed delays
        let backend = MemBackend::new(conc, (conc > 1).then_some(conc as u64));
        let opts = MergeOptions { hunk_level: FileMergeHunkLevel::Line, same_change: sc };
        let store = Store::new(
            Box::new(backend),
            Signer::from_settings(&settings).unwrap(),
            opts.clone(),
        );
        World {
            store,
            sc,
            conc,
            opts,
            tree_ids: Mutex::new(HashMap::new()),
            flats: Mutex::new(HashMap::new()),
            merged_inputs: Mutex::new(HashMap::new()),
        }
    }

    fn leaf_value(&self, path: &RepoPath, leaf: &Leaf) -> TreeValue {
        match leaf {
            Leaf::File { content, exec } => {
                let id = self
                    .store
                    .write_file(path, &mut content.as_bytes())
                    .block_on()
                    .unwrap();
                TreeValue::File { id, executable: *exec, copy_id: CopyId::placeholder() }
            }
            Leaf::Symlink(target) => {
                TreeValue::Symlink(self.store.write_symlink(path, target).block_on().unwrap())
            }
        }
    }

    /// Writes the tree described by a flat map (through `TreeBuilder`, from the empty tree).
    fn tree_id(&self, flat: &Flat) -> TreeId {
        if let Some(id) = self.tree_ids.lock().unwrap().get(flat) {
            return id.clone();
        }
        let mut b = TreeBuilder::new(self.store.clone(), self.store.empty_tree_id().clone());
        for (p, leaf) in flat {
            let path = rp(p);
            let v = self.leaf_value(&path, leaf);
            b.set(path, v);
        }
        let id = b.write_tree().block_on().unwrap();
        self.tree_ids.lock().unwrap().insert(flat.clone(), id.clone());
        id
    }

    /// Reads a tree back into a flat map.
    fn flat_of(&self, id: &TreeId) -> Flat {
        if let Some(f) = self.flats.lock().unwrap().get(id) {
            return f.clone();
        }
        let tree = self.store.get_tree(RepoPathBuf::root(), id).block_on().unwrap();
        let mut out = Flat::new();
        for (path, value) in tree.entries_matching(&EverythingMatcher) {
            out.insert(path.as_internal_file_string().to_string(), self.leaf_of(&path, &value));
        }
        self.flats.lock().unwrap().insert(id.clone(), out.clone());
        out
    }

    fn leaf_of(&self, path: &RepoPath, value: &TreeValue) -> Leaf {
        match value {
            TreeValue::File { id, executable, .. } => {
                let mut content = vec![];
                self.store
                    .read_file(path, id)
                    .block_on()
                    .unwrap()
                    .read_to_end(&mut content)
                    .block_on()
                    .unwrap();
                Leaf::File { content: String::from_utf8(content).unwrap(), exec: *executable }
            }
            TreeValue::Symlink(id) => {
                Leaf::Symlink(self.store.read_symlink(path, id).block_on().unwrap())
            }
            other => machinery_failure(&format!("unexpected tree value {other:?} at {path:?}")),
        }
    }

    /// Converts a value observed through `MergedTree::path_value` into reference terms.
    fn observed_terms(&self, path: &RepoPath, value: &MergedTreeValue) -> Vec<V> {
        value
            .iter()
            .map(|t| match t {
                None => None,
                Some(TreeValue::Tree(id)) => {
                    let tree = self.store.get_tree(path.to_owned(), id).block_on().unwrap();
                    let mut sub = Flat::new();
                    for (p, v) in tree.entries_matching(&EverythingMatcher) {
                        sub.insert(p.as_internal_file_string().to_string(), self.leaf_of(&p, &v));
                    }
                    // An empty directory object is not "absent"; keep it distinguishable.
                    Some(RV::Dir(sub))
                }
                Some(v) => Some(RV::Leaf(self.leaf_of(path, v))),
            })
            .collect()
    }
}

// ---------------------------------------------------------------------------------------
// Cases.

#[derive(Clone, Debug)]
enum Input {
    Tree(Flat),
    /// The (possibly unresolved) result of `MergedTree::merge` of the inner inputs.
    Merged(Vec<Input>),
}

fn leaf_json(l: &Leaf) -> Value {
    match l {
        Leaf::File { content, exec } => json!({"file": content, "exec": exec}),
        Leaf::Symlink(t) => json!({"symlink": t}),
    }
}

fn flat_json(f: &Flat) -> Value {
    Value::Object(f.iter().map(|(k, v)| (k.clone(), leaf_json(v))).collect())
}

fn input_json(i: &Input) -> Value {
    match i {
        Input::Tree(f) => json!({"tree": flat_json(f)}),
        Input::Merged(v) => json!({"merge": v.iter().map(input_json).collect::<Vec<_>>()}),
    }
}

fn input_from_json(v: &Value) -> Input {
    if let Some(t) = v.get("tree") {
        let mut f = Flat::new();
        for (k, l) in t.as_object().unwrap() {
            let leaf = if let Some(c) = l.get("file") {
                Leaf::File {
                    content: c.as_str().unwrap().to_string(),
                    exec: l["exec"].as_bool().unwrap(),
                }
            } else {
                Leaf::Symlink(l["symlink"].as_str().unwrap().to_string())
            };
            f.insert(k.clone(), leaf);
        }
        Input::Tree(f)
    } else {
        Input::Merged(v["merge"].as_array().unwrap().iter().map(input_from_json).collect())
    }
}

type Fail = (String, String);

/// A panic inside `MergedTree::merge`. jj's own idempotence assertion in `resolve()` ("the last
/// simplification doesn't enable further automatic resolutions") gets its own signature.
fn panic_failure(e: String) -> Fail {
    // (the two sides of that assertion are tree-id merges; the other assert_eq!s of
    // merged_tree.rs compare numbers of sides)
    if e.contains("merged_tree.rs") && e.contains("left == right") && e.contains("TreeId(") {
        (
            "C07/MergedTree::merge/remerge-after-simplify-differs".to_string(),
            format!(
                "jj's debug assertion in MergedTree::resolve fired: merging the simplified result \
                 again gives a different tree (left = re-merged, right = returned): {e}"
            ),
        )
    } else {
        ("C07/MergedTree::merge/panic".to_string(), e)
    }
}

fn to_merged_tree(w: &World, input: &Input) -> Result<MergedTree, Fail> {
    match input {
        Input::Tree(f) => Ok(MergedTree::resolved(w.store.clone(), w.tree_id(f))),
        Input::Merged(inner) => {
            let key = format!("{input:?}");
            if let Some(mt) = w.merged_inputs.lock().unwrap().get(&key) {
                return Ok(mt.clone());
            }
            let terms: Vec<(MergedTree, String)> = inner
                .iter()
                .enumerate()
                .map(|(i, x)| Ok((to_merged_tree(w, x)?, format!("inner{i}"))))
                .collect::<Result<_, Fail>>()?;
            catch(|| MergedTree::merge(Merge::from_vec(terms)).block_on())
                .map_err(panic_failure)?
                .map_err(|e| ("C07/MergedTree::merge/error".to_string(), format!("{e:?}")))
                .inspect(|mt| {
                    w.merged_inputs.lock().unwrap().insert(key, mt.clone());
                })
        }
    }
}

#[derive(Default)]
struct Stats {
    nontrivial: bool,
    conflicted: bool,
    exp: Expected,
    pre_simplified: bool,
    post_simplified: bool,
}

fn describe(exp: &Expected) -> String {
    format!(
        "expected resolved {:?}, absent {:?}, conflicts {:?}",
        exp.resolved, exp.absent, exp.conflicts
    )
}

/// API A: `merge_trees` on the raw list of tree ids; the result must be exactly the resolved
/// expected tree, or the positional term trees.
fn check_merge_trees(w: &World, trees: &[Flat]) -> Result<Stats, Fail> {
    let api = "merge_trees";
    let ids: Vec<TreeId> = trees.iter().map(|t| w.tree_id(t)).collect();
    let result = catch(|| merge_trees(&w.store, Merge::from_vec(ids.clone())).block_on())
        .map_err(|e| (format!("C07/{api}/panic"), e))?
        .map_err(|e| (format!("C07/{api}/error"), format!("{e:?}")))?;
    let exp = reference(trees, &w.opts);
    // (c) arity
    if !(result.is_resolved() || result.num_sides() == ids.len() / 2 + 1) {
        return Err((
            format!("C07/{api}/arity"),
            format!("{} inputs gave {} terms", ids.len(), result.iter().count()),
        ));
    }
    // (b) conflict-free exactly when no path conflicts
    if result.is_resolved() != exp.conflicts.is_empty() {
        return Err((
            format!("C07/{api}/conflict-iff"),
            format!("result resolved = {}, but {}", result.is_resolved(), describe(&exp)),
        ));
    }
    let expected_ids: Vec<TreeId> = if exp.conflicts.is_empty() {
        vec![w.tree_id(&exp.resolved)]
    } else {
        (0..trees.len()).map(|i| w.tree_id(&expected_term(&exp, i))).collect()
    };
    let actual_ids: Vec<TreeId> = result.iter().cloned().collect();
    if expected_ids != actual_ids {
        let actual: Vec<Flat> = actual_ids.iter().map(|id| w.flat_of(id)).collect();
        let expected: Vec<Flat> = if exp.conflicts.is_empty() {
            vec![exp.resolved.clone()]
        } else {
            (0..trees.len()).map(|i| expected_term(&exp, i)).collect()
        };
        let shape = if exp.conflicts.is_empty() { "resolved-tree" } else { "term-trees" };
        let same_content = actual == expected;
        return Err((
            format!(
                "C07/{api}/{shape}-differ{}",
                if same_content { "-in-id-only" } else { "" }
            ),
            format!("got {actual:?}, per-path merge says {expected:?}"),
        ));
    }
    Ok(Stats {
        nontrivial: !exp.root_trivial,
        conflicted: !exp.conflicts.is_empty(),
        exp,
        ..Default::default()
    })
}

/// API B: `MergedTree::merge` (flatten, simplify, merge, simplify); compared path by path
/// through `path_value` modulo the denotation of conflicts.
fn check_merged_tree(w: &World, inputs: &[Input]) -> Result<Stats, Fail> {
    let api = "MergedTree::merge";
    let mts: Vec<MergedTree> =
        inputs.iter().map(|i| to_merged_tree(w, i)).collect::<Result<_, Fail>>()?;
    // Reference input list: flatten the (actual) input terms, then simplify (C01).
    let nested: Vec<Merge<Flat>> = inputs
        .iter()
        .zip(&mts)
        .map(|(input, mt)| match input {
            Input::Tree(f) => Merge::resolved(f.clone()),
            Input::Merged(_) => Merge::from_vec(
                mt.tree_ids().iter().map(|id| w.flat_of(id)).collect::<Vec<_>>(),
            ),
        })
        .collect();
    let flat = Merge::from_vec(nested).flatten();
    let list = flat.simplify();
    let pre_simplified = list.iter().count() < flat.iter().count();
    let list: Vec<Flat> = list.iter().cloned().collect();
    let labelled: Vec<(MergedTree, String)> =
        mts.iter().enumerate().map(|(i, mt)| (mt.clone(), format!("side{i}"))).collect();
    let result = catch(|| MergedTree::merge(Merge::from_vec(labelled)).block_on())
        .map_err(panic_failure)?
        .map_err(|e| (format!("C07/{api}/error"), format!("{e:?}")))?;
    let exp = reference(&list, &w.opts);
    let arity = result.tree_ids().iter().count();
    if arity % 2 != 1 || arity > list.len() {
        return Err((
            format!("C07/{api}/arity"),
            format!("{} simplified input terms gave {arity} terms", list.len()),
        ));
    }
    if result.has_conflict() == exp.conflicts.is_empty() {
        return Err((
            format!("C07/{api}/conflict-iff"),
            format!("has_conflict() = {}, but {}", result.has_conflict(), describe(&exp)),
        ));
    }
    // (a) one side equals the base: the other side's tree (id for id when it is a single tree;
    // as the same signed multiset of tree ids when the other side is itself a conflict, because
    // cancelling the base against the equal side may reorder the remaining sides)
    if inputs.len() == 3 {
        let t: Vec<&Merge<TreeId>> = mts.iter().map(|m| m.tree_ids()).collect();
        let other = if t[0] == t[1] {
            Some(t[2])
        } else if t[2] == t[1] {
            Some(t[0])
        } else {
            None
        };
        if let Some(other) = other {
            let same = if other.is_resolved() {
                result.tree_ids() == other
            } else {
                signed_ids(result.tree_ids()) == signed_ids(other)
            };
            if !same {
                return Err((
                    format!("C07/{api}/side-equals-base"),
                    format!("got {:?}, the other side is {:?}", result.tree_ids(), other),
                ));
            }
        }
    }
    if exp.conflicts.is_empty() {
        let expected_id = w.tree_id(&exp.resolved);
        if result.tree_ids() != &Merge::resolved(expected_id) {
            let actual: Vec<Flat> = result.tree_ids().iter().map(|id| w.flat_of(id)).collect();
            return Err((
                format!("C07/{api}/resolved-tree-differ"),
                format!("got {actual:?}, per-path merge says {:?}", exp.resolved),
            ));
        }
    } else {
        for (p, leaf) in &exp.resolved {
            let path = rp(p);
            let got = result.path_value(&path).block_on().unwrap();
            let terms = w.observed_terms(&path, &got);
            if terms != vec![Some(RV::Leaf(leaf.clone()))] {
                return Err((
                    format!("C07/{api}/path-value/resolved"),
                    format!("at {p}: got {terms:?}, per-path merge says {leaf:?}"),
                ));
            }
        }
        for p in &exp.absent {
            let path = rp(p);
            let got = result.path_value(&path).block_on().unwrap();
            if !got.is_absent() {
                return Err((
                    format!("C07/{api}/path-value/absent"),
                    format!("at {p}: got {got:?}, per-path merge says absent"),
                ));
            }
        }
        for (p, want) in &exp.conflicts {
            let path = rp(p);
            let got = result.path_value(&path).block_on().unwrap();
            let terms = w.observed_terms(&path, &got);
            if got.is_resolved() || signed(&terms) != signed(want) {
                return Err((
                    format!("C07/{api}/path-value/conflict"),
                    format!("at {p}: got {terms:?}, per-path merge says the terms {want:?}"),
                ));
            }
        }
        // nothing else in the result. A file/directory conflict whose file terms cancel is a
        // conflict between directories only; whether it is listed as one entry or by its
        // children depends on whether the cancelling terms are whole equal trees, which the
        // per-path statement does not fix, so such paths are left out of this comparison.
        let dir_only: Vec<&String> = exp
            .conflicts
            .iter()
            .filter(|(_, terms)| signed(terms).keys().all(|t| !matches!(t, Some(RV::Leaf(_)))))
            .map(|(p, _)| p)
            .collect();
        let excluded = |p: &str| {
            dir_only.iter().any(|q| p == q.as_str() || p.starts_with(&format!("{q}/")))
        };
        let mut listed = BTreeSet::new();
        for (path, value) in result.entries() {
            value.map_err(|e| (format!("C07/{api}/error"), format!("{e:?}")))?;
            let p = path.as_internal_file_string().to_string();
            if !excluded(&p) {
                listed.insert(p);
            }
        }
        let wanted: BTreeSet<String> = exp
            .resolved
            .keys()
            .chain(exp.conflicts.keys())
            .filter(|p| !excluded(p))
            .cloned()
            .collect();
        if listed != wanted {
            return Err((
                format!("C07/{api}/entries"),
                format!("result lists {listed:?}, per-path merge says {wanted:?}"),
            ));
        }
    }
    Ok(Stats {
        nontrivial: !exp.root_trivial,
        conflicted: !exp.conflicts.is_empty(),
        post_simplified: !exp.conflicts.is_empty() && arity < list.len(),
        pre_simplified,
        exp,
    })
}

// ---------------------------------------------------------------------------------------
// Alphabets.

const C0: &str = "a\nb\nc\n";
const C1: &str = "A\nb\nc\n";
const C2: &str = "a\nb\nC\n";

fn file(c: &str) -> Leaf {
    Leaf::File { content: c.to_string(), exec: false }
}
fn exec(c: &str) -> Leaf {
    Leaf::File { content: c.to_string(), exec: true }
}
fn link() -> Leaf {
    Leaf::Symlink("target".to_string())
}

fn tree(entries: &[(&str, Leaf)]) -> Flat {
    entries.iter().map(|(k, v)| (k.to_string(), v.clone())).collect()
}

/// Slot `a` x slot `d` (absent, a file, or a directory with `c` and `e/f`).
fn product_alphabet(a_vals: &[Option<Leaf>], d_vals: &[Flat]) -> Vec<Flat> {
    let mut out = vec![];
    for a in a_vals {
        for d in d_vals {
            let mut t = d.clone();
            if let Some(a) = a {
                t.insert("a".to_string(), a.clone());
            }
            out.push(t);
        }
    }
    out
}

fn d_dirs(c_vals: &[Option<Leaf>], ef_vals: &[Option<Leaf>]) -> Vec<Flat> {
    let mut out = vec![];
    for c in c_vals {
        for ef in ef_vals {
            let mut t = Flat::new();
            if let Some(c) = c {
                t.insert("d/c".to_string(), c.clone());
            }
            if let Some(ef) = ef {
                t.insert("d/e/f".to_string(), ef.clone());
            }
            if !t.is_empty() {
                out.push(t);
            }
        }
    }
    out
}

fn alphabet3(thorough: bool) -> Vec<Flat> {
    if thorough {
        let a = [None, Some(file(C0)), Some(file(C1)), Some(file(C2)), Some(exec(C1)), Some(link())];
        let mut d = vec![Flat::new(), tree(&[("d", file(C0))]), tree(&[("d", file(C1))])];
        d.extend(d_dirs(
            &[None, Some(file(C0)), Some(file(C1)), Some(file(C2))],
            &[None, Some(file(C0)), Some(file(C1))],
        ));
        product_alphabet(&a, &d)
    } else {
        let a = [None, Some(file(C0)), Some(file(C1)), Some(file(C2))];
        let d = vec![
            Flat::new(),
            tree(&[("d", file(C0))]),
            tree(&[("d/c", file(C0))]),
            tree(&[("d/c", file(C1))]),
            tree(&[("d/c", file(C2))]),
            tree(&[("d/c", file(C0)), ("d/e/f", file(C0))]),
            tree(&[("d/e/f", file(C0))]),
        ];
        let mut out = product_alphabet(&a, &d);
        out.push(tree(&[("a", exec(C1))]));
        out.push(tree(&[("a", exec(C0)), ("d/c", file(C0))]));
        out.push(tree(&[("a", link())]));
        out
    }
}

fn alphabet5(thorough: bool) -> Vec<Flat> {
    // two values of `a` x {file, three directories}: includes the shapes in which a file/
    // directory conflict loses its file terms by cancellation
    let a = [Some(file(C0)), Some(file(C1))];
    let d = vec![
        tree(&[("d", file(C0))]),
        tree(&[("d/c", file(C0))]),
        tree(&[("d/c", file(C1))]),
        tree(&[("d/c", file(C2)), ("d/e/f", file(C0))]),
    ];
    let mut out = product_alphabet(&a, &d);
    if thorough {
        out.extend([
            Flat::new(),
            tree(&[("a", link())]),
            tree(&[("a", exec(C0)), ("d/e/f", file(C0))]),
            tree(&[("a", exec(C1)), ("d", file(C1))]),
        ]);
    }
    out
}

/// One path, many values: 5-way conflicts whose terms partly cancel (padded absent terms,
/// cancelling directories) before the file merge.
fn alphabet5_single_path(thorough: bool) -> Vec<Flat> {
    let mut out = vec![
        Flat::new(),
        tree(&[("a", file(C0))]),
        tree(&[("a", file(C1))]),
        tree(&[("a", file(C2))]),
        tree(&[("a", exec(C1))]),
        tree(&[("a/c", file(C0))]),
    ];
    if thorough {
        out.extend([tree(&[("a", link())]), tree(&[("a/c", file(C1))]), tree(&[("a", exec(C0))])]);
    }
    out
}

fn alphabet7(thorough: bool) -> Vec<Flat> {
    let mut out = vec![
        tree(&[("a", file(C0)), ("d/c", file(C0))]),
        tree(&[("a", file(C1)), ("d/c", file(C0)), ("d/e/f", file(C0))]),
        tree(&[("a", file(C2)), ("d", file(C0))]),
        tree(&[("d/c", file(C1))]),
    ];
    if thorough {
        out.extend([Flat::new(), tree(&[("a", exec(C0)), ("d/c", file(C2))])]);
    }
    out
}

fn alphabet_nested(thorough: bool) -> Vec<Flat> {
    let mut out = vec![
        tree(&[("a", file(C0)), ("d/c", file(C0))]),
        tree(&[("a", file(C1)), ("d/c", file(C0))]),
        tree(&[("a", link()), ("d/c", file(C1))]),
        tree(&[("a", file(C0)), ("d", file(C0))]),
        tree(&[("a", file(C0)), ("d/c", file(C2)), ("d/e/f", file(C0))]),
    ];
    if thorough {
        out.push(tree(&[("a", exec(C0))]));
    }
    out
}

// ---------------------------------------------------------------------------------------

#[derive(Default)]
struct Tally {
    evals: Counter,
    nontrivial: Counter,
    root_trivial: Counter,
    conflicted: Counter,
    resolved_after_recursion: Counter,
    content_merged: Counter,
    content_merge_failed: Counter,
    exec_merge_decided: Counter,
    mixed_conflicts: Counter,
    non_file_conflicts: Counter,
    emptied_dirs: Counter,
    subtree_taken_whole: Counter,
    descended: Counter,
    pre_simplified: Counter,
    post_simplified: Counter,
}

impl Tally {
    fn add(&self, s: &Stats) {
        self.evals.inc();
        if s.nontrivial {
            self.nontrivial.inc();
        } else {
            self.root_trivial.inc();
        }
        if s.conflicted {
            self.conflicted.inc();
        } else if s.nontrivial {
            self.resolved_after_recursion.inc();
        }
        let e = &s.exp;
        let flag = |c: &Counter, n: u32| {
            if n > 0 {
                c.inc();
            }
        };
        flag(&self.content_merged, e.content_merged);
        flag(&self.content_merge_failed, e.content_merge_failed);
        flag(&self.exec_merge_decided, e.exec_merge_decided);
        flag(&self.mixed_conflicts, e.mixed_conflicts);
        flag(&self.non_file_conflicts, e.non_file_conflicts);
        flag(&self.emptied_dirs, e.emptied_dirs);
        flag(&self.subtree_taken_whole, e.subtree_taken_whole);
        flag(&self.descended, e.descended.len() as u32);
        if s.pre_simplified {
            self.pre_simplified.inc();
        }
        if s.post_simplified {
            self.post_simplified.inc();
        }
    }
    fn json(&self) -> Value {
        json!({
            "cases": self.evals.get(),
            "root_not_trivial": self.nontrivial.get(),
            "root_trivial": self.root_trivial.get(),
            "result_conflicted": self.conflicted.get(),
            "resolved_only_after_recursion": self.resolved_after_recursion.get(),
            "with_successful_content_merge": self.content_merged.get(),
            "with_failed_content_merge": self.content_merge_failed.get(),
            "with_exec_bit_merge": self.exec_merge_decided.get(),
            "with_file_directory_conflict": self.mixed_conflicts.get(),
            "with_symlink_or_absent_conflict": self.non_file_conflicts.get(),
            "with_directory_emptied_by_merge": self.emptied_dirs.get(),
            "with_subtree_taken_whole": self.subtree_taken_whole.get(),
            "with_directory_recursion": self.descended.get(),
            "input_terms_cancelled_before_merge": self.pre_simplified.get(),
            "result_terms_cancelled_after_merge": self.post_simplified.get(),
        })
    }
}

fn case_json(w: &World, api: &str, inputs: &[Input]) -> Value {
    json!({
        "api": api,
        "same_change": sc_name(w.sc),
        "concurrency": w.conc,
        "inputs": inputs.iter().map(input_json).collect::<Vec<_>>(),
    })
}

/// Runs both APIs on one tuple of plain trees.
fn run_plain(ctx: &Ctx, w: &World, trees: &[Flat], ta: &Tally, tb: &Tally, samples: &Samples) {
    let inputs = || trees.iter().cloned().map(Input::Tree).collect::<Vec<_>>();
    match check_merge_trees(w, trees) {
        Ok(s) => {
            if s.conflicted && s.exp.descended.len() > 0 {
                samples.offer(|| case_json(w, "merge_trees", &inputs()));
            }
            ta.add(&s);
        }
        Err((sig, msg)) => ctx.violation(&sig, msg, case_json(w, "merge_trees", &inputs())),
    }
    let ins = inputs();
    match check_merged_tree(w, &ins) {
        Ok(s) => tb.add(&s),
        Err((sig, msg)) => ctx.violation(&sig, msg, case_json(w, "MergedTree::merge", &ins)),
    }
}

fn decode(mut idx: usize, base: usize, n: usize) -> Vec<usize> {
    let mut d = vec![0; n];
    for i in (0..n).rev() {
        d[i] = idx % base;
        idx /= base;
    }
    d
}

fn main() {
    let ctx = Ctx::from_args("C07", Level::Exploration);
    vcommon::silence_panics();
    if let Some((_sig, case)) = ctx.replay_case() {
        let sc = if case["same_change"] == "keep" { SameChange::Keep } else { SameChange::Accept };
        let w = World::new(sc, case["concurrency"].as_u64().unwrap() as usize);
        let inputs: Vec<Input> =
            case["inputs"].as_array().unwrap().iter().map(input_from_json).collect();
        let r = if case["api"] == "merge_trees" {
            let trees: Vec<Flat> = inputs
                .iter()
                .map(|i| match i {
                    Input::Tree(f) => f.clone(),
                    Input::Merged(_) => machinery_failure("merge_trees case with nested input"),
                })
                .collect();
            check_merge_trees(&w, &trees)
        } else {
            check_merged_tree(&w, &inputs)
        };
        match r {
            Ok(_) => println!("replay: the case passes"),
            Err((sig, msg)) => ctx.violation(&sig, msg, case),
        }
        ctx.finish(Coverage { evaluations: 1, ..Default::default() });
    }

    let thorough = ctx.thorough();
    let concs: [usize; 2] = [1, 4];
    let configs: Vec<(SameChange, usize)> = [SameChange::Accept, SameChange::Keep]
        .into_iter()
        .flat_map(|sc| concs.iter().map(move |c| (sc, *c)))
        .collect();
    // Stores are private to a worker (no shared mutable state between workers).
    let make_worlds = || configs.iter().map(|(sc, c)| World::new(*sc, *c)).collect::<Vec<World>>();
    let ta = Tally::default();
    let tb = Tally::default();
    let tn = Tally::default();
    let samples = Samples::new(5);
    let mut sizes = serde_json::Map::new();

    for (label, arity, alphabet) in [
        ("3way", 3usize, alphabet3(thorough)),
        ("5way", 5, alphabet5(thorough)),
        ("5way_single_path", 5, alphabet5_single_path(thorough)),
        ("7way", 7, alphabet7(thorough)),
    ] {
        {
            let distinct: BTreeSet<&Flat> = alphabet.iter().collect();
            if distinct.len() != alphabet.len() {
                machinery_failure("alphabet contains duplicate trees");
            }
        }
        let t = alphabet.len();
        let total = t.pow(arity as u32);
        sizes.insert(format!("trees_{label}"), json!(t));
        sizes.insert(format!("tuples_{label}"), json!(total));
        (0..total).into_par_iter().for_each_init(make_worlds, |worlds, idx| {
            let trees: Vec<Flat> =
                decode(idx, t, arity).into_iter().map(|i| alphabet[i].clone()).collect();
            for w in worlds.iter() {
                run_plain(&ctx, w, &trees, &ta, &tb, &samples);
            }
        });
    }

    // Already conflicted inputs: every distinct unresolved result of a 3-way merge over the
    // nested alphabet is an input, next to the plain trees.
    let base = alphabet_nested(thorough);
    let mut nested_cases = 0u64;
    for (ci, w) in make_worlds().iter().enumerate() {
        let mut pool: Vec<Input> = base.iter().cloned().map(Input::Tree).collect();
        let mut seen: BTreeSet<Vec<TreeId>> = BTreeSet::new();
        let n = base.len();
        for idx in 0..n * n * n {
            let d = decode(idx, n, 3);
            let inner: Vec<Input> = d.iter().map(|i| Input::Tree(base[*i].clone())).collect();
            let candidate = Input::Merged(inner);
            match to_merged_tree(w, &candidate) {
                Ok(mt) => {
                    if mt.has_conflict() && seen.insert(mt.tree_ids().iter().cloned().collect()) {
                        pool.push(candidate);
                    }
                }
                Err((sig, msg)) => {
                    ctx.violation(&sig, msg, case_json(w, "MergedTree::merge", &[candidate]))
                }
            }
        }
        let conflicted_inputs = pool.len() - n;
        let cap = ctx.pick(14usize, usize::MAX);
        let used = conflicted_inputs.min(cap);
        sizes.insert(
            format!("nested_pool_{}_{}", sc_name(w.sc), w.conc),
            json!({"plain": n, "distinct_unresolved_3way_results": conflicted_inputs, "used": used}),
        );
        let pool: Vec<Input> = pool.into_iter().take(n + used).collect();
        let m = pool.len();
        let work: Vec<usize> = (0..m * m * m)
            .filter(|idx| decode(*idx, m, 3).iter().any(|i| *i >= n))
            .collect();
        nested_cases += work.len() as u64;
        work.par_iter().for_each_init(make_worlds, |worlds, idx| {
            let w = &worlds[ci];
            let ins: Vec<Input> = decode(*idx, m, 3).iter().map(|i| pool[*i].clone()).collect();
            match check_merged_tree(w, &ins) {
                Ok(s) => {
                    if s.conflicted && s.pre_simplified {
                        samples.offer(|| case_json(w, "MergedTree::merge", &ins));
                    }
                    tn.add(&s)
                }
                Err((sig, msg)) => ctx.violation(&sig, msg, case_json(w, "MergedTree::merge", &ins)),
            }
        });
    }
    sizes.insert("nested_triples".into(), json!(nested_cases));

    let evaluations = ta.evals.get() + tb.evals.get() + tn.evals.get();
    let nontrivial = ta.nontrivial.get() + tb.nontrivial.get() + tn.nontrivial.get();
    // Vacuity: every interesting path of the merger must have been exercised.
    for (name, t) in [("merge_trees", &ta), ("MergedTree::merge", &tb), ("nested", &tn)] {
        for (what, c) in [
            ("conflicted results", &t.conflicted),
            ("results resolved only after recursion", &t.resolved_after_recursion),
            ("successful content merges", &t.content_merged),
            ("file/directory conflicts", &t.mixed_conflicts),
            ("directory recursion", &t.descended),
        ] {
            if c.get() == 0 && ctx.violation_count() == 0 {
                machinery_failure(&format!("vacuous: no {what} among the {name} cases"));
            }
        }
    }
    if tn.pre_simplified.get() == 0 && ctx.violation_count() == 0 {
        machinery_failure("vacuous: nested inputs never cancelled a term");
    }
    let mut extra: BTreeMap<String, Value> = BTreeMap::new();
    extra.insert("sizes".into(), Value::Object(sizes));
    extra.insert("merge_trees".into(), ta.json());
    extra.insert("merged_tree_merge_plain".into(), tb.json());
    extra.insert("merged_tree_merge_conflicted_inputs".into(), tn.json());
    extra.insert("configurations".into(), json!({"same_change": ["accept", "keep"], "backend_concurrency": concs}));
    ctx.finish(Coverage {
        evaluations,
        distinct_nontrivial: nontrivial,
        rule: "every 3-, 5- and 7-tuple over the tier's tree alphabets x {accept, keep} x backend \
               concurrency {1, 4}, through merge_trees (exact, positional) and MergedTree::merge \
               (per path, modulo cancellation), plus every triple over plain trees and distinct \
               unresolved 3-way results with at least one unresolved input; each (tuple, \
               configuration, entry point) is evaluated once; non-trivial = the tuple of root trees \
               does not resolve trivially, so the merger has to recurse"
            .into(),
        samples: samples.take(),
        exhaustive: true,
        extra,
        assumptions: vec![
            "trivial_merge (C02), Merge::flatten/simplify (C01), files::try_merge (C04) and \
             TreeBuilder are used by the reference as already-decided lower layers"
                .into(),
            "the in-memory TestBackend (objects are per path) behind a wrapper that only changes \
             concurrency(); its tokio worker threads make completion order vary between runs, \
             which the oracle does not depend on"
                .into(),
            "copy ids are always the placeholder; no submodules".into(),
        ],
        ..Default::default()
    });
}

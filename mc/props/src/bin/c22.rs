//! C22 — Changed-path index agrees with tree diffs.
//!
//! Bounded-exhaustive exploration of the real changed-path index (`DefaultIndexStore::
//! build_changed_path_index_at_operation`, `DefaultMutableIndex::add_commit` / `merge_in`,
//! segment files, `files()` revset filter) through `ReadonlyRepo` / `Transaction`.
//!
//! Part A (content): a diamond `base <- {x, y} <- merge <- child` and an octopus, with every
//! combination of one-edit commits over the paths {a, d, d/b, d/c} (add / modify top line /
//! modify bottom line / delete / directory -> file), every merge mode (pure auto-merge, auto-merge
//! plus an edit, taking one parent's value of a path), under three index plans (incremental in
//! the mutable index, batch build afterwards, sides written by concurrent operations).
//!
//! Part B (index mechanics): every DAG on n <= N commits (<= 2 parents) with a fixed edit rule
//! x every composition into transactions x every placement of up to two
//! `build_changed_path_index_at_operation` calls with `max_commits` in {0, 1, 2, MAX} x fork/join
//! plans where two branches (each optionally enabling the index first) are merged by
//! `load_at_head`.
//!
//! Oracle: whenever `changed_paths_in_commit` answers `Some`, the list is exactly the set of
//! file paths whose value differs between `merge_commit_trees(parents)` and the commit's tree
//! (path-wise `path_value` comparison on a twin repository without changed-path index), and the
//! `files()` revset gives the same commits with the index, without it (twin), and by the
//! reference.

use std::collections::BTreeMap;
use std::collections::BTreeSet;
use std::collections::HashSet;
use std::sync::Arc;
use std::sync::Mutex;

use futures::StreamExt as _;
use jj_lib::backend::ChangeId;
use jj_lib::backend::CommitId;
use jj_lib::backend::CopyId;
use jj_lib::backend::MillisSinceEpoch;
use jj_lib::backend::Signature;
use jj_lib::backend::Timestamp;
use jj_lib::backend::TreeValue;
use jj_lib::commit::Commit;
use jj_lib::config::ConfigLayer;
use jj_lib::config::ConfigSource;
use jj_lib::default_index::DefaultIndexStore;
use jj_lib::default_index::DefaultReadonlyIndex;
use jj_lib::fileset::FilesetExpression;
use jj_lib::merge::Merge;
use jj_lib::merged_tree::MergedTree;
use jj_lib::merged_tree_builder::MergedTreeBuilder;
use jj_lib::repo::MutableRepo;
use jj_lib::repo::ReadonlyRepo;
use jj_lib::repo::Repo;
use jj_lib::repo_path::RepoPath;
use jj_lib::repo_path::RepoPathBuf;
use jj_lib::revset::ResolvedRevsetExpression;
use jj_lib::revset::RevsetFilterPredicate;
use jj_lib::rewrite::merge_commit_trees;
use jj_lib::settings::UserSettings;
use jj_lib::transaction::Transaction;
use pollster::FutureExt as _;
use rayon::prelude::*;
use serde_json::Value;
use serde_json::json;
use testutils::TestRepo;
use vcommon::Counter;
use vcommon::Coverage;
use vcommon::Ctx;
use vcommon::Level;
use vcommon::Samples;
use vcommon::catch;
use vcommon::enumerate::all_dags;
use vcommon::enumerate::compositions;
use vcommon::machinery_failure;

const PATHS: [&str; 4] = ["a", "d", "d/b", "d/c"];
const MAX: u32 = u32::MAX;

// ---------------------------------------------------------------------------------------
// Case description
// ---------------------------------------------------------------------------------------

#[derive(Clone, Debug, PartialEq, Eq, Hash, serde::Serialize, serde::Deserialize)]
enum Recipe {
    /// parent tree + {a: "1\n2\n3\n", d/b: "p\n"}
    Base,
    /// parent tree (or auto-merge of the parents) + one edit of the alphabet
    Edit(u8),
    /// merged parents, but path `PATHS[path]` takes the value it has in parent number `parent`
    Take { parent: usize, path: usize },
}

#[derive(Clone, Debug, PartialEq, Eq, Hash, serde::Serialize, serde::Deserialize)]
struct Node {
    /// model node indices (0 = root commit); all smaller than the node's own index
    parents: Vec<usize>,
    recipe: Recipe,
}

#[derive(Clone, Debug, serde::Serialize, serde::Deserialize)]
enum Step {
    /// one transaction writing these nodes
    Tx(Vec<usize>),
    /// `build_changed_path_index_at_operation(current op, max_commits)` + reload
    Build(u32),
    /// two branches from the current repository, merged by `load_at_head`; the first branch
    /// gets the earlier operation timestamps
    Fork(Vec<Step>, Vec<Step>),
}

#[derive(Clone, Debug, serde::Serialize, serde::Deserialize)]
struct Case {
    /// nodes 1..; index 0 of this vector is model node 1
    nodes: Vec<Node>,
    plan: Vec<Step>,
}

const NUM_EDITS: u8 = 10;

fn edit_name(e: u8) -> &'static str {
    match e {
        0 => "none",
        1 => "a:=top-line-changed",
        2 => "a:=bottom-line-changed",
        3 => "delete a",
        4 => "d/b:=q",
        5 => "delete d/b",
        6 => "d/c:=r",
        7 => "d/c:=s",
        8 => "dir d -> file d",
        9 => "a:=base content",
        _ => "?",
    }
}

// ---------------------------------------------------------------------------------------
// Building trees and commits with the real API
// ---------------------------------------------------------------------------------------

type Fail = (String, String);

fn rp(s: &str) -> RepoPathBuf {
    RepoPathBuf::from_internal_string(s).unwrap()
}

fn file_value(repo: &dyn Repo, path: &str, contents: &str) -> Merge<Option<TreeValue>> {
    let id = repo
        .store()
        .write_file(&rp(path), &mut contents.as_bytes())
        .block_on()
        .unwrap();
    Merge::resolved(Some(TreeValue::File { id, executable: false, copy_id: CopyId::placeholder() }))
}

fn apply_edit(repo: &dyn Repo, base: MergedTree, e: u8) -> MergedTree {
    let mut b = MergedTreeBuilder::new(base);
    match e {
        0 => {}
        1 => b.set_or_remove(rp("a"), file_value(repo, "a", "X\n2\n3\n")),
        2 => b.set_or_remove(rp("a"), file_value(repo, "a", "1\n2\nY\n")),
        3 => b.set_or_remove(rp("a"), Merge::absent()),
        4 => {
            b.set_or_remove(rp("d"), Merge::absent());
            b.set_or_remove(rp("d/b"), file_value(repo, "d/b", "q\n"));
        }
        5 => b.set_or_remove(rp("d/b"), Merge::absent()),
        6 => {
            b.set_or_remove(rp("d"), Merge::absent());
            b.set_or_remove(rp("d/c"), file_value(repo, "d/c", "r\n"));
        }
        7 => {
            b.set_or_remove(rp("d"), Merge::absent());
            b.set_or_remove(rp("d/c"), file_value(repo, "d/c", "s\n"));
        }
        8 => {
            b.set_or_remove(rp("d/b"), Merge::absent());
            b.set_or_remove(rp("d/c"), Merge::absent());
            b.set_or_remove(rp("d"), file_value(repo, "d", "f\n"));
        }
        9 => b.set_or_remove(rp("a"), file_value(repo, "a", "1\n2\n3\n")),
        _ => machinery_failure("unknown edit"),
    }
    b.write_tree().block_on().unwrap()
}

fn node_tree(repo: &dyn Repo, parents: &[Commit], recipe: &Recipe) -> MergedTree {
    let base = merge_commit_trees(repo, parents).block_on().unwrap();
    match recipe {
        Recipe::Base => {
            let mut b = MergedTreeBuilder::new(base);
            b.set_or_remove(rp("a"), file_value(repo, "a", "1\n2\n3\n"));
            b.set_or_remove(rp("d/b"), file_value(repo, "d/b", "p\n"));
            b.write_tree().block_on().unwrap()
        }
        Recipe::Edit(e) => apply_edit(repo, base, *e),
        Recipe::Take { parent, path } => {
            let p = &parents[*parent % parents.len()];
            let v = p.tree().path_value(&rp(PATHS[*path])).block_on().unwrap();
            // only plain file / absent values are transplanted
            let transplant = match v.as_resolved() {
                Some(None) => true,
                Some(Some(TreeValue::File { .. })) => true,
                _ => false,
            };
            if !transplant {
                return base;
            }
            let mut b = MergedTreeBuilder::new(base);
            b.set_or_remove(rp(PATHS[*path]), v);
            b.write_tree().block_on().unwrap()
        }
    }
}

fn sig(ts: i64) -> Signature {
    Signature {
        name: "verif".into(),
        email: "verif@example.com".into(),
        timestamp: Timestamp { timestamp: MillisSinceEpoch(ts * 1000), tz_offset: 0 },
    }
}

fn change_id_for(node: usize) -> ChangeId {
    let mut v = vec![0x40 + node as u8];
    v.resize(16, 0x5a);
    ChangeId::new(v)
}

fn write_node(
    mut_repo: &mut MutableRepo,
    nodes: &[Node],
    ids: &mut [Option<CommitId>],
    node: usize,
) -> Commit {
    let spec = &nodes[node - 1];
    let parent_ids: Vec<CommitId> =
        spec.parents.iter().map(|&p| ids[p].clone().expect("parent written before child")).collect();
    let parents: Vec<Commit> =
        parent_ids.iter().map(|id| mut_repo.store().get_commit(id).unwrap()).collect();
    let tree = node_tree(mut_repo, &parents, &spec.recipe);
    let commit = mut_repo
        .new_commit(parent_ids, tree)
        .set_change_id(change_id_for(node))
        .set_description(format!("node {node}"))
        .set_author(sig(2_000_000 + node as i64))
        .set_committer(sig(2_000_000 + node as i64))
        .write()
        .block_on()
        .unwrap();
    if let Some(old) = &ids[node] {
        if old != commit.id() {
            machinery_failure("commit ids are not a function of the node specification");
        }
    }
    ids[node] = Some(commit.id().clone());
    commit
}

// ---------------------------------------------------------------------------------------
// Reference (twin repository without changed-path index)
// ---------------------------------------------------------------------------------------

const NUM_PATTERNS: usize = 6;

fn pattern_expr(k: usize) -> FilesetExpression {
    match k {
        0 => FilesetExpression::file_path(rp("a")),
        1 => FilesetExpression::file_path(rp("d")),
        2 => FilesetExpression::file_path(rp("d/b")),
        3 => FilesetExpression::file_path(rp("d/c")),
        4 => FilesetExpression::prefix_path(rp("d")),
        _ => FilesetExpression::prefix_path(RepoPathBuf::root()),
    }
}

fn pattern_matches(k: usize, path: &str) -> bool {
    match k {
        0 => path == "a",
        1 => path == "d",
        2 => path == "d/b",
        3 => path == "d/c",
        4 => path == "d" || path.starts_with("d/"),
        _ => true,
    }
}

struct Twin {
    ids: Vec<Option<CommitId>>,
    /// reference changed paths per model node (paths that must be reported)
    ref_paths: Vec<Vec<String>>,
    /// per node: paths at or below a directory/file conflict; whether such a path "differs" is
    /// not well defined, both answers are accepted
    free_paths: Vec<Vec<String>>,
    /// files(pattern) evaluated by jj on the repository without index: set of nodes
    noindex_files: Vec<BTreeSet<usize>>,
    /// per node: own tree has a conflict / merged parents have a conflict
    own_conflict: Vec<bool>,
    parent_conflict: Vec<bool>,
    /// per node: paths that do NOT differ (same unresolved conflict in the merged parents and
    /// in the commit), where the node is a merge commit and the tree of one of its parents is
    /// itself conflicted (so the flattened merge of the parents has more terms than the
    /// commit's simplified tree). Used only to give a narrow signature to one finding.
    inherited_conflict_paths: Vec<Vec<String>>,
}

/// True if the raw value at `path` is an unresolved conflict with a directory term.
fn is_dir_conflict(tree: &MergedTree, path: &RepoPath) -> bool {
    let v = tree.path_value(path).block_on().unwrap();
    !v.is_resolved()
        && v.iter().any(|t| matches!(t, Some(TreeValue::Tree(_))))
        && v.iter().any(|t| matches!(t, Some(x) if !matches!(x, TreeValue::Tree(_))))
}

/// File-level value of `path`: tree terms count as "no file here".
fn file_level_value(tree: &MergedTree, path: &RepoPath) -> Merge<Option<TreeValue>> {
    let v = tree.path_value(path).block_on().unwrap();
    v.map(|t| match t {
        Some(TreeValue::Tree(_)) => None,
        other => other.clone(),
    })
    .simplify()
}

fn eval_files(repo: &dyn Repo, k: usize, id_to_node: &BTreeMap<CommitId, usize>) -> Result<BTreeSet<usize>, String> {
    let expr = ResolvedRevsetExpression::filter(RevsetFilterPredicate::File(pattern_expr(k)));
    let revset = expr.evaluate(repo).map_err(|e| format!("{e:?}"))?;
    let mut out = BTreeSet::new();
    let items: Vec<_> = revset.stream().collect::<Vec<_>>().block_on();
    for id in items {
        let id = id.map_err(|e| format!("{e:?}"))?;
        match id_to_node.get(&id) {
            Some(&n) => {
                out.insert(n);
            }
            None => return Err(format!("files() returned unknown commit {id:?}")),
        }
    }
    Ok(out)
}

fn build_twin(nodes: &[Node]) -> Twin {
    let test_repo = TestRepo::init_with_backend(testutils::TestRepoBackend::Simple);
    let repo = test_repo.repo.clone();
    let n = nodes.len();
    let mut ids: Vec<Option<CommitId>> = vec![None; n + 1];
    ids[0] = Some(repo.store().root_commit_id().clone());
    let mut tx = repo.start_transaction();
    let mut commits: Vec<Option<Commit>> = vec![Some(repo.store().root_commit())];
    for node in 1..=n {
        let c = write_node(tx.repo_mut(), nodes, &mut ids, node);
        commits.push(Some(c));
    }
    let repo = tx.commit("twin").block_on().unwrap();
    let ro: &DefaultReadonlyIndex = repo.readonly_index().downcast_ref().unwrap();
    if ro.stats().changed_path_commits_range.is_some() {
        machinery_failure("twin repository has a changed-path index");
    }
    let mut ref_paths = vec![vec![]; n + 1];
    let mut free_paths = vec![vec![]; n + 1];
    let mut own_conflict = vec![false; n + 1];
    let mut parent_conflict = vec![false; n + 1];
    let mut inherited_conflict_paths = vec![vec![]; n + 1];
    for node in 1..=n {
        let c = commits[node].as_ref().unwrap();
        let parents: Vec<Commit> = c.parents().block_on().unwrap();
        let ptree = merge_commit_trees(repo.as_ref(), &parents).block_on().unwrap();
        let ctree = c.tree();
        own_conflict[node] = ctree.has_conflict();
        parent_conflict[node] = ptree.has_conflict();
        // the universe of file paths is closed under the edit alphabet; make sure of it
        for tree in [&ptree, &ctree] {
            for (path, _v) in tree.entries() {
                let s = path.as_internal_file_string();
                if !PATHS.contains(&s) {
                    machinery_failure(&format!("path {s} outside the path universe"));
                }
            }
        }
        for p in PATHS {
            let path = rp(p);
            // a path is "free" if it or its parent directory is a directory/file conflict in
            // either tree
            let mut free = false;
            let mut cur: Option<&RepoPath> = Some(&path);
            while let Some(q) = cur {
                if q.is_root() {
                    break;
                }
                if is_dir_conflict(&ptree, q) || is_dir_conflict(&ctree, q) {
                    free = true;
                }
                cur = q.parent();
            }
            if free {
                free_paths[node].push(p.to_string());
            } else if file_level_value(&ptree, &path) != file_level_value(&ctree, &path) {
                ref_paths[node].push(p.to_string());
            } else if parents.len() >= 2
                && !file_level_value(&ctree, &path).is_resolved()
                && parents.iter().any(|pc| pc.tree().has_conflict())
            {
                inherited_conflict_paths[node].push(p.to_string());
            }
        }
    }
    let id_to_node: BTreeMap<CommitId, usize> =
        ids.iter().enumerate().map(|(i, id)| (id.clone().unwrap(), i)).collect();
    let mut noindex_files = vec![];
    for k in 0..NUM_PATTERNS {
        let got = eval_files(repo.as_ref(), k, &id_to_node)
            .unwrap_or_else(|e| machinery_failure(&format!("files() on the twin repository failed: {e}")));
        noindex_files.push(got);
    }
    Twin { ids, ref_paths, free_paths, noindex_files, own_conflict, parent_conflict, inherited_conflict_paths }
}

// ---------------------------------------------------------------------------------------
// Executing a plan and checking every view
// ---------------------------------------------------------------------------------------

struct Env {
    settings: Vec<UserSettings>,
}

impl Env {
    fn new() -> Env {
        let mut settings = vec![];
        for k in 0..40 {
            let mut config = testutils::base_user_config();
            let text = format!("debug.operation-timestamp = \"2001-02-03T04:05:{:02}+00:00\"\n", k);
            config.add_layer(ConfigLayer::parse(ConfigSource::CommandArg, &text).unwrap());
            settings.push(UserSettings::from_config(config).unwrap());
        }
        Env { settings }
    }
}

#[derive(Default, Clone)]
struct Outcome {
    views: u64,
    some_checked: u64,
    none_seen: u64,
    nonempty_lists: u64,
    merge_commits_indexed: u64,
    conflicted_parent_indexed: u64,
    conflicted_own_indexed: u64,
    free_path_commits: u64,
    files_queries: u64,
    files_queries_with_indexed_hits: u64,
    transitions: u64,
    builds: u64,
    forward_growth: u64,
    backward_growth: u64,
    merge_growth: u64,
    partial_range_views: u64,
    full_range_views: u64,
    multi_level_views: u64,
    range_inconsistencies: u64,
    joins: u64,
    state_keys: Vec<u64>,
    /// failures with a narrow, known-shape signature: recorded once per signature and case,
    /// the remaining checks of the case still run
    soft: Vec<Fail>,
}

impl Outcome {
    fn add(&mut self, o: &Outcome) {
        self.views += o.views;
        self.some_checked += o.some_checked;
        self.none_seen += o.none_seen;
        self.nonempty_lists += o.nonempty_lists;
        self.merge_commits_indexed += o.merge_commits_indexed;
        self.conflicted_parent_indexed += o.conflicted_parent_indexed;
        self.conflicted_own_indexed += o.conflicted_own_indexed;
        self.free_path_commits += o.free_path_commits;
        self.files_queries += o.files_queries;
        self.files_queries_with_indexed_hits += o.files_queries_with_indexed_hits;
        self.transitions += o.transitions;
        self.builds += o.builds;
        self.forward_growth += o.forward_growth;
        self.backward_growth += o.backward_growth;
        self.merge_growth += o.merge_growth;
        self.partial_range_views += o.partial_range_views;
        self.full_range_views += o.full_range_views;
        self.multi_level_views += o.multi_level_views;
        self.range_inconsistencies += o.range_inconsistencies;
        self.joins += o.joins;
    }
}

struct Runner<'a> {
    env: &'a Env,
    nodes: &'a [Node],
    twin: &'a Twin,
    ids: Vec<Option<CommitId>>,
    id_to_node: BTreeMap<CommitId, usize>,
    clock: usize,
    out: Outcome,
}

fn range_of(repo: &Arc<ReadonlyRepo>) -> (Option<(u32, u32)>, usize, u32) {
    let ro: &DefaultReadonlyIndex = repo.readonly_index().downcast_ref().expect("default index");
    let st = ro.stats();
    (
        st.changed_path_commits_range.map(|r| (r.start, r.end)),
        st.changed_path_levels.len(),
        st.num_commits,
    )
}

impl<'a> Runner<'a> {
    fn next_settings(&mut self) -> UserSettings {
        self.clock += 1;
        self.env.settings[self.clock].clone()
    }

    /// Checks one view (a repo whose index must know `known`).
    fn check_view(&mut self, view: &str, repo: &dyn Repo, known: &[usize], readonly: Option<&Arc<ReadonlyRepo>>) -> Result<(), Fail> {
        let vk = view.split(':').next().unwrap_or(view).to_string();
        self.out.views += 1;
        let index = repo.index();
        let mut indexed: BTreeSet<usize> = BTreeSet::new();
        for &n in known {
            let id = self.ids[n].clone().expect("known node has an id");
            let got: Option<Vec<String>> = index
                .changed_paths_in_commit(&id)
                .block_on()
                .map_err(|e| (format!("C22/changed-paths/error/{vk}"), format!("{view}: {e:?}")))?
                .map(|it| it.map(|p| p.as_internal_file_string().to_string()).collect());
            match got {
                None => self.out.none_seen += 1,
                Some(mut paths) => {
                    indexed.insert(n);
                    self.out.some_checked += 1;
                    paths.sort();
                    let want = &self.twin.ref_paths[n];
                    let free = &self.twin.free_paths[n];
                    if !free.is_empty() {
                        self.out.free_path_commits += 1;
                    }
                    let strict: Vec<String> = paths.iter().filter(|p| !free.contains(p)).cloned().collect();
                    if &strict != want {
                        let spec = if n == 0 { "root".to_string() } else { format!("{:?}", self.nodes[n - 1]) };
                        let shape = if n > 0 && self.nodes[n - 1].parents.len() > 1 { "merge" } else { "non-merge" };
                        let extra: Vec<&String> = strict.iter().filter(|p| !want.contains(p)).collect();
                        let missing = want.iter().any(|p| !strict.contains(p));
                        let inherited = &self.twin.inherited_conflict_paths[n];
                        if !missing && !extra.is_empty() && extra.iter().all(|p| inherited.contains(p)) {
                            // narrow signature: the only deviation is that a conflict inherited
                            // unchanged from a conflicted parent of a merge commit is recorded
                            let sig = "C22/changed-paths/merge/unchanged-conflict-recorded-when-a-parent-tree-is-conflicted";
                            if !self.out.soft.iter().any(|(s, _)| s == sig) {
                                self.out.soft.push((
                                    sig.to_string(),
                                    format!(
                                        "{view}: index records {paths:?} for merge node {n} ({spec}); only {want:?} \
                                         differ from the merged parents; {extra:?} hold(s) the same unresolved \
                                         conflict in the merged parents and in the commit (one parent's tree is itself \
                                         conflicted)"
                                    ),
                                ));
                            }
                            continue;
                        }
                        return Err((
                            format!("C22/changed-paths/{shape}/{vk}"),
                            format!(
                                "{view}: index records {paths:?} for node {n} ({spec}); paths differing from the \
                                 merged parents are {want:?} (undetermined because of a directory/file conflict: {free:?})"
                            ),
                        ));
                    }
                    if !paths.is_empty() {
                        self.out.nonempty_lists += 1;
                    }
                    if n > 0 && self.nodes[n - 1].parents.len() > 1 {
                        self.out.merge_commits_indexed += 1;
                    }
                    if self.twin.parent_conflict[n] {
                        self.out.conflicted_parent_indexed += 1;
                    }
                    if self.twin.own_conflict[n] {
                        self.out.conflicted_own_indexed += 1;
                    }
                }
            }
        }
        // files() with the index vs. without (twin) vs. reference: on every view produced by a
        // build, an operation merge or a reload, and on transaction views once all nodes exist
        let with_files = !(vk == "mutable" || vk == "readonly") || known.len() == self.nodes.len() + 1;
        let num_patterns = if with_files { NUM_PATTERNS } else { 0 };
        for k in 0..num_patterns {
            let got = eval_files(repo, k, &self.id_to_node)
                .map_err(|e| (format!("C22/files-revset/error/{vk}"), format!("{view}: files(pattern {k}): {e}")))?;
            self.out.files_queries += 1;
            let noindex: BTreeSet<usize> =
                self.twin.noindex_files[k].iter().copied().filter(|n| known.contains(n)).collect();
            let by_ref: BTreeSet<usize> = known
                .iter()
                .copied()
                .filter(|&n| self.twin.ref_paths[n].iter().any(|p| pattern_matches(k, p)))
                .collect();
            let by_ref_may: BTreeSet<usize> = known
                .iter()
                .copied()
                .filter(|&n| {
                    self.twin.ref_paths[n].iter().chain(&self.twin.free_paths[n]).any(|p| pattern_matches(k, p))
                })
                .collect();
            if got != noindex {
                return Err((
                    format!("C22/files-revset/index-vs-noindex/{vk}"),
                    format!(
                        "{view}: files(pattern {k}) = nodes {got:?} with the changed-path index \
                         (indexed nodes {indexed:?}), {noindex:?} without it"
                    ),
                ));
            }
            if by_ref.is_subset(&got)
                && !got.is_subset(&by_ref_may)
                && got
                    .difference(&by_ref_may)
                    .all(|&n| self.twin.inherited_conflict_paths[n].iter().any(|p| pattern_matches(k, p)))
            {
                let extra: Vec<usize> = got.difference(&by_ref_may).copied().collect();
                let sig = "C22/files-revset/vs-reference/unchanged-conflict-matched-when-a-parent-tree-is-conflicted";
                if !self.out.soft.iter().any(|(s, _)| s == sig) {
                    self.out.soft.push((
                        sig.to_string(),
                        format!(
                            "{view}: files(pattern {k}) = nodes {got:?}, tree comparison says {by_ref:?}; the extra \
                             merge node(s) {extra:?} only carry, at a matching path, an unresolved conflict that is identical in the \
                             merged parents and the commit (one parent's tree is itself conflicted) (indexed nodes {indexed:?}; same answer without \
                             the index)"
                        ),
                    ));
                }
                continue;
            }
            if !(by_ref.is_subset(&got) && got.is_subset(&by_ref_may)) {
                return Err((
                    format!("C22/files-revset/vs-reference/{vk}"),
                    format!("{view}: files(pattern {k}) = nodes {got:?}, tree comparison says {by_ref:?} (at most {by_ref_may:?})"),
                ));
            }
            if got.iter().any(|n| indexed.contains(n)) {
                self.out.files_queries_with_indexed_hits += 1;
            }
        }
        // range bookkeeping (vacuity only)
        if let Some(r) = readonly {
            let (range, levels, num) = range_of(r);
            if let Some((s, e)) = range {
                if e > s {
                    if s == 0 && e == num {
                        self.out.full_range_views += 1;
                    } else {
                        self.out.partial_range_views += 1;
                    }
                }
                if indexed.len() as u32 != e - s && known.len() as u32 == num {
                    self.out.range_inconsistencies += 1;
                }
            } else if !indexed.is_empty() {
                self.out.range_inconsistencies += 1;
            }
            if levels > 1 {
                self.out.multi_level_views += 1;
            }
            let key = {
                let mut bytes = vec![];
                for &n in known {
                    bytes.push(n as u8);
                    bytes.push(indexed.contains(&n) as u8);
                }
                bytes.push(levels as u8);
                if let Some((s, e)) = range {
                    bytes.extend(s.to_le_bytes());
                    bytes.extend(e.to_le_bytes());
                }
                let ro: &DefaultReadonlyIndex = r.readonly_index().downcast_ref().unwrap();
                for l in ro.stats().commit_levels {
                    bytes.extend(l.num_commits.to_le_bytes());
                }
                for l in ro.stats().changed_path_levels {
                    bytes.extend(l.num_commits.to_le_bytes());
                }
                bytes.extend(format!("{:?}", self.nodes).as_bytes());
                vcommon::fnv(&bytes)
            };
            self.out.state_keys.push(key);
        }
        Ok(())
    }

    fn run_steps(
        &mut self,
        mut repo: Arc<ReadonlyRepo>,
        mut known: Vec<usize>,
        steps: &[Step],
        tag: &str,
    ) -> Result<(Arc<ReadonlyRepo>, Vec<usize>), Fail> {
        for (si, step) in steps.iter().enumerate() {
            match step {
                Step::Tx(ns) => {
                    let settings = self.next_settings();
                    let before = range_of(&repo).0;
                    let mut tx = Transaction::new(
                        MutableRepo::new(repo.clone(), repo.readonly_index(), repo.view()),
                        &settings,
                    );
                    for &node in ns {
                        let r = catch(|| write_node(tx.repo_mut(), self.nodes, &mut self.ids, node));
                        match r {
                            Ok(c) => {
                                self.id_to_node.insert(c.id().clone(), node);
                            }
                            Err(p) => {
                                return Err((
                                    "C22/panic/write".into(),
                                    format!("{tag}step {si}: writing node {node} panicked: {p}"),
                                ));
                            }
                        }
                        known.push(node);
                    }
                    known.sort();
                    let view = format!("mutable:{tag}step{si}");
                    catch(|| self.check_view(&view, tx.repo(), &known, None))
                        .map_err(|p| ("C22/panic/query/mutable".to_string(), format!("{view}: {p}")))??;
                    repo = catch(|| tx.commit("tx").block_on())
                        .map_err(|p| ("C22/panic/commit".to_string(), format!("{tag}step {si}: {p}")))?
                        .map_err(|e| ("C22/commit/error".to_string(), format!("{e:?}")))?;
                    self.out.transitions += 1;
                    let after = range_of(&repo).0;
                    if let (Some((_, e0)), Some((_, e1))) = (before, after) {
                        if e1 > e0 {
                            self.out.forward_growth += 1;
                        }
                    }
                    let view = format!("readonly:{tag}step{si}");
                    let r = repo.clone();
                    catch(|| self.check_view(&view, r.as_ref(), &known, Some(&r)))
                        .map_err(|p| ("C22/panic/query/readonly".to_string(), format!("{view}: {p}")))??;
                }
                Step::Build(m) => {
                    let before = range_of(&repo).0;
                    let store: &DefaultIndexStore =
                        repo.index_store().downcast_ref().expect("default index store");
                    catch(|| {
                        store
                            .build_changed_path_index_at_operation(repo.op_id(), repo.store(), *m, |_| ())
                            .block_on()
                    })
                    .map_err(|p| ("C22/panic/build".to_string(), format!("{tag}step {si}: build({m}) panicked: {p}")))?
                    .map_err(|e| ("C22/build/error".to_string(), format!("{tag}step {si}: build({m}): {e:?}")))?;
                    repo = catch(|| repo.reload_at(repo.operation()).block_on())
                        .map_err(|p| ("C22/panic/reload".to_string(), format!("{tag}step {si}: {p}")))?
                        .map_err(|e| ("C22/reload/error".to_string(), format!("{e:?}")))?;
                    self.out.transitions += 1;
                    self.out.builds += 1;
                    let after = range_of(&repo).0;
                    match (before, after) {
                        (Some((s0, _)), Some((s1, _))) if s1 < s0 => self.out.backward_growth += 1,
                        _ => {}
                    }
                    let view = format!("built:{tag}step{si}");
                    let r = repo.clone();
                    catch(|| self.check_view(&view, r.as_ref(), &known, Some(&r)))
                        .map_err(|p| ("C22/panic/query/built".to_string(), format!("{view}: {p}")))??;
                }
                Step::Fork(a, b) => {
                    let loader = repo.loader().clone();
                    let (ra, ka) = self.run_steps(repo.clone(), known.clone(), a, &format!("{tag}step{si}a."))?;
                    let (rb, kb) = self.run_steps(repo.clone(), known.clone(), b, &format!("{tag}step{si}b."))?;
                    if ra.op_id() == repo.op_id() || rb.op_id() == repo.op_id() {
                        machinery_failure("fork branch without a transaction");
                    }
                    let merged = catch(|| loader.load_at_head().block_on())
                        .map_err(|p| ("C22/panic/merge".to_string(), format!("{tag}step {si}: load_at_head panicked: {p}")))?
                        .map_err(|e| ("C22/merge/error".to_string(), format!("{e:?}")))?;
                    if merged.operation().parent_ids().len() != 2 {
                        machinery_failure("fork did not produce a merge operation");
                    }
                    self.out.transitions += 1;
                    self.out.joins += 1;
                    known = ka;
                    known.extend(kb);
                    known.sort();
                    known.dedup();
                    repo = merged;
                    let after = range_of(&repo).0;
                    let ea = range_of(&ra).0.map(|r| r.1);
                    if let (Some((_, e1)), Some(ea)) = (after, ea) {
                        if e1 > ea {
                            self.out.merge_growth += 1;
                        }
                    }
                    let view = format!("merged:{tag}step{si}");
                    let r = repo.clone();
                    catch(|| self.check_view(&view, r.as_ref(), &known, Some(&r)))
                        .map_err(|p| ("C22/panic/query/merged".to_string(), format!("{view}: {p}")))??;
                }
            }
        }
        Ok((repo, known))
    }
}

fn run_plan(env: &Env, nodes: &[Node], plan: &[Step], twin: &Twin) -> Result<Outcome, Fail> {
    let test_repo = TestRepo::init_with_backend(testutils::TestRepoBackend::Simple);
    let repo = test_repo.repo.clone();
    let mut ids: Vec<Option<CommitId>> = vec![None; nodes.len() + 1];
    ids[0] = Some(repo.store().root_commit_id().clone());
    let mut id_to_node = BTreeMap::new();
    id_to_node.insert(repo.store().root_commit_id().clone(), 0);
    let mut runner = Runner { env, nodes, twin, ids, id_to_node, clock: 0, out: Outcome::default() };
    let (repo, known) = runner.run_steps(repo, vec![0], plan, "")?;
    if known.len() != nodes.len() + 1 {
        machinery_failure("plan does not write every node");
    }
    for n in 0..=nodes.len() {
        if runner.ids[n] != twin.ids[n] {
            machinery_failure("twin repository and plan repository disagree on commit ids");
        }
    }
    // fresh load from disk: segment files are parsed again
    let settings = testutils::user_settings();
    let fresh = catch(|| test_repo.env.load_repo_at_head(&settings, test_repo.repo_path()))
        .map_err(|p| ("C22/panic/reload".to_string(), format!("loading the repo from disk panicked: {p}")))?;
    if fresh.op_id() != repo.op_id() {
        machinery_failure("fresh load is at a different operation");
    }
    let f = fresh.clone();
    catch(|| runner.check_view("reloaded:final", f.as_ref(), &known, Some(&f)))
        .map_err(|p| ("C22/panic/query/reloaded".to_string(), format!("reloaded: {p}")))??;
    Ok(runner.out)
}

// ---------------------------------------------------------------------------------------
// Enumeration
// ---------------------------------------------------------------------------------------

/// Part A: diamond with a child; every edit pair, every merge mode, some child edits.
fn part_a_configs(child_edits: &[u8], side_edits: &[u8]) -> Vec<Vec<Node>> {
    let mut merge_modes: Vec<Recipe> = vec![];
    for e in 0..NUM_EDITS {
        merge_modes.push(Recipe::Edit(e)); // Edit(0) = pure auto-merge
    }
    for parent in 0..2 {
        for path in [0usize, 2, 3] {
            merge_modes.push(Recipe::Take { parent, path });
        }
    }
    let mut out = vec![];
    for &ex in side_edits {
        for &ey in side_edits {
            for mm in &merge_modes {
                for &ec in child_edits {
                    out.push(vec![
                        Node { parents: vec![0], recipe: Recipe::Base },
                        Node { parents: vec![1], recipe: Recipe::Edit(ex) },
                        Node { parents: vec![1], recipe: Recipe::Edit(ey) },
                        Node { parents: vec![2, 3], recipe: mm.clone() },
                        Node { parents: vec![4], recipe: Recipe::Edit(ec) },
                    ]);
                }
            }
        }
    }
    out
}

fn part_a_plans() -> Vec<Vec<Step>> {
    vec![
        vec![Step::Build(0), Step::Tx(vec![1, 2]), Step::Tx(vec![3]), Step::Tx(vec![4, 5])],
        vec![Step::Tx(vec![1, 2, 3, 4, 5]), Step::Build(MAX)],
        vec![
            Step::Build(0),
            Step::Tx(vec![1]),
            Step::Fork(vec![Step::Tx(vec![2])], vec![Step::Tx(vec![3])]),
            Step::Tx(vec![4, 5]),
        ],
    ]
}

fn octopus_configs() -> Vec<Vec<Node>> {
    let side = [0u8, 1, 2, 4];
    let modes = [
        Recipe::Edit(0),
        Recipe::Edit(6),
        Recipe::Take { parent: 0, path: 0 },
        Recipe::Take { parent: 2, path: 0 },
    ];
    let mut out = vec![];
    for &e1 in &side {
        for &e2 in &side {
            for &e3 in &side {
                for m in &modes {
                    out.push(vec![
                        Node { parents: vec![0], recipe: Recipe::Base },
                        Node { parents: vec![1], recipe: Recipe::Edit(e1) },
                        Node { parents: vec![1], recipe: Recipe::Edit(e2) },
                        Node { parents: vec![1], recipe: Recipe::Edit(e3) },
                        Node { parents: vec![2, 3, 4], recipe: m.clone() },
                    ]);
                }
            }
        }
    }
    out
}

/// Merges one of whose parents has a conflicted tree: 1 and 2 are children of the root (2 may
/// conflict with 1), 3 = merge(1, 2), 4 = a further commit, 5 = merge(3, 4).
fn conflicted_parent_configs() -> Vec<Vec<Node>> {
    let mut out = vec![];
    for e2 in [1u8, 6, 4] {
        for m3 in [Recipe::Edit(0), Recipe::Edit(3), Recipe::Take { parent: 0, path: 0 }] {
            for p4 in [0usize, 1] {
                for e4 in [6u8, 2, 5] {
                    for m5 in [
                        Recipe::Edit(0),
                        Recipe::Edit(4),
                        Recipe::Edit(1),
                        Recipe::Take { parent: 0, path: 0 },
                        Recipe::Take { parent: 1, path: 0 },
                    ] {
                        out.push(vec![
                            Node { parents: vec![0], recipe: Recipe::Base },
                            Node { parents: vec![0], recipe: Recipe::Edit(e2) },
                            Node { parents: vec![1, 2], recipe: m3.clone() },
                            Node { parents: vec![p4], recipe: Recipe::Edit(e4) },
                            Node { parents: vec![3, 4], recipe: m5.clone() },
                        ]);
                    }
                }
            }
        }
    }
    out
}

fn conflicted_parent_plans() -> Vec<Vec<Step>> {
    vec![
        vec![Step::Build(0), Step::Tx(vec![1, 2, 3]), Step::Tx(vec![4, 5])],
        vec![Step::Tx(vec![1, 2, 3, 4, 5]), Step::Build(MAX)],
        vec![
            Step::Build(0),
            Step::Tx(vec![1, 2]),
            Step::Fork(vec![Step::Tx(vec![3])], vec![Step::Tx(vec![4])]),
            Step::Tx(vec![5]),
        ],
    ]
}

fn octopus_plans() -> Vec<Vec<Step>> {
    vec![
        vec![Step::Build(0), Step::Tx(vec![1, 2, 3]), Step::Tx(vec![4, 5])],
        vec![Step::Tx(vec![1, 2, 3, 4, 5]), Step::Build(MAX)],
    ]
}

/// Part B: fixed edit rule on every DAG shape.
fn rule_nodes(parents: &[Vec<usize>]) -> Vec<Node> {
    let seq = [Recipe::Base, Recipe::Edit(1), Recipe::Edit(6), Recipe::Edit(2), Recipe::Edit(5)];
    let mrg = [Recipe::Edit(0), Recipe::Edit(4), Recipe::Take { parent: 0, path: 0 }];
    parents
        .iter()
        .enumerate()
        .map(|(j, ps)| {
            let model_parents: Vec<usize> = if ps.is_empty() { vec![0] } else { ps.iter().map(|p| p + 1).collect() };
            let recipe = if model_parents.len() > 1 { mrg[j % mrg.len()].clone() } else { seq[j % seq.len()].clone() };
            Node { parents: model_parents, recipe }
        })
        .collect()
}

/// Sequential plans: the composition with up to `max_builds` build steps in the slots
/// before / between / after the transactions.
fn seq_plans(chunks: &[Vec<usize>], max_builds: usize) -> Vec<Vec<Step>> {
    let slots = chunks.len() + 1;
    let assemble = |builds: &[(usize, u32)]| -> Vec<Step> {
        let mut plan = vec![];
        for slot in 0..slots {
            for &(s, m) in builds {
                if s == slot {
                    plan.push(Step::Build(m));
                }
            }
            if slot < chunks.len() {
                plan.push(Step::Tx(chunks[slot].clone()));
            }
        }
        plan
    };
    let mut out = vec![assemble(&[])];
    if max_builds >= 1 {
        for s1 in 0..slots {
            for m1 in [0, 1, 2, MAX] {
                out.push(assemble(&[(s1, m1)]));
                if max_builds >= 2 {
                    for s2 in s1..slots {
                        for m2 in [1, 2, MAX] {
                            out.push(assemble(&[(s1, m1), (s2, m2)]));
                        }
                    }
                }
            }
        }
    }
    out
}

/// Fork plans: chunks j and j+1 become two branches.
fn fork_plans(chunks: &[Vec<usize>], j: usize, rich: bool) -> Vec<Vec<Step>> {
    let pre_opts: &[Option<u32>] = if rich { &[None, Some(0), Some(MAX)] } else { &[None, Some(0)] };
    let a_opts: &[Option<u32>] = if rich { &[None, Some(0), Some(MAX)] } else { &[None, Some(0)] };
    let b_opts: &[Option<u32>] = if rich { &[None, Some(0), Some(MAX)] } else { &[None] };
    let post_opts: &[Option<u32>] = if rich { &[None, Some(2), Some(MAX)] } else { &[None] };
    let mut out = vec![];
    for &pre in pre_opts {
        for &ab in a_opts {
            for &bb in b_opts {
                for &post in post_opts {
                    for swap in [false, true] {
                        let mut plan = vec![];
                        for c in &chunks[..j] {
                            plan.push(Step::Tx(c.clone()));
                        }
                        if let Some(m) = pre {
                            plan.push(Step::Build(m));
                        }
                        let mut a = vec![];
                        if let Some(m) = ab {
                            a.push(Step::Build(m));
                        }
                        a.push(Step::Tx(chunks[j].clone()));
                        let mut b = vec![];
                        if let Some(m) = bb {
                            b.push(Step::Build(m));
                        }
                        b.push(Step::Tx(chunks[j + 1].clone()));
                        if swap {
                            plan.push(Step::Fork(b, a));
                        } else {
                            plan.push(Step::Fork(a, b));
                        }
                        if let Some(m) = post {
                            plan.push(Step::Build(m));
                        }
                        for c in &chunks[j + 2..] {
                            plan.push(Step::Tx(c.clone()));
                        }
                        out.push(plan);
                    }
                }
            }
        }
    }
    out
}

/// A branch with two transactions and a build in between (as in jj's own test), against a
/// one-transaction branch.
fn long_branch_plans(chunks: &[Vec<usize>], j: usize) -> Vec<Vec<Step>> {
    // chunks j, j+1 form branch a (Tx, Build(m), Tx); chunk j+2 is branch b
    let mut out = vec![];
    for m in [0, MAX] {
        for swap in [false, true] {
            let mut plan = vec![];
            for c in &chunks[..j] {
                plan.push(Step::Tx(c.clone()));
            }
            let a = vec![Step::Tx(chunks[j].clone()), Step::Build(m), Step::Tx(chunks[j + 1].clone())];
            let b = vec![Step::Tx(chunks[j + 2].clone())];
            if swap {
                plan.push(Step::Fork(b, a));
            } else {
                plan.push(Step::Fork(a, b));
            }
            for c in &chunks[j + 3..] {
                plan.push(Step::Tx(c.clone()));
            }
            plan.push(Step::Build(2));
            out.push(plan);
        }
    }
    out
}

fn independent(nodes: &[Node], a: &[usize], b: &[usize]) -> bool {
    b.iter().all(|&n| nodes[n - 1].parents.iter().all(|p| !a.contains(p)))
}

struct Group {
    nodes: Vec<Node>,
    plans: Vec<Vec<Step>>,
}

fn part_b_groups(max_n: usize, builds_by_n: &dyn Fn(usize) -> usize, rich_forks_up_to: usize) -> Vec<Group> {
    let mut groups = vec![];
    for n in 1..=max_n {
        for dag in all_dags(n, 2) {
            let nodes = rule_nodes(&dag.parents);
            let mut plans = vec![];
            for comp in compositions(n) {
                let mut chunks: Vec<Vec<usize>> = vec![];
                let mut next = 1;
                for c in comp {
                    chunks.push((next..next + c).collect());
                    next += c;
                }
                plans.extend(seq_plans(&chunks, builds_by_n(n)));
                for j in 0..chunks.len().saturating_sub(1) {
                    if independent(&nodes, &chunks[j], &chunks[j + 1]) {
                        plans.extend(fork_plans(&chunks, j, n <= rich_forks_up_to));
                    }
                }
                for j in 0..chunks.len().saturating_sub(2) {
                    let mut ab = chunks[j].clone();
                    ab.extend(chunks[j + 1].iter().copied());
                    if independent(&nodes, &ab, &chunks[j + 2]) {
                        plans.extend(long_branch_plans(&chunks, j));
                    }
                }
            }
            groups.push(Group { nodes, plans });
        }
    }
    groups
}

fn main() {
    // TestBackend creates a tokio runtime per repository; keep it to one worker thread.
    // SAFETY: single-threaded at this point.
    unsafe { std::env::set_var("TOKIO_WORKER_THREADS", "1") };
    let ctx = Ctx::from_args("C22", Level::ModelChecking);
    vcommon::silence_panics();
    let env = Env::new();

    if let Some((_sig, case)) = ctx.replay_case() {
        let case: Case = serde_json::from_value(case)
            .unwrap_or_else(|e| machinery_failure(&format!("bad replay case: {e}")));
        let twin = build_twin(&case.nodes);
        match catch(|| run_plan(&env, &case.nodes, &case.plan, &twin)) {
            Ok(Ok(out)) => {
                for (sig, msg) in out.soft {
                    ctx.violation(&sig, msg, serde_json::to_value(&case).unwrap());
                }
            }
            Ok(Err((sig, msg))) => ctx.violation(&sig, msg, serde_json::to_value(&case).unwrap()),
            Err(p) => ctx.violation("C22/panic/other", p, serde_json::to_value(&case).unwrap()),
        }
        ctx.finish(Coverage { evaluations: 1, ..Default::default() });
    }

    // determinism gate
    {
        let nodes = part_a_configs(&[1], &[1, 2])[3].clone();
        let plan = part_a_plans()[2].clone();
        let t1 = build_twin(&nodes);
        let t2 = build_twin(&nodes);
        if t1.ids != t2.ids || t1.ref_paths != t2.ref_paths || t1.free_paths != t2.free_paths || t1.noindex_files != t2.noindex_files {
            machinery_failure("twin repository is not deterministic");
        }
        let a = run_plan(&env, &nodes, &plan, &t1).map(|o| (o.some_checked, o.none_seen, o.state_keys));
        let b = run_plan(&env, &nodes, &plan, &t2).map(|o| (o.some_checked, o.none_seen, o.state_keys));
        if a.is_err() != b.is_err() || (a.is_ok() && a.as_ref().ok() != b.as_ref().ok()) {
            machinery_failure("replaying the probe history twice gave different observations");
        }
    }

    let mut groups: Vec<Group> = vec![];
    let all_edits: Vec<u8> = (0..NUM_EDITS).collect();
    if ctx.quick() {
        // content: all side-edit pairs x all merge modes x child edits {none, a:=top} x 3 plans
        for nodes in part_a_configs(&[0, 1], &all_edits) {
            groups.push(Group { nodes, plans: part_a_plans() });
        }
        for nodes in octopus_configs() {
            groups.push(Group { nodes, plans: octopus_plans() });
        }
        for nodes in conflicted_parent_configs() {
            groups.push(Group { nodes, plans: conflicted_parent_plans() });
        }
        groups.extend(part_b_groups(4, &|n| if n <= 3 { 2 } else { 1 }, 3));
    } else {
        for nodes in part_a_configs(&all_edits, &all_edits) {
            groups.push(Group { nodes, plans: part_a_plans() });
        }
        for nodes in octopus_configs() {
            groups.push(Group { nodes, plans: octopus_plans() });
        }
        for nodes in conflicted_parent_configs() {
            groups.push(Group { nodes, plans: conflicted_parent_plans() });
        }
        groups.extend(part_b_groups(5, &|n| if n <= 4 { 2 } else { 1 }, 4));
    }

    if std::env::var("C22_COUNT").is_ok() {
        let mut by_n: BTreeMap<usize, (usize, usize)> = BTreeMap::new();
        for g in &groups {
            let e = by_n.entry(g.nodes.len() * 10 + (g.nodes[0].recipe == Recipe::Base && g.nodes.len() == 5 && g.nodes[1].parents == vec![1] && g.nodes[2].parents == vec![1]) as usize).or_insert((0, 0));
            e.0 += 1;
            e.1 += g.plans.len();
        }
        eprintln!("groups by size: {by_n:?}");
        std::process::exit(0);
    }
    let evals = Counter::new();
    let nontrivial = Counter::new();
    let total: Mutex<Outcome> = Mutex::new(Outcome::default());
    let states: Mutex<HashSet<u64>> = Mutex::new(HashSet::new());
    let samples = Samples::new(6);
    let ref_nonempty_merge = Counter::new();
    let twins = Counter::new();
    let part_a_histories = Counter::new();

    groups.par_iter().for_each(|g| {
        let twin = match catch(|| build_twin(&g.nodes)) {
            Ok(t) => t,
            Err(p) => {
                // building the twin only uses layers below this property
                machinery_failure(&format!("building the twin repository panicked: {p}"));
            }
        };
        twins.inc();
        for n in 1..=g.nodes.len() {
            if g.nodes[n - 1].parents.len() > 1 && !twin.ref_paths[n].is_empty() {
                ref_nonempty_merge.inc();
            }
        }
        g.plans.par_iter().for_each(|plan| {
            evals.inc();
            let case_json = || json!({"nodes": g.nodes, "plan": plan});
            match catch(|| run_plan(&env, &g.nodes, plan, &twin)) {
                Ok(Ok(out)) => {
                    for (sig, msg) in &out.soft {
                        ctx.violation(sig, msg.clone(), case_json());
                    }
                    if out.some_checked > 0 && out.merge_commits_indexed > 0 {
                        nontrivial.inc();
                        if out.conflicted_parent_indexed > 0 {
                            samples.offer(case_json);
                        }
                    }
                    if g.nodes.len() == 5 && g.nodes[0].recipe == Recipe::Base && g.nodes[3].parents.len() == 2 {
                        part_a_histories.inc();
                    }
                    total.lock().unwrap().add(&out);
                    states.lock().unwrap().extend(out.state_keys.iter().copied());
                }
                Ok(Err((sig, msg))) => ctx.violation(&sig, msg, case_json()),
                Err(p) => ctx.violation("C22/panic/other", format!("panic: {p}"), case_json()),
            }
        });
    });

    let t = total.lock().unwrap().clone();
    if ctx.violation_count() == 0 {
        for (name, v) in [
            ("some_checked", t.some_checked),
            ("none_seen", t.none_seen),
            ("nonempty_lists", t.nonempty_lists),
            ("merge_commits_indexed", t.merge_commits_indexed),
            ("conflicted_parent_indexed", t.conflicted_parent_indexed),
            ("forward_growth", t.forward_growth),
            ("backward_growth", t.backward_growth),
            ("merge_growth", t.merge_growth),
            ("partial_range_views", t.partial_range_views),
            ("multi_level_views", t.multi_level_views),
            ("joins", t.joins),
        ] {
            if v == 0 {
                machinery_failure(&format!("vacuous run: counter {name} is zero"));
            }
        }
    }
    let mut extra: BTreeMap<String, Value> = BTreeMap::new();
    extra.insert("node_configurations".into(), json!(twins.get()));
    extra.insert("views_checked".into(), json!(t.views));
    extra.insert("commit_lookups_answered_some_and_compared".into(), json!(t.some_checked));
    extra.insert("commit_lookups_answered_none".into(), json!(t.none_seen));
    extra.insert("nonempty_path_lists_compared".into(), json!(t.nonempty_lists));
    extra.insert("merge_commits_compared".into(), json!(t.merge_commits_indexed));
    extra.insert("commits_with_conflicted_parent_merge_compared".into(), json!(t.conflicted_parent_indexed));
    extra.insert("commits_with_conflicted_own_tree_compared".into(), json!(t.conflicted_own_indexed));
    extra.insert("compared_commits_with_directory_file_conflict_paths_left_free".into(), json!(t.free_path_commits));
    extra.insert("merge_commits_with_nonempty_reference_paths".into(), json!(ref_nonempty_merge.get()));
    extra.insert("files_revset_evaluations".into(), json!(t.files_queries));
    extra.insert("files_revset_evaluations_with_indexed_hits".into(), json!(t.files_queries_with_indexed_hits));
    extra.insert("build_calls".into(), json!(t.builds));
    extra.insert("range_grew_forward_in_transaction".into(), json!(t.forward_growth));
    extra.insert("range_grew_backward_in_build".into(), json!(t.backward_growth));
    extra.insert("range_grew_in_operation_merge".into(), json!(t.merge_growth));
    extra.insert("views_with_partial_range".into(), json!(t.partial_range_views));
    extra.insert("views_with_full_range".into(), json!(t.full_range_views));
    extra.insert("views_with_stacked_changed_path_segments".into(), json!(t.multi_level_views));
    extra.insert("operation_merges".into(), json!(t.joins));
    extra.insert("range_vs_lookup_inconsistencies_not_a_verdict".into(), json!(t.range_inconsistencies));
    extra.insert("content_histories_diamond".into(), json!(part_a_histories.get()));
    let cov = Coverage {
        evaluations: evals.get(),
        distinct_nontrivial: nontrivial.get(),
        rule: "one evaluation = one (node configuration, plan) pair, each generated once; every view (mutable \
               index before each commit, readonly index after each transaction / build / operation merge, fresh \
               load from disk) is compared with the twin repository. non-trivial = at least one merge commit was \
               answered from the changed-path index and compared. states = distinct (configuration, indexed set, \
               segment layout) observed on readonly views; transitions = transactions + builds + operation merges"
            .into(),
        samples: samples.take(),
        exhaustive: true,
        states: Some(states.lock().unwrap().len() as u64),
        transitions: Some(t.transitions),
        traces_validated_against_impl: Some(t.transitions),
        extra,
        assumptions: vec![
            "merge_commit_trees (C07), MergedTree::path_value, the commit index (C18) and TestBackend are trusted \
             as lower layers of the reference"
                .into(),
            "a path counts as changed when its file-level value (tree terms = absent, conflicts simplified) \
             differs between the merged parents and the commit"
                .into(),
            "which commits are covered by the index (the range) is not constrained by the statement; it is only \
             counted"
                .into(),
        ],
    };
    ctx.finish(cov);
}

//! C08 — Rebasing carries a commit's changes and nothing else.
//!
//! Explicit-state search over histories of a real repository (`MutableRepo` on an in-memory
//! backend): actions create commits (`new`: parents, one path edit) and rebase a commit onto
//! new parents (`CommitRewriter::rebase`, followed by `rebase_descendants`). On every rebase
//! transition, for the rebased commit and for every descendant that was rebased with it:
//!   (1) a path whose value in the commit equals the value in its merged old parents takes
//!       the merged new parents' value;
//!   (2) a path on which merged old and new parents agree keeps the commit's value;
//!   (3) rebasing onto the current parents leaves the tree ids unchanged;
//!   (4) rebasing away and back restores the tree ids exactly when the commit's changes and
//!       the parent change touch disjoint paths.
//! Path values are compared modulo the denotation of conflicts (trivially resolved value, else
//! signed multiset of terms). The merged parents' tree is computed by the check's own recursive
//! merge over its own parent table (base for the next parent = greatest common ancestors of all
//! parents folded so far), fed to `MergedTree::merge` (C07 decides that tree merge); it never
//! goes through jj's index or `find_recursive_merge_commits`. A separate exhaustive family
//! covers rebases onto and from three-parent merges with asymmetric ancestry.

use std::cell::RefCell;
use std::collections::BTreeMap;
use std::collections::BTreeSet;
use std::collections::HashMap;
use std::pin::Pin;
use std::rc::Rc;
use std::sync::Arc;
use std::sync::Mutex;
use std::sync::atomic::AtomicUsize;
use std::sync::atomic::Ordering;
use std::time::SystemTime;

use async_trait::async_trait;
use futures::AsyncRead;
use futures::AsyncReadExt as _;
use futures::StreamExt as _;
use futures::stream::BoxStream;
use jj_lib::backend::Backend;
use jj_lib::backend::BackendError;
use jj_lib::backend::BackendResult;
use jj_lib::backend::ChangeId;
use jj_lib::backend::Commit as BackendCommit;
use jj_lib::backend::CommitId;
use jj_lib::backend::CopyHistory;
use jj_lib::backend::CopyId;
use jj_lib::backend::CopyRecord;
use jj_lib::backend::FileId;
use jj_lib::backend::MergedTreeValue;
use jj_lib::backend::MillisSinceEpoch;
use jj_lib::backend::RelatedCopy;
use jj_lib::backend::Signature;
use jj_lib::backend::SigningFn;
use jj_lib::backend::SymlinkId;
use jj_lib::backend::Timestamp;
use jj_lib::backend::Tree as BackendTree;
use jj_lib::backend::TreeId;
use jj_lib::backend::TreeValue;
use jj_lib::backend::make_root_commit;
use jj_lib::commit::Commit;
use jj_lib::config::ConfigLayer;
use jj_lib::config::ConfigSource;
use jj_lib::content_hash::ContentHash;
use jj_lib::content_hash::blake2b_hash;
use jj_lib::index::Index;
use jj_lib::merge::Merge;
use jj_lib::merge::SameChange;
use jj_lib::merged_tree::MergedTree;
use jj_lib::merged_tree_builder::MergedTreeBuilder;
use jj_lib::object_id::ObjectId as _;
use jj_lib::repo::MutableRepo;
use jj_lib::repo::ReadonlyRepo;
use jj_lib::repo::Repo as _;
use jj_lib::repo_path::RepoPath;
use jj_lib::repo_path::RepoPathBuf;
use jj_lib::rewrite::CommitRewriter;
use jj_lib::rewrite::RebaseOptions;
use jj_lib::rewrite::RebasedCommit;
use jj_lib::rewrite::merge_commit_trees;
use jj_lib::revset::RevsetExpression;
use jj_lib::settings::UserSettings;
use jj_lib::signing::Signer;
use pollster::FutureExt as _;
use serde_json::Value;
use serde_json::json;
use vcommon::Counter;
use vcommon::Coverage;
use vcommon::Ctx;
use vcommon::Level;
use vcommon::bfs;
use vcommon::bfs::BfsConfig;
use vcommon::bfs::StepResult;
use vcommon::catch;
use vcommon::machinery_failure;

// ---------------------------------------------------------------------------------------
// A strict in-memory commit backend (objects are stored per path; same as in c07.rs).

#[derive(Default)]
struct MemData {
    files: HashMap<(RepoPathBuf, FileId), Vec<u8>>,
    symlinks: HashMap<(RepoPathBuf, SymlinkId), String>,
    trees: HashMap<(RepoPathBuf, TreeId), BackendTree>,
    commits: HashMap<CommitId, BackendCommit>,
}

struct MemBackend {
    root_commit_id: CommitId,
    root_change_id: ChangeId,
    empty_tree_id: TreeId,
    data: Mutex<MemData>,
    conc: usize,
    salt: Option<u64>,
}

impl std::fmt::Debug for MemBackend {
    fn fmt(&self, f: &mut std::fmt::Formatter<'_>) -> std::fmt::Result {
        f.debug_struct("MemBackend").finish_non_exhaustive()
    }
}

fn obj_hash(content: &(impl ContentHash + ?Sized)) -> Vec<u8> {
    blake2b_hash(content).as_slice()[..10].to_vec()
}

struct YieldNow(bool);
impl Future for YieldNow {
    type Output = ();
    fn poll(mut self: Pin<&mut Self>, cx: &mut std::task::Context<'_>) -> std::task::Poll<()> {
        if self.0 {
            std::task::Poll::Ready(())
        } else {
            self.0 = true;
            cx.waker().wake_by_ref();
            std::task::Poll::Pending
        }
    }
}

impl MemBackend {
    fn new(conc: usize, salt: Option<u64>) -> Self {
        MemBackend {
            root_commit_id: CommitId::from_bytes(&[0; 10]),
            root_change_id: ChangeId::from_bytes(&[0; 16]),
            empty_tree_id: TreeId::new(obj_hash(&BackendTree::default())),
            data: Mutex::new(MemData::default()),
            conc,
            salt,
        }
    }

    async fn delay(&self, kind: &str, path: &RepoPath, id: &[u8]) {
        let Some(salt) = self.salt else { return };
        let mut key = kind.as_bytes().to_vec();
        key.extend_from_slice(path.as_internal_file_string().as_bytes());
        key.extend_from_slice(id);
        key.extend_from_slice(&salt.to_le_bytes());
        for _ in 0..(vcommon::fnv(&key) >> 7) % 4 {
            YieldNow(false).await;
        }
    }

    fn not_found(kind: &str, path: &RepoPath, hex: String) -> BackendError {
        BackendError::ObjectNotFound {
            object_type: kind.to_string(),
            hash: hex,
            source: format!("at path {path:?}").into(),
        }
    }
}

#[async_trait]
impl Backend for MemBackend {
    fn name(&self) -> &str {
        "mem"
    }
    fn commit_id_length(&self) -> usize {
        10
    }
    fn change_id_length(&self) -> usize {
        16
    }
    fn root_commit_id(&self) -> &CommitId {
        &self.root_commit_id
    }
    fn root_change_id(&self) -> &ChangeId {
        &self.root_change_id
    }
    fn empty_tree_id(&self) -> &TreeId {
        &self.empty_tree_id
    }
    fn concurrency(&self) -> usize {
        self.conc
    }
    async fn read_file(
        &self,
        path: &RepoPath,
        id: &FileId,
    ) -> BackendResult<Pin<Box<dyn AsyncRead + Send>>> {
        self.delay("rf", path, id.as_bytes()).await;
        let data = self.data.lock().unwrap();
        match data.files.get(&(path.to_owned(), id.clone())) {
            None => Err(Self::not_found("file", path, id.hex())),
            Some(c) => Ok(Box::pin(futures::io::Cursor::new(c.clone()))),
        }
    }
    async fn write_file(
        &self,
        path: &RepoPath,
        contents: &mut (dyn AsyncRead + Send + Unpin),
    ) -> BackendResult<FileId> {
        let mut bytes = vec![];
        contents.read_to_end(&mut bytes).await.unwrap();
        let id = FileId::new(obj_hash(&bytes));
        self.delay("wf", path, id.as_bytes()).await;
        self.data.lock().unwrap().files.insert((path.to_owned(), id.clone()), bytes);
        Ok(id)
    }
    async fn read_symlink(&self, path: &RepoPath, id: &SymlinkId) -> BackendResult<String> {
        self.delay("rs", path, id.as_bytes()).await;
        let data = self.data.lock().unwrap();
        data.symlinks
            .get(&(path.to_owned(), id.clone()))
            .cloned()
            .ok_or_else(|| Self::not_found("symlink", path, id.hex()))
    }
    async fn write_symlink(&self, path: &RepoPath, target: &str) -> BackendResult<SymlinkId> {
        let id = SymlinkId::new(obj_hash(target.as_bytes()));
        self.delay("ws", path, id.as_bytes()).await;
        self.data.lock().unwrap().symlinks.insert((path.to_owned(), id.clone()), target.to_string());
        Ok(id)
    }
    async fn read_copy(&self, _id: &CopyId) -> BackendResult<CopyHistory> {
        Err(BackendError::Unsupported("no copy tracking".into()))
    }
    async fn write_copy(&self, _copy: &CopyHistory) -> BackendResult<CopyId> {
        Err(BackendError::Unsupported("no copy tracking".into()))
    }
    async fn get_related_copies(&self, _copy_id: &CopyId) -> BackendResult<Vec<RelatedCopy>> {
        Err(BackendError::Unsupported("no copy tracking".into()))
    }
    async fn read_tree(&self, path: &RepoPath, id: &TreeId) -> BackendResult<BackendTree> {
        if id == &self.empty_tree_id {
            return Ok(BackendTree::default());
        }
        self.delay("rt", path, id.as_bytes()).await;
        let data = self.data.lock().unwrap();
        data.trees
            .get(&(path.to_owned(), id.clone()))
            .cloned()
            .ok_or_else(|| Self::not_found("tree", path, id.hex()))
    }
    async fn write_tree(&self, path: &RepoPath, contents: &BackendTree) -> BackendResult<TreeId> {
        let id = TreeId::new(obj_hash(contents));
        self.delay("wt", path, id.as_bytes()).await;
        self.data.lock().unwrap().trees.insert((path.to_owned(), id.clone()), contents.clone());
        Ok(id)
    }
    async fn read_commit(&self, id: &CommitId) -> BackendResult<BackendCommit> {
        if id == &self.root_commit_id {
            return Ok(make_root_commit(self.root_change_id.clone(), self.empty_tree_id.clone()));
        }
        let data = self.data.lock().unwrap();
        data.commits
            .get(id)
            .cloned()
            .ok_or_else(|| Self::not_found("commit", RepoPath::root(), id.hex()))
    }
    async fn write_commit(
        &self,
        contents: BackendCommit,
        _sign_with: Option<&mut SigningFn>,
    ) -> BackendResult<(CommitId, BackendCommit)> {
        let id = CommitId::new(obj_hash(&contents));
        self.data.lock().unwrap().commits.insert(id.clone(), contents.clone());
        Ok((id, contents))
    }
    fn get_copy_records(
        &self,
        _paths: Option<&[RepoPathBuf]>,
        _root: &CommitId,
        _head: &CommitId,
    ) -> BackendResult<BoxStream<'_, BackendResult<CopyRecord>>> {
        Ok(futures::stream::empty().boxed())
    }
    fn gc(&self, _index: &dyn Index, _keep_newer: SystemTime) -> BackendResult<()> {
        Ok(())
    }
}

// ---------------------------------------------------------------------------------------
// Alphabet.

/// Label of the root commit in parent lists; other labels are creation indices.
const ROOT: usize = usize::MAX;

#[derive(Clone, Debug, PartialEq, Eq)]
enum Edit {
    Noop,
    Set { path: String, content: Option<String> },
}

#[derive(Clone, Debug, PartialEq, Eq)]
enum Act {
    /// Create a commit on the merged parents with one path edited.
    New { parents: Vec<usize>, edit: Edit },
    /// Rebase commit `x` onto the given parents, then rebase its descendants.
    Rebase { x: usize, parents: Vec<usize> },
}

fn label_json(l: usize) -> Value {
    if l == ROOT { json!("root") } else { json!(format!("c{l}")) }
}

fn label_from_json(v: &Value) -> usize {
    let s = v.as_str().unwrap();
    if s == "root" { ROOT } else { s[1..].parse().unwrap() }
}

fn act_json(a: &Act) -> Value {
    match a {
        Act::New { parents, edit } => {
            let edit = match edit {
                Edit::Noop => json!("none"),
                Edit::Set { path, content: Some(c) } => json!({"path": path, "write": c}),
                Edit::Set { path, content: None } => json!({"path": path, "remove": true}),
            };
            json!({"op": "new", "parents": parents.iter().map(|p| label_json(*p)).collect::<Vec<_>>(), "edit": edit})
        }
        Act::Rebase { x, parents } => {
            json!({"op": "rebase", "commit": label_json(*x), "onto": parents.iter().map(|p| label_json(*p)).collect::<Vec<_>>()})
        }
    }
}

fn act_from_json(v: &Value) -> Act {
    let labels = |v: &Value| v.as_array().unwrap().iter().map(label_from_json).collect::<Vec<_>>();
    if v["op"] == "new" {
        let e = &v["edit"];
        let edit = if e == "none" {
            Edit::Noop
        } else {
            Edit::Set {
                path: e["path"].as_str().unwrap().to_string(),
                content: e.get("write").map(|c| c.as_str().unwrap().to_string()),
            }
        };
        Act::New { parents: labels(&v["parents"]), edit }
    } else {
        Act::Rebase { x: label_from_json(&v["commit"]), parents: labels(&v["onto"]) }
    }
}

#[derive(Clone, Debug)]
struct Bounds {
    paths: Vec<&'static str>,
    contents: Vec<&'static str>,
    max_commits: usize,
    /// no `new` after the first `rebase`
    phased: bool,
    max_depth: usize,
    max_parents: usize,
}

const BASE: &str = "1\n2\n";
const LEFT: &str = "X\n2\n"; // changes line 1 of BASE
const RIGHT: &str = "1\nY\n"; // changes line 2 of BASE; merges with LEFT to "X\nY\n"

// ---------------------------------------------------------------------------------------
// The repository under test (one per worker thread and same-change setting).

struct World {
    repo: Arc<ReadonlyRepo>,
    sc: SameChange,
}

fn sc_name(sc: SameChange) -> &'static str {
    match sc {
        SameChange::Keep => "keep",
        SameChange::Accept => "accept",
    }
}

static WORLD_SEQ: AtomicUsize = AtomicUsize::new(0);

impl World {
    fn new(scratch: &std::path::Path, sc: SameChange) -> World {
        let mut config = testutils::base_user_config();
        config.add_layer(
            ConfigLayer::parse(
                ConfigSource::User,
                &format!(
                    "debug.commit-timestamp = \"2001-02-03T04:05:06+07:00\"\nmerge.same-change = \"{}\"\n",
                    sc_name(sc)
                ),
            )
            .unwrap(),
        );
        let settings = UserSettings::from_config(config).unwrap();
        let dir = scratch.join(format!("repo{}", WORLD_SEQ.fetch_add(1, Ordering::Relaxed)));
        std::fs::create_dir_all(&dir)
            .unwrap_or_else(|e| machinery_failure(&format!("cannot create repo dir: {e}")));
        let repo = ReadonlyRepo::init(
            &settings,
            &dir,
            &|_settings, _store_path| Ok(Box::new(MemBackend::new(1, None))),
            Signer::from_settings(&settings).unwrap(),
            ReadonlyRepo::default_op_store_initializer(),
            ReadonlyRepo::default_op_heads_store_initializer(),
            ReadonlyRepo::default_index_store_initializer(),
            ReadonlyRepo::default_submodule_store_initializer(),
        )
        .block_on()
        .unwrap_or_else(|e| machinery_failure(&format!("cannot init repo: {e}")));
        World { repo, sc }
    }
}

thread_local! {
    static WORLDS: RefCell<HashMap<&'static str, Rc<World>>> = RefCell::new(HashMap::new());
}

fn world(scratch: &std::path::Path, sc: SameChange) -> Rc<World> {
    WORLDS.with(|w| {
        w.borrow_mut()
            .entry(sc_name(sc))
            .or_insert_with(|| Rc::new(World::new(scratch, sc)))
            .clone()
    })
}

fn rp(p: &str) -> RepoPathBuf {
    RepoPathBuf::from_internal_string(p).unwrap()
}

fn sig(t: usize) -> Signature {
    Signature {
        name: "Verif".to_string(),
        email: "verif@example.com".to_string(),
        timestamp: Timestamp { timestamp: MillisSinceEpoch(1_000_000_000 + 1000 * t as i64), tz_offset: 0 },
    }
}

// ---------------------------------------------------------------------------------------
// Observation: path values modulo the denotation of conflicts.

fn term_key(t: &Option<TreeValue>) -> String {
    match t {
        None => "-".to_string(),
        Some(TreeValue::File { id, executable, .. }) => format!("F{}{}", id.hex(), if *executable { "x" } else { "" }),
        Some(TreeValue::Tree(id)) => format!("T{}", id.hex()),
        Some(other) => format!("{other:?}"),
    }
}

/// Trivially resolved value (as `path_value` already returns it), else the signed multiset.
fn canon(v: &MergedTreeValue, sc: SameChange) -> String {
    if let Some(r) = v.resolve_trivial(sc) {
        return term_key(r);
    }
    let mut m: BTreeMap<String, i32> = BTreeMap::new();
    for (i, t) in v.iter().enumerate() {
        *m.entry(term_key(t)).or_insert(0) += if i % 2 == 0 { 1 } else { -1 };
    }
    m.retain(|_, c| *c != 0);
    format!("{m:?}")
}

fn value_at(tree: &MergedTree, path: &str) -> MergedTreeValue {
    tree.path_value(&rp(path)).block_on().unwrap()
}

/// All leaf paths of the trees plus the alphabet's paths.
fn all_paths(trees: &[&MergedTree], bounds: &Bounds) -> BTreeSet<String> {
    let mut out: BTreeSet<String> = bounds.paths.iter().map(|p| p.to_string()).collect();
    for t in trees {
        for (p, _) in t.entries() {
            out.insert(p.as_internal_file_string().to_string());
        }
    }
    out
}

// ---------------------------------------------------------------------------------------
// State reconstruction and oracles.

type Fail = (String, String);

#[derive(Clone)]
struct St {
    nodes: Vec<Commit>,
    parents: Vec<Vec<usize>>,
    /// order in which the current commit of each label was written (= index position order)
    pos: Vec<u64>,
    next_pos: u64,
    max_parents: usize,
}

impl St {
    fn commit(&self, mr: &MutableRepo, label: usize) -> Commit {
        if label == ROOT { mr.store().root_commit() } else { self.nodes[label].clone() }
    }

    fn descendants_or_self(&self, x: usize) -> BTreeSet<usize> {
        let mut out = BTreeSet::from([x]);
        // labels are creation indices, but rebases may point a parent list at later labels;
        // iterate to a fixed point
        loop {
            let before = out.len();
            for (i, ps) in self.parents.iter().enumerate() {
                if ps.iter().any(|p| out.contains(p)) {
                    out.insert(i);
                }
            }
            if out.len() == before {
                return out;
            }
        }
    }

    // --- Independent reference for "the merged parents' tree": the recursive merge over the
    // parent table of this struct (never jj's index or find_recursive_merge_commits).

    fn ancestors_or_self(&self, label: usize) -> BTreeSet<usize> {
        let mut out = BTreeSet::from([ROOT, label]);
        let mut todo = vec![label];
        while let Some(l) = todo.pop() {
            if l == ROOT {
                continue;
            }
            for p in &self.parents[l] {
                if out.insert(*p) {
                    todo.push(*p);
                }
            }
        }
        out
    }

    fn position(&self, label: usize) -> u64 {
        if label == ROOT { 0 } else { self.pos[label] }
    }

    /// Greatest common ancestors of two sets of commits, newest first.
    fn gca(&self, set1: &[usize], set2: &[usize]) -> Vec<usize> {
        let anc = |set: &[usize]| -> BTreeSet<usize> {
            set.iter().flat_map(|l| self.ancestors_or_self(*l)).collect()
        };
        let common: BTreeSet<usize> = anc(set1).intersection(&anc(set2)).copied().collect();
        let mut heads: Vec<usize> = common
            .iter()
            .copied()
            .filter(|c| !common.iter().any(|d| d != c && self.ancestors_or_self(*d).contains(c)))
            .collect();
        heads.sort_by_key(|l| std::cmp::Reverse(self.position(*l)));
        heads
    }

    /// The commits whose trees are merged for the given parents: fold left to right; the base
    /// for the next parent is the recursive merge of the greatest common ancestors of *all
    /// parents folded so far* and the next parent. (`pairwise` = base from the preceding
    /// parent only; used only to count the inputs on which that difference matters.)
    fn recursive_merge(&self, ids: &[usize], pairwise: bool) -> Merge<usize> {
        match ids {
            [] => Merge::resolved(ROOT),
            [one] => Merge::resolved(*one),
            _ => {
                let mut result = Merge::resolved(ids[0]);
                for pos in 1..ids.len() {
                    let folded = if pairwise { &ids[pos - 1..pos] } else { &ids[..pos] };
                    let base = self.recursive_merge(&self.gca(folded, &ids[pos..pos + 1]), pairwise);
                    result = Merge::from_vec(vec![result, base, Merge::resolved(ids[pos])]).flatten();
                }
                result
            }
        }
    }

    fn merged_parents_tree(&self, mr: &MutableRepo, parents: &[usize], pairwise: bool) -> Result<MergedTree, Fail> {
        if let [one] = parents {
            return Ok(self.commit(mr, *one).tree());
        }
        let terms = self.recursive_merge(parents, pairwise).map(|l| {
            let c = self.commit(mr, *l);
            (c.tree(), c.conflict_label())
        });
        catch(|| MergedTree::merge(terms).block_on())
            .map_err(|e| ("C08/MergedTree::merge/panic".to_string(), e))?
            .map_err(|e| ("C08/MergedTree::merge/error".to_string(), format!("{e:?}")))
    }

    fn valid_parent_set(&self, parents: &[usize]) -> bool {
        let distinct: BTreeSet<&usize> = parents.iter().collect();
        !parents.is_empty()
            && parents.len() <= self.max_parents
            && distinct.len() == parents.len()
            && parents.iter().all(|p| *p == ROOT || *p < self.nodes.len())
            && !(parents.len() > 1 && parents.contains(&ROOT))
    }
}

#[derive(Default)]
struct Tally {
    rebase_transitions: Counter,
    commits_rebased: Counter,
    descendants_rebased: Counter,
    c1_instances: Counter,
    c1_with_parent_change: Counter,
    c2_instances: Counter,
    c2_with_commit_change: Counter,
    c3_checked: Counter,
    roundtrip_disjoint: Counter,
    roundtrip_overlapping: Counter,
    result_conflicted: Counter,
    commit_conflicted_before: Counter,
    new_parents_conflicted: Counter,
    old_parents_conflicted: Counter,
    onto_merge: Counter,
    from_merge: Counter,
    onto_root: Counter,
    content_merged_paths: Counter,
    same_parent_trees_different_merge: Counter,
    roundtrip_exact: Counter,
    roundtrip_conflict_sides_reordered: Counter,
    roundtrip_conflict_other_arity: Counter,
    octopus_parent_sets: Counter,
    octopus_asymmetric: Counter,
    octopus_asymmetric_changes_tree: Counter,
    reference_same_ids_as_jj: Counter,
    reference_other_ids_than_jj: Counter,
    onto_octopus: Counter,
    from_octopus: Counter,
}

struct Checker<'a> {
    ctx: &'a Ctx,
    tally: &'a Tally,
    bounds: &'a Bounds,
    sc: SameChange,
    history: &'a [Act],
}

impl Checker<'_> {
    fn case(&self) -> Value {
        json!({
            "same_change": sc_name(self.sc),
            "history": self.history.iter().map(act_json).collect::<Vec<_>>(),
        })
    }

    fn violation(&self, sig: &str, msg: String) {
        self.ctx.violation(sig, msg, self.case());
    }

    /// The merged parents' tree of `commit`, whose parents are the labels `parents` in graph
    /// `g`, by the independent recursive-merge reference.
    fn parents_tree(&self, mr: &MutableRepo, g: &St, parents: &[usize], commit: &Commit) -> Result<MergedTree, Fail> {
        let ids: Vec<CommitId> = parents.iter().map(|p| g.commit(mr, *p).id().clone()).collect();
        if ids != commit.parent_ids() {
            machinery_failure("the parent table of the reference graph is out of step with the repository");
        }
        let tree = g.merged_parents_tree(mr, parents, false)?;
        if parents.len() >= 3 {
            self.tally.octopus_parent_sets.inc();
            if g.recursive_merge(parents, false) != g.recursive_merge(parents, true) {
                self.tally.octopus_asymmetric.inc();
                if g.merged_parents_tree(mr, parents, true)?.tree_ids() != tree.tree_ids() {
                    self.tally.octopus_asymmetric_changes_tree.inc();
                }
            }
        }
        // how often jj's own merge_commit_trees returns the very same tree ids (not an oracle)
        if parents.len() > 1 {
            let jj_parents: Vec<Commit> = parents.iter().map(|p| g.commit(mr, *p)).collect();
            match catch(|| merge_commit_trees(mr, &jj_parents).block_on()) {
                Ok(Ok(t)) if t.tree_ids() == tree.tree_ids() => self.tally.reference_same_ids_as_jj.inc(),
                _ => self.tally.reference_other_ids_than_jj.inc(),
            }
        }
        Ok(tree)
    }

    /// Clauses (1) and (2) for one rebased commit.
    #[allow(clippy::too_many_arguments)]
    fn check_rebased(
        &self,
        mr: &MutableRepo,
        what: &str,
        old: &Commit,
        (g_old, old_parents): (&St, &[usize]),
        new: &Commit,
        (g_new, new_parents): (&St, &[usize]),
    ) -> Result<(), Fail> {
        let o = self.parents_tree(mr, g_old, old_parents, old)?;
        let n = self.parents_tree(mr, g_new, new_parents, new)?;
        let t = old.tree();
        let t2 = new.tree();
        self.tally.commits_rebased.inc();
        if t2.has_conflict() {
            self.tally.result_conflicted.inc();
        }
        if t.has_conflict() {
            self.tally.commit_conflicted_before.inc();
        }
        if n.has_conflict() {
            self.tally.new_parents_conflicted.inc();
        }
        if o.has_conflict() {
            self.tally.old_parents_conflicted.inc();
        }
        if new.parent_ids().len() > 1 {
            self.tally.onto_merge.inc();
        }
        if old.parent_ids().len() > 1 {
            self.tally.from_merge.inc();
        }
        if new.parent_ids().len() > 2 {
            self.tally.onto_octopus.inc();
        }
        if old.parent_ids().len() > 2 {
            self.tally.from_octopus.inc();
        }
        if new.parent_ids() == [mr.store().root_commit_id().clone()] {
            self.tally.onto_root.inc();
        }
        let shape = |v: &MergedTreeValue| if v.is_resolved() { "resolved" } else { "conflict" };
        // The shape in which rebase_with_empty_behavior skips the merge: the parents' trees are
        // the same lists of ids, yet the merged parents differ (the parents' ancestry changed).
        let parent_tree_ids = |c: &Commit| -> Result<Vec<Merge<TreeId>>, Fail> {
            Ok(c.parents()
                .block_on()
                .map_err(|e| ("C08/error".to_string(), format!("{e:?}")))?
                .iter()
                .map(|p| p.tree_ids().clone())
                .collect())
        };
        let skip_shape = parent_tree_ids(old)? == parent_tree_ids(new)? && o.tree_ids() != n.tree_ids();
        if skip_shape {
            self.tally.same_parent_trees_different_merge.inc();
        }
        for p in all_paths(&[&o, &n, &t, &t2], self.bounds) {
            let (vo, vn, vt, vt2) = (value_at(&o, &p), value_at(&n, &p), value_at(&t, &p), value_at(&t2, &p));
            let (co, cn, ct, ct2) = (canon(&vo, self.sc), canon(&vn, self.sc), canon(&vt, self.sc), canon(&vt2, self.sc));
            if ct == co {
                self.tally.c1_instances.inc();
                if co != cn {
                    self.tally.c1_with_parent_change.inc();
                }
                if ct2 != cn {
                    self.violation(
                        &if skip_shape {
                            format!("C08/{what}/unchanged-path-must-take-new-parents/parent-trees-equal-but-merged-parents-differ")
                        } else {
                            format!("C08/{what}/unchanged-path-must-take-new-parents/new-parents-{}", shape(&vn))
                        },
                        format!(
                            "path {p}: commit {vt:?} equals old parents {vo:?}, new parents have {vn:?}, \
                             but the rebased commit has {vt2:?}"
                        ),
                    );
                }
            }
            if co == cn {
                self.tally.c2_instances.inc();
                if ct != co {
                    self.tally.c2_with_commit_change.inc();
                }
                if ct2 != ct {
                    self.violation(
                        &format!("C08/{what}/parents-agree-must-keep-content/commit-{}", shape(&vt)),
                        format!(
                            "path {p}: old parents {vo:?} and new parents {vn:?} agree, the commit had {vt:?}, \
                             but the rebased commit has {vt2:?}"
                        ),
                    );
                }
            }
            if vt2.is_resolved() && ![&vo, &vn, &vt].iter().any(|v| canon(v, self.sc) == ct2) {
                self.tally.content_merged_paths.inc();
            }
        }
        Ok(())
    }
}

fn do_rebase(mr: &mut MutableRepo, old: &Commit, new_parent_ids: Vec<CommitId>, t: usize) -> Result<Commit, Fail> {
    catch(|| -> BackendResult<Commit> {
        let builder = CommitRewriter::new(mr, old.clone(), new_parent_ids).rebase().block_on()?;
        builder.set_committer(sig(t)).write().block_on()
    })
    .map_err(|e| ("C08/rebase/panic".to_string(), e))?
    .map_err(|e| ("C08/rebase/error".to_string(), format!("{e:?}")))
}

/// Applies one action. `Ok(false)`: the action is not enabled in this state.
fn apply(
    mr: &mut MutableRepo,
    st: &mut St,
    act: &Act,
    t: usize,
    checker: Option<&Checker>,
) -> Result<bool, Fail> {
    match act {
        Act::New { parents, edit } => {
            if !st.valid_parent_set(parents) {
                return Ok(false);
            }
            let parent_commits: Vec<Commit> = parents.iter().map(|p| st.commit(mr, *p)).collect();
            let base = catch(|| merge_commit_trees(&*mr, &parent_commits).block_on())
                .map_err(|e| ("C08/merge_commit_trees/panic".to_string(), e))?
                .map_err(|e| ("C08/merge_commit_trees/error".to_string(), format!("{e:?}")))?;
            let tree = match edit {
                Edit::Noop => base,
                Edit::Set { path, content } => {
                    let path = rp(path);
                    let value = content.as_ref().map(|c| TreeValue::File {
                        id: mr.store().write_file(&path, &mut c.as_bytes()).block_on().unwrap(),
                        executable: false,
                        copy_id: CopyId::placeholder(),
                    });
                    let new_value = Merge::resolved(value);
                    if base.path_value(&path).block_on().unwrap() == new_value {
                        return Ok(false); // an edit that changes nothing is the same as Noop
                    }
                    let mut b = MergedTreeBuilder::new(base);
                    b.set_or_remove(path, new_value);
                    b.write_tree().block_on().unwrap()
                }
            };
            let label = st.nodes.len();
            let commit = mr
                .new_commit(parent_commits.iter().map(|c| c.id().clone()).collect(), tree)
                .set_change_id(ChangeId::from_bytes(&[label as u8 + 1; 16]))
                .set_description(format!("c{label}"))
                .set_author(sig(t))
                .set_committer(sig(t))
                .write()
                .block_on()
                .map_err(|e| ("C08/new/error".to_string(), format!("{e:?}")))?;
            st.nodes.push(commit);
            st.parents.push(parents.clone());
            st.next_pos += 1;
            st.pos.push(st.next_pos);
            Ok(true)
        }
        Act::Rebase { x, parents } => {
            if *x >= st.nodes.len() || !st.valid_parent_set(parents) {
                return Ok(false);
            }
            let below = st.descendants_or_self(*x);
            if parents.iter().any(|p| below.contains(p)) {
                return Ok(false);
            }
            let before_graph: St = st.clone();
            let before: Vec<Commit> = st.nodes.clone();
            let old = before[*x].clone();
            let new_parent_ids: Vec<CommitId> = parents.iter().map(|p| st.commit(mr, *p).id().clone()).collect();
            let new_x = do_rebase(mr, &old, new_parent_ids, t)?;
            let mut mapping: HashMap<CommitId, CommitId> = HashMap::new();
            let mut written_order: Vec<CommitId> = vec![];
            catch(|| {
                mr.rebase_descendants_with_options(
                    &RevsetExpression::none(),
                    &RebaseOptions::default(),
                    |old_commit, rebased| {
                        let new_id = match rebased {
                            RebasedCommit::Rewritten(c) => c.id().clone(),
                            RebasedCommit::Abandoned { parent_id } => parent_id,
                        };
                        written_order.push(old_commit.id().clone());
                        mapping.insert(old_commit.id().clone(), new_id);
                    },
                )
                .block_on()
            })
            .map_err(|e| ("C08/rebase_descendants/panic".to_string(), e))?
            .map_err(|e| ("C08/rebase_descendants/error".to_string(), format!("{e:?}")))?;
            st.nodes[*x] = new_x;
            st.parents[*x] = parents.clone();
            st.next_pos += 1;
            st.pos[*x] = st.next_pos;
            for old_id in &written_order {
                if let Some(i) = before.iter().position(|c| c.id() == old_id) {
                    st.next_pos += 1;
                    st.pos[i] = st.next_pos;
                }
            }
            for (i, c) in before.iter().enumerate() {
                if let Some(new_id) = mapping.get(c.id()) {
                    if i == *x {
                        machinery_failure("the rebased commit was rebased again as a descendant");
                    }
                    st.nodes[i] = mr.store().get_commit(new_id).unwrap();
                }
            }
            if let Some(ck) = checker {
                ck.tally.rebase_transitions.inc();
                for (i, c) in before.iter().enumerate() {
                    if st.nodes[i].id() == c.id() {
                        continue;
                    }
                    if i != *x {
                        ck.tally.descendants_rebased.inc();
                        if !below.contains(&i) {
                            machinery_failure("a commit that is not a descendant was rewritten");
                        }
                    }
                    ck.check_rebased(
                        mr,
                        if i == *x { "rebase" } else { "descendant" },
                        c,
                        (&before_graph, &before_graph.parents[i]),
                        &st.nodes[i],
                        (&*st, &st.parents[i]),
                    )?;
                }
                // (3) same parents: same tree, id for id
                if st.nodes[*x].parent_ids() == old.parent_ids() {
                    ck.tally.c3_checked.inc();
                    if st.nodes[*x].tree_ids() != old.tree_ids() {
                        ck.violation(
                            "C08/rebase/same-parents-must-keep-tree",
                            format!("tree ids {:?} became {:?}", old.tree_ids(), st.nodes[*x].tree_ids()),
                        );
                    }
                }
            }
            Ok(true)
        }
    }
}

/// Clause (4), evaluated after the state key was taken (it adds a commit to the scratch
/// transaction): rebase the just-rebased commit back onto its previous parents.
fn check_roundtrip(
    mr: &mut MutableRepo,
    ck: &Checker,
    st: &St,
    old: &Commit,
    old_parents: &[usize],
    moved: &Commit,
    new_parents: &[usize],
    t: usize,
) -> Result<(), Fail> {
    if moved.parent_ids() == old.parent_ids() {
        return Ok(());
    }
    // (the old parents are not descendants of the rebased commit, so they and their ancestors
    // are the same commits in the graph after the rebase)
    let o1 = ck.parents_tree(mr, st, old_parents, old)?;
    let o2 = ck.parents_tree(mr, st, new_parents, moved)?;
    let tree = old.tree();
    let mut overlap = vec![];
    for p in all_paths(&[&o1, &o2, &tree], ck.bounds) {
        let (c1, c2, ct) = (
            canon(&value_at(&o1, &p), ck.sc),
            canon(&value_at(&o2, &p), ck.sc),
            canon(&value_at(&tree, &p), ck.sc),
        );
        if ct != c1 && c1 != c2 {
            overlap.push(p);
        }
    }
    let back = do_rebase(mr, moved, old.parent_ids().to_vec(), t)?;
    // the way back is a rebase like any other
    ck.check_rebased(mr, "rebase-back", moved, (st, new_parents), &back, (st, old_parents))?;
    if !overlap.is_empty() {
        ck.tally.roundtrip_overlapping.inc();
        return Ok(());
    }
    ck.tally.roundtrip_disjoint.inc();
    if back.tree_ids() == old.tree_ids() {
        ck.tally.roundtrip_exact.inc();
        return Ok(());
    }
    // Not the same ids. A conflicted tree has many representations with the same content at
    // every path (sides in another order; terms that cancel path by path but not as whole
    // trees), and the round trip may return another one of them; the statement's "exactly" is
    // demanded id for id of resolved trees and path by path (modulo the denotation of
    // conflicts) of conflicted ones.
    let mut differing = vec![];
    for p in all_paths(&[&tree, &back.tree()], ck.bounds) {
        if canon(&value_at(&tree, &p), ck.sc) != canon(&value_at(&back.tree(), &p), ck.sc) {
            differing.push(p);
        }
    }
    if old.has_conflict() && back.has_conflict() && differing.is_empty() {
        if back.tree_ids().num_sides() == old.tree_ids().num_sides() {
            ck.tally.roundtrip_conflict_sides_reordered.inc();
        } else {
            ck.tally.roundtrip_conflict_other_arity.inc();
        }
        return Ok(());
    }
    let kind = if differing.is_empty() { "same-content-different-tree-ids" } else { "content-differs" };
    ck.violation(
        &format!("C08/roundtrip/{kind}/commit-{}", if old.has_conflict() { "conflicted" } else { "resolved" }),
        format!(
            "rebased away and back over disjoint paths: tree ids {:?} became {:?} (differing paths {differing:?})",
            old.tree_ids(),
            back.tree_ids()
        ),
    );
    Ok(())
}

fn parent_sets(k: usize) -> Vec<Vec<usize>> {
    let mut out = vec![vec![ROOT]];
    for i in 0..k {
        out.push(vec![i]);
    }
    for i in 0..k {
        for j in i + 1..k {
            out.push(vec![i, j]);
        }
    }
    out
}

fn enabled(st: &St, bounds: &Bounds, history: &[Act]) -> Vec<Act> {
    let k = st.nodes.len();
    let mut out = vec![];
    let rebased_already = history.iter().any(|a| matches!(a, Act::Rebase { .. }));
    // A `new` as the very last action of a history has no oracle and no successor: skip it.
    let last_level = history.len() + 1 >= bounds.max_depth;
    if k < bounds.max_commits && !(bounds.phased && rebased_already) && !last_level {
        for parents in parent_sets(k) {
            out.push(Act::New { parents: parents.clone(), edit: Edit::Noop });
            for path in &bounds.paths {
                for content in std::iter::once(None).chain(bounds.contents.iter().map(|c| Some(c.to_string()))) {
                    out.push(Act::New {
                        parents: parents.clone(),
                        edit: Edit::Set { path: path.to_string(), content },
                    });
                }
            }
        }
    }
    for x in 0..k {
        let below = st.descendants_or_self(x);
        for parents in parent_sets(k) {
            if !parents.iter().any(|p| below.contains(p)) {
                out.push(Act::Rebase { x, parents });
            }
        }
    }
    out
}

/// Label-based rendering of everything later actions and the oracles can observe: per
/// commit its parents and its tree (path values as term lists).
fn state_key(st: &St, bounds: &Bounds, history: &[Act]) -> String {
    let mut s = String::new();
    if bounds.phased {
        s.push_str(if history.iter().any(|a| matches!(a, Act::Rebase { .. })) { "R|" } else { "N|" });
    }
    for (i, c) in st.nodes.iter().enumerate() {
        s.push_str(&format!("c{i}<{:?}:", st.parents[i]));
        // tree ids are content hashes: equal ids <=> equal (possibly conflicted) trees
        for id in c.tree_ids().iter() {
            s.push_str(&id.hex());
            s.push(',');
        }
        s.push(';');
    }
    blake2b_hash(&s).as_slice()[..16].iter().map(|b| format!("{b:02x}")).collect()
}

fn step(
    ctx: &Ctx,
    tally: &Tally,
    bounds: &Bounds,
    sc: SameChange,
    history: &[Act],
) -> Option<StepResult<Act>> {
    let w = world(ctx.scratch(), sc);
    let mut tx = w.repo.start_transaction();
    let mr = tx.repo_mut();
    let mut st = St { nodes: vec![], parents: vec![], pos: vec![], next_pos: 0, max_parents: bounds.max_parents };
    let checker = Checker { ctx, tally, bounds, sc: w.sc, history };
    let mut before_last: Option<St> = None;
    for (i, act) in history.iter().enumerate() {
        let last = i + 1 == history.len();
        if last {
            before_last = Some(st.clone());
        }
        match apply(mr, &mut st, act, i, last.then_some(&checker)) {
            Ok(true) => {}
            Ok(false) => return None,
            Err((sig, msg)) => {
                if last {
                    checker.violation(&sig, msg);
                    return None;
                }
                machinery_failure(&format!("a prefix that passed before now fails: {sig}: {msg}"));
            }
        }
    }
    let key = state_key(&st, bounds, history);
    let actions = enabled(&st, bounds, history);
    if let Some(Act::Rebase { x, .. }) = history.last() {
        let before = before_last.unwrap();
        let old = before.nodes[*x].clone();
        let moved = st.nodes[*x].clone();
        if let Err((sig, msg)) =
            check_roundtrip(mr, &checker, &st, &old, &before.parents[*x], &moved, &st.parents[*x], history.len())
        {
            checker.violation(&sig, msg);
        }
    }
    Some(StepResult { key, actions })
}

// ---------------------------------------------------------------------------------------
// Merges of three parents with asymmetric ancestry (not reachable within the depth of the
// searches): every forest of `k` single-parent commits x every edit per commit, then
//   (onto)  a further commit x = new([px], ex), rebased onto every ordered triple of the k commits;
//   (from)  a further commit x = new(triple, ex) for every ordered triple, rebased onto the root
// each followed by the way back (clause 4), judged by the same clauses as the searches.

struct OctopusFamily {
    name: &'static str,
    sc: SameChange,
    k: usize,
    graph_edits: Vec<Edit>,
    /// (parent, edit) of the commit that is rebased onto the triples
    x_variants: Vec<(usize, Edit)>,
    /// edits of the three-parent commit that is rebased away
    merge_edits: Vec<Edit>,
}

fn set(path: &str, content: Option<&str>) -> Edit {
    Edit::Set { path: path.to_string(), content: content.map(|c| c.to_string()) }
}

fn ordered_triples(k: usize) -> Vec<Vec<usize>> {
    let mut out = vec![];
    for a in 0..k {
        for b in 0..k {
            for c in 0..k {
                if a != b && a != c && b != c {
                    out.push(vec![a, b, c]);
                }
            }
        }
    }
    out
}

/// Returns (histories executed, histories with an action that is not enabled).
fn run_octopus_family(ctx: &Ctx, tally: &Tally, fam: &OctopusFamily) -> (u64, u64, u64) {
    use rayon::prelude::*;
    let bounds = Bounds {
        paths: vec!["p", "q"],
        contents: vec![BASE, LEFT, RIGHT],
        max_commits: usize::MAX,
        phased: false,
        max_depth: fam.k + 2,
        max_parents: 3,
    };
    // graph index = (parent choice per commit, edit per commit)
    let parent_choices: usize = (1..=fam.k).product();
    let e = fam.graph_edits.len();
    let graphs = parent_choices * e.pow(fam.k as u32);
    let triples = ordered_triples(fam.k);
    let executed = Counter::new();
    let skipped = Counter::new();
    (0..graphs).into_par_iter().for_each(|gi| {
        let mut rest = gi;
        let mut graph: Vec<Act> = vec![];
        for i in 0..fam.k {
            let choice = rest % (i + 1);
            rest /= i + 1;
            let parent = if choice == 0 { ROOT } else { choice - 1 };
            graph.push(Act::New { parents: vec![parent], edit: Edit::Noop });
        }
        for i in 0..fam.k {
            let edit = fam.graph_edits[rest % e].clone();
            rest /= e;
            if let Act::New { edit: slot, .. } = &mut graph[i] {
                *slot = edit;
            }
        }
        let run = |history: Vec<Act>| -> bool {
            match step(ctx, tally, &bounds, fam.sc, &history) {
                Some(_) => {
                    executed.inc();
                    true
                }
                None => {
                    skipped.inc();
                    false
                }
            }
        };
        // an edit that changes nothing makes the graph a duplicate of the one with Noop there
        let mut first = true;
        for (px, ex) in &fam.x_variants {
            for triple in &triples {
                let mut h = graph.clone();
                h.push(Act::New { parents: vec![*px], edit: ex.clone() });
                h.push(Act::Rebase { x: fam.k, parents: triple.clone() });
                let ok = run(h);
                if first && !ok {
                    return;
                }
                first = false;
            }
        }
        for ex in &fam.merge_edits {
            for triple in &triples {
                let mut h = graph.clone();
                h.push(Act::New { parents: triple.clone(), edit: ex.clone() });
                h.push(Act::Rebase { x: fam.k, parents: vec![ROOT] });
                run(h);
            }
        }
    });
    (graphs as u64, executed.get(), skipped.get())
}

fn act_label(a: &Act) -> String {
    match a {
        Act::New { parents, edit } => format!(
            "new/{}/{}",
            if parents.len() > 1 { "merge" } else if parents[0] == ROOT { "on-root" } else { "child" },
            match edit {
                Edit::Noop => "no-edit",
                Edit::Set { content: None, .. } => "remove",
                Edit::Set { .. } => "write",
            }
        ),
        Act::Rebase { parents, .. } => format!(
            "rebase/{}",
            if parents.len() > 1 { "onto-merge" } else if parents[0] == ROOT { "onto-root" } else { "onto-commit" }
        ),
    }
}

fn main() {
    let ctx = Ctx::from_args("C08", Level::ModelChecking);
    vcommon::silence_panics();
    let tally = Tally::default();
    if let Some((_sig, case)) = ctx.replay_case() {
        let sc = if case["same_change"] == "keep" { SameChange::Keep } else { SameChange::Accept };
        let history: Vec<Act> = case["history"].as_array().unwrap().iter().map(act_from_json).collect();
        let bounds = Bounds {
            paths: vec!["p", "q", "d/r"],
            contents: vec![BASE, LEFT, RIGHT],
            max_commits: usize::MAX,
            phased: false,
            max_depth: history.len(),
            max_parents: 3,
        };
        if step(&ctx, &tally, &bounds, sc, &history).is_none() && ctx.violation_count() == 0 {
            machinery_failure("the recorded history is not executable");
        }
        if ctx.violation_count() == 0 {
            println!("replay: the case passes");
        }
        ctx.finish(Coverage { evaluations: 1, ..Default::default() });
    }

    // Searches: (same-change setting, bounds). The unrestricted search interleaves `new` and
    // `rebase` freely; the phased search builds the graph first and goes deeper.
    let b = |paths: &[&'static str], contents: &[&'static str], max_commits, phased, max_depth| Bounds {
        paths: paths.to_vec(),
        contents: contents.to_vec(),
        max_commits,
        phased,
        max_depth,
        max_parents: 2,
    };
    let searches: Vec<(&str, SameChange, Bounds)> = if ctx.quick() {
        vec![
            ("free", SameChange::Accept, b(&["p", "q"], &[BASE, LEFT, RIGHT], 4, false, 4)),
            ("free-deeper", SameChange::Accept, b(&["p", "q"], &[BASE, LEFT], 3, false, 5)),
            ("free-keep", SameChange::Keep, b(&["p", "q"], &[BASE, LEFT, RIGHT], 4, false, 4)),
        ]
    } else {
        vec![
            ("free-nested-path", SameChange::Accept, b(&["p", "q", "d/r"], &[BASE, LEFT, RIGHT], 4, false, 4)),
            ("free", SameChange::Accept, b(&["p", "q"], &[BASE, LEFT, RIGHT], 4, false, 5)),
            ("phased", SameChange::Accept, b(&["p", "q"], &[BASE, LEFT, RIGHT], 3, true, 7)),
            ("phased-4-commits", SameChange::Accept, b(&["p"], &[BASE, LEFT], 4, true, 6)),
            ("free-keep", SameChange::Keep, b(&["p", "q"], &[BASE, LEFT], 4, false, 5)),
        ]
    };
    let mut states = 0;
    let mut transitions = 0;
    let mut exhaustive = true;
    let mut extra: BTreeMap<String, Value> = BTreeMap::new();
    let mut samples = vec![];
    for (name, sc, bounds) in &searches {
        let cfg = BfsConfig {
            max_depth: bounds.max_depth,
            max_states: 50_000_000,
            max_wall_s: ctx.pick(50.0, 330.0),
        };
        let started = ctx.elapsed_s();
        let stats = bfs::search(&cfg, |h: &[Act]| step(&ctx, &tally, bounds, *sc, h), act_label);
        eprintln!("search {name}: {} transitions in {:.1}s", stats.transitions, ctx.elapsed_s() - started);
        states += stats.states;
        transitions += stats.transitions;
        if stats.capped {
            exhaustive = false;
        }
        for (label, (n, fresh)) in &stats.per_action {
            if *fresh == 0 && *n > 0 && ctx.violation_count() == 0 {
                machinery_failure(&format!("vacuous: action class {label} never reached a new state in search {name}"));
            }
        }
        samples.extend(stats.sample_histories.iter().take(2).map(|h| json!({"search": name, "history": h})));
        extra.insert(
            format!("search_{name}"),
            json!({
                "same_change": sc_name(*sc),
                "paths": bounds.paths,
                "contents": bounds.contents,
                "max_commits": bounds.max_commits,
                "no_new_after_first_rebase": bounds.phased,
                "max_depth": bounds.max_depth,
                "max_depth_completed": stats.max_depth_completed,
                "capped": stats.capped,
                "states": stats.states,
                "transitions": stats.transitions,
                "not_enabled": stats.invalid,
                "per_depth_new_states": stats.per_depth_states,
                "per_action_class_transitions_and_new_states": stats.per_action,
            }),
        );
    }
    // Three-parent merges.
    let small = vec![Edit::Noop, set("p", Some(BASE)), set("p", Some(LEFT))];
    let families: Vec<OctopusFamily> = if ctx.quick() {
        vec![OctopusFamily {
            name: "octopus-4",
            sc: SameChange::Accept,
            k: 4,
            graph_edits: small.clone(),
            x_variants: vec![(ROOT, set("q", Some(BASE)))],
            merge_edits: vec![set("q", Some(BASE))],
        }]
    } else {
        vec![
            OctopusFamily {
                name: "octopus-4",
                sc: SameChange::Accept,
                k: 4,
                graph_edits: vec![
                    Edit::Noop,
                    set("p", Some(BASE)),
                    set("p", Some(LEFT)),
                    set("p", Some(RIGHT)),
                    set("p", None),
                    set("q", Some(LEFT)),
                ],
                x_variants: vec![
                    (ROOT, set("q", Some(BASE))),
                    (3, set("q", Some(BASE))),
                    (3, set("p", Some(RIGHT))),
                ],
                merge_edits: vec![set("q", Some(BASE))],
            },
            OctopusFamily {
                name: "octopus-4-keep",
                sc: SameChange::Keep,
                k: 4,
                graph_edits: small.clone(),
                x_variants: vec![(ROOT, set("q", Some(BASE)))],
                merge_edits: vec![set("q", Some(BASE))],
            },
            OctopusFamily {
                name: "octopus-5",
                sc: SameChange::Accept,
                k: 5,
                graph_edits: small.clone(),
                x_variants: vec![(ROOT, set("q", Some(BASE)))],
                merge_edits: vec![],
            },
        ]
    };
    for fam in &families {
        let started = ctx.elapsed_s();
        let (graphs, executed, skipped) = run_octopus_family(&ctx, &tally, fam);
        eprintln!("family {}: {executed} histories in {:.1}s", fam.name, ctx.elapsed_s() - started);
        transitions += executed;
        extra.insert(
            format!("family_{}", fam.name),
            json!({
                "same_change": sc_name(fam.sc),
                "single_parent_commits": fam.k,
                "graph_edits": fam.graph_edits.iter().map(|e| format!("{e:?}")).collect::<Vec<_>>(),
                "rebased_commit_variants": fam.x_variants.iter().map(|(p, e)| json!({"parent": label_json(*p), "edit": format!("{e:?}")})).collect::<Vec<_>>(),
                "three_parent_commit_edits": fam.merge_edits.iter().map(|e| format!("{e:?}")).collect::<Vec<_>>(),
                "graph_indices": graphs,
                "ordered_triples": ordered_triples(fam.k).len(),
                "histories_executed": executed,
                "histories_skipped_duplicate_of_no_edit": skipped,
            }),
        );
    }
    let t = &tally;
    let counters = json!({
        "rebase_transitions": t.rebase_transitions.get(),
        "rebased_commits_checked": t.commits_rebased.get(),
        "of_which_descendants": t.descendants_rebased.get(),
        "clause1_path_instances": t.c1_instances.get(),
        "clause1_where_parents_differ_at_path": t.c1_with_parent_change.get(),
        "clause2_path_instances": t.c2_instances.get(),
        "clause2_where_commit_changed_path": t.c2_with_commit_change.get(),
        "clause3_same_parent_rebases": t.c3_checked.get(),
        "clause4_roundtrips_disjoint": t.roundtrip_disjoint.get(),
        "clause4_restored_id_for_id": t.roundtrip_exact.get(),
        "clause4_same_conflict_same_arity_other_ids": t.roundtrip_conflict_sides_reordered.get(),
        "clause4_same_conflict_other_arity": t.roundtrip_conflict_other_arity.get(),
        "rebases_with_equal_parent_trees_but_different_merged_parents": t.same_parent_trees_different_merge.get(),
        "roundtrips_overlapping_not_demanded": t.roundtrip_overlapping.get(),
        "rebased_commit_conflicted_after": t.result_conflicted.get(),
        "rebased_commit_conflicted_before": t.commit_conflicted_before.get(),
        "new_parents_tree_conflicted": t.new_parents_conflicted.get(),
        "old_parents_tree_conflicted": t.old_parents_conflicted.get(),
        "onto_merge_parents": t.onto_merge.get(),
        "from_merge_parents": t.from_merge.get(),
        "onto_root": t.onto_root.get(),
        "paths_resolved_to_newly_merged_content": t.content_merged_paths.get(),
        "onto_three_parents": t.onto_octopus.get(),
        "from_three_parents": t.from_octopus.get(),
        "three_parent_sets_evaluated": t.octopus_parent_sets.get(),
        "of_which_asymmetric_ancestry": t.octopus_asymmetric.get(),
        "of_which_a_pairwise_merge_base_would_change_the_tree": t.octopus_asymmetric_changes_tree.get(),
        "merged_parents_reference_same_ids_as_merge_commit_trees": t.reference_same_ids_as_jj.get(),
        "merged_parents_reference_other_ids_than_merge_commit_trees": t.reference_other_ids_than_jj.get(),
    });
    if ctx.violation_count() == 0 {
        for (what, c) in [
            ("clause 1 with a real parent change", &t.c1_with_parent_change),
            ("clause 2 with a real commit change", &t.c2_with_commit_change),
            ("clause 3", &t.c3_checked),
            ("clause 4 round trips over disjoint paths", &t.roundtrip_disjoint),
            ("rebases that end conflicted", &t.result_conflicted),
            ("rebases of conflicted commits", &t.commit_conflicted_before),
            ("rebases onto conflicted parents", &t.new_parents_conflicted),
            ("rebases onto merge parents", &t.onto_merge),
            ("rebases onto the root", &t.onto_root),
            ("rebased descendants", &t.descendants_rebased),
            ("rebases onto three parents", &t.onto_octopus),
            ("rebases of three-parent merges", &t.from_octopus),
            ("three-parent sets on which a pairwise merge base would change the tree", &t.octopus_asymmetric_changes_tree),
        ] {
            if c.get() == 0 {
                machinery_failure(&format!("vacuous: no {what}"));
            }
        }
    }
    extra.insert("oracle_counters".into(), counters);
    ctx.finish(Coverage {
        evaluations: transitions,
        distinct_nontrivial: t.commits_rebased.get(),
        rule: "evaluations = executed transitions (each replays its history from an empty repository \
               through the real API); non-trivial = rebased commits (the explicitly rebased one and every \
               descendant rebased with it, plus the way back of every round trip) on which clauses 1-2 \
               were evaluated at every path"
            .into(),
        samples,
        exhaustive,
        states: Some(states),
        transitions: Some(transitions),
        traces_validated_against_impl: Some(transitions),
        extra,
        assumptions: vec![
            "the merged parents' tree is the check's own recursive merge over its own parent table, fed to MergedTree::merge (decided by C07)".into(),
            "state key = per label: parent labels and tree ids (content hashes); commit ids are not in the key".into(),
            "in-memory commit backend written in the check (strict per-path object store), default index".into(),
            "searches: parents of merges are listed in creation order, at most two parents; three-parent family: every ordered triple; the root is never a merge parent".into(),
        ],
        ..Default::default()
    });
}

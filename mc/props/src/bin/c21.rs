//! C21 — Stacked tables keep every saved entry under concurrent writers.
//!
//! Part A: explicit-state BFS over every sequence of {load, put, save, reopen} actions of
//! 2–3 `TableStore` instances sharing one directory (writers may save from stale heads and
//! so create divergent heads), from three initial table sizes (so that both the squash and
//! the no-squash branch of `maybe_squash_with_ancestors` are taken).
//! Part B: every interleaving (preemption-bounded) of locked writers / unlocked writers /
//! readers at the table store's read-heads / add-head / remove-head steps and lock
//! acquisitions, with working and ineffective locks, plus single crashes.

use std::collections::BTreeMap;
use std::collections::BTreeSet;
use std::path::Path;
use std::path::PathBuf;
use std::sync::Arc;
use std::sync::Mutex;
use std::sync::atomic::AtomicU64;
use std::sync::atomic::Ordering;

use jj_lib::stacked_table::ReadonlyTable;
use jj_lib::stacked_table::TableSegment as _;
use jj_lib::stacked_table::TableStore;
use serde_json::Value;
use serde_json::json;
use vcommon::Coverage;
use vcommon::Ctx;
use vcommon::Level;
use vcommon::bfs;
use vcommon::sched;
use vcommon::sched::ThreadEnd;

struct Adapter;
impl jj_lib::verif_hooks::Handler for Adapter {
    fn point(&self, kind: &str, detail: &str) {
        sched::point(kind, detail);
    }
    fn lock_path(&self, path: PathBuf) -> PathBuf {
        sched::lock_path(path)
    }
    fn lock_acquire(&self, path: &Path) {
        sched::lock_acquire(path);
    }
    fn lock_released(&self, path: &Path) {
        sched::lock_released(path);
    }
}

static DIR_COUNTER: AtomicU64 = AtomicU64::new(0);

fn fresh_dir(root: &Path) -> PathBuf {
    let n = DIR_COUNTER.fetch_add(1, Ordering::Relaxed);
    let d = root.join(format!("t{n}"));
    std::fs::create_dir_all(&d).unwrap();
    d
}

fn copy_dir(src: &Path, dst: &Path) {
    std::fs::create_dir_all(dst).unwrap();
    for e in std::fs::read_dir(src).unwrap() {
        let e = e.unwrap();
        let d = dst.join(e.file_name());
        if e.file_type().unwrap().is_dir() {
            copy_dir(&e.path(), &d);
        } else {
            std::fs::copy(e.path(), &d).unwrap();
        }
    }
}

fn listing(dir: &Path) -> (Vec<String>, Vec<String>) {
    let mut heads: Vec<String> = std::fs::read_dir(dir.join("heads"))
        .unwrap()
        .map(|e| e.unwrap().file_name().to_string_lossy().to_string())
        .collect();
    heads.sort();
    let mut segs: Vec<String> = std::fs::read_dir(dir)
        .unwrap()
        .map(|e| e.unwrap().file_name().to_string_lossy().to_string())
        .filter(|n| n.len() == 128)
        .collect();
    segs.sort();
    (heads, segs)
}

const PREFILL_KEY0: u8 = 100;
const PREFILL_VALUE: u8 = 250;

/// Creates the table directory with `prefill` entries saved in one segment.
fn init_dir(dir: &Path, prefill: usize) {
    std::fs::create_dir_all(dir).unwrap();
    let store = TableStore::init(dir.to_path_buf(), 1);
    let head = store.get_head().unwrap();
    if prefill > 0 {
        let mut mt = head.start_mutation();
        for i in 0..prefill {
            mt.add_entry(vec![PREFILL_KEY0 + i as u8], vec![PREFILL_VALUE]);
        }
        store.save_table(mt).unwrap();
    }
}

// ---------------------------------------------------------------------------------------
// Part A: API-level histories
// ---------------------------------------------------------------------------------------

#[derive(Clone, Debug, PartialEq, Eq, serde::Serialize, serde::Deserialize)]
enum Act {
    Load(usize),
    Put(usize, u8),
    Save(usize),
    Reopen(usize),
}

struct Writer {
    store: TableStore,
    base: Option<Arc<ReadonlyTable>>,
    pending: BTreeMap<u8, u8>,
    saves: u8,
    /// the store instance was re-created (empty segment cache) since its last load/save
    fresh: bool,
}

#[derive(Clone, Debug)]
struct SaveRec {
    /// (key, value written, value of the key in the base the writer started from)
    entries: Vec<(u8, u8, Option<u8>)>,
    /// the saved table does not have the head it started from in its ancestor chain
    /// (the base segment was squashed into the new table)
    base_squashed_away: bool,
}

fn lookup(t: &Arc<ReadonlyTable>, k: u8) -> Option<u8> {
    t.get_value(&[k]).map(|v| v[0])
}

struct HistoryOutcome {
    key: String,
    actions: Vec<Act>,
    squashed: bool,
    merged_heads: bool,
}

/// Checks a loaded head against the ghost log. `universe` = all keys that may exist.
fn check_head(
    head: &Arc<ReadonlyTable>,
    prefill: usize,
    saves: &[SaveRec],
    keys: &[u8],
    part: &str,
) -> Result<(), (String, String)> {
    check_head_with(head, prefill, saves, &[], keys, part)
}

/// `in_flight`: (key, value) pairs of saves that have started but not returned yet; their
/// values may already be visible, but nothing is required of them.
fn check_head_with(
    head: &Arc<ReadonlyTable>,
    prefill: usize,
    saves: &[SaveRec],
    in_flight: &[(u8, u8)],
    keys: &[u8],
    part: &str,
) -> Result<(), (String, String)> {
    for i in 0..prefill {
        let k = PREFILL_KEY0 + i as u8;
        if lookup(head, k) != Some(PREFILL_VALUE) {
            return Err((
                format!("C21/{part}/prefilled-entry-lost"),
                format!("key {k} of the initial segment reads {:?}", lookup(head, k)),
            ));
        }
    }
    for &k in keys {
        let written: Vec<(u8, Option<u8>)> = saves
            .iter()
            .flat_map(|s| s.entries.iter().filter(|e| e.0 == k).map(|e| (e.1, e.2)))
            .collect();
        if written.is_empty() {
            continue;
        }
        let got = lookup(head, k);
        let Some(r) = got else {
            return Err((
                format!("C21/{part}/saved-entry-missing"),
                format!("key {k} was saved (values {:?}) but the loaded head has no entry", written),
            ));
        };
        if !written.iter().any(|w| w.0 == r) && !in_flight.iter().any(|e| e.0 == k && e.1 == r) {
            return Err((
                format!("C21/{part}/value-never-saved"),
                format!("key {k} reads {r}, which no completed save wrote ({written:?})"),
            ));
        }
        // supersession: v' > v if a save wrote v' for k starting from a base where k was v
        // (transitively). The result must not be superseded.
        let mut superseded: BTreeSet<u8> = BTreeSet::new();
        loop {
            let before = superseded.len();
            for (v, base) in &written {
                if let Some(b) = base
                    && *b != *v
                {
                    superseded.insert(*b);
                }
            }
            if superseded.len() == before {
                break;
            }
        }
        if superseded.contains(&r) {
            // Narrow class (known finding): every save that overwrote `r` squashed its base
            // segment into the new table, so the new head no longer has the base head in its
            // ancestor chain; a reader that sees both heads (between add_head and remove_head
            // of that save, or after a crash there) merges the old head as if it were divergent.
            let overwriters: Vec<&SaveRec> = saves
                .iter()
                .filter(|s| s.entries.iter().any(|e| e.0 == k && e.2 == Some(r) && e.1 != r))
                .collect();
            let suffix = if !overwriters.is_empty() && overwriters.iter().all(|s| s.base_squashed_away) {
                "/overwriting-save-squashed-its-base-head"
            } else {
                ""
            };
            return Err((
                format!("C21/{part}/sequentially-older-value-wins{suffix}"),
                format!(
                    "key {k} reads {r}, but a completed save that started from a head containing {r} \
                     overwrote it (saves of this key as (value, value in base): {written:?})"
                ),
            ));
        }
    }
    Ok(())
}

fn run_history(
    root: &Path,
    prefill: usize,
    n_writers: usize,
    keys: &[u8],
    history: &[Act],
) -> Result<HistoryOutcome, (String, String)> {
    let dir = fresh_dir(root);
    init_dir(&dir, prefill);
    let mut writers: Vec<Writer> = (0..n_writers)
        .map(|_| Writer {
            store: TableStore::load(dir.clone(), 1),
            base: None,
            pending: BTreeMap::new(),
            saves: 0,
            fresh: true,
        })
        .collect();
    let mut saves: Vec<SaveRec> = vec![];
    let mut squashed = false;
    let mut merged_heads = false;
    let result = (|| {
        for act in history {
            match act {
                Act::Load(w) => {
                    let (heads_before, _) = listing(&dir);
                    let head = vcommon::catch(|| writers[*w].store.get_head())
                        .map_err(|e| ("C21/api/get_head-panic".to_string(), e))?
                        .map_err(|e| ("C21/api/get_head-error".to_string(), format!("{e}")))?;
                    if heads_before.len() > 1 {
                        merged_heads = true;
                    }
                    check_head(&head, prefill, &saves, keys, "api/load")?;
                    writers[*w].base = Some(head);
                    writers[*w].pending.clear();
                    writers[*w].fresh = false;
                }
                Act::Put(w, k) => {
                    let v = (*w as u8 + 1) * 16 + writers[*w].saves + 1;
                    writers[*w].pending.insert(*k, v);
                }
                Act::Save(w) => {
                    let wr = &mut writers[*w];
                    let base = wr.base.clone().unwrap();
                    let mut mt = base.start_mutation();
                    let mut rec = SaveRec { entries: vec![], base_squashed_away: false };
                    for (k, v) in &wr.pending {
                        mt.add_entry(vec![*k], vec![*v]);
                        rec.entries.push((*k, *v, lookup(&base, *k)));
                    }
                    let universe: Vec<u8> = keys
                        .iter()
                        .copied()
                        .chain((0..prefill).map(|i| PREFILL_KEY0 + i as u8))
                        .collect();
                    let before: Vec<Option<u8>> =
                        universe.iter().map(|k| mt.get_value(&[*k]).map(|v| v[0])).collect();
                    let segs_before = base.ancestor_segments().count();
                    let table = vcommon::catch(|| wr.store.save_table(mt))
                        .map_err(|e| ("C21/api/save_table-panic".to_string(), e))?
                        .map_err(|e| ("C21/api/save_table-error".to_string(), format!("{e}")))?;
                    if table.ancestor_segments().count() <= segs_before {
                        squashed = true;
                    }
                    let after: Vec<Option<u8>> = universe.iter().map(|k| lookup(&table, *k)).collect();
                    if before != after {
                        return Err((
                            "C21/api/save-changes-lookups".to_string(),
                            format!("lookups of {universe:?} before save {before:?} after save (squash/reload) {after:?}"),
                        ));
                    }
                    rec.base_squashed_away = !table.ancestor_segments().any(|s| s.name() == base.name());
                    saves.push(rec);
                    wr.base = Some(table);
                    wr.pending.clear();
                    wr.saves += 1;
                    wr.fresh = false;
                }
                Act::Reopen(w) => {
                    writers[*w].store = TableStore::load(dir.clone(), 1);
                    writers[*w].fresh = true;
                }
            }
        }
        // Observer: a fresh store on a copy of the directory (loading may reconcile heads,
        // which must not disturb the state being explored).
        let copy = fresh_dir(root);
        copy_dir(&dir, &copy);
        let obs = TableStore::load(copy.clone(), 1);
        let head = vcommon::catch(|| obs.get_head())
            .map_err(|e| ("C21/api/get_head-panic".to_string(), e))?
            .map_err(|e| ("C21/api/get_head-error".to_string(), format!("{e}")))?;
        let r = check_head(&head, prefill, &saves, keys, "api/observer");
        // reloading the reconciled head from disk gives the same lookups
        let obs2 = TableStore::load(copy.clone(), 1);
        let head2 = obs2.get_head().map_err(|e| ("C21/api/get_head-error".to_string(), format!("{e}")))?;
        let universe: Vec<u8> = keys
            .iter()
            .copied()
            .chain((0..prefill).map(|i| PREFILL_KEY0 + i as u8))
            .collect();
        for k in &universe {
            if lookup(&head, *k) != lookup(&head2, *k) {
                let _ = std::fs::remove_dir_all(&copy);
                return Err((
                    "C21/api/reload-changes-lookups".to_string(),
                    format!("key {k}: {:?} in memory vs {:?} after reloading from disk", lookup(&head, *k), lookup(&head2, *k)),
                ));
            }
        }
        let (h2, _) = listing(&copy);
        let _ = std::fs::remove_dir_all(&copy);
        if h2.len() != 1 {
            return Err((
                "C21/api/heads-not-reconciled".to_string(),
                format!("{} heads after get_head on a quiescent store", h2.len()),
            ));
        }
        r
    })();
    let out = result.map(|()| {
        let (heads, segs) = listing(&dir);
        let mut key = format!("H{heads:?}S{segs:?}");
        for w in &writers {
            key.push_str(&format!(
                "|{}:{:?}:{}:{}",
                w.base.as_ref().map(|b| b.name().to_string()).unwrap_or_default(),
                w.pending,
                w.saves,
                w.fresh
            ));
        }
        let mut actions = vec![];
        for w in 0..n_writers {
            actions.push(Act::Load(w));
            if writers[w].base.is_some() {
                for &k in keys {
                    actions.push(Act::Put(w, k));
                }
                if !writers[w].pending.is_empty() {
                    actions.push(Act::Save(w));
                }
                if !writers[w].fresh {
                    actions.push(Act::Reopen(w));
                }
            }
        }
        HistoryOutcome { key, actions, squashed, merged_heads }
    });
    let _ = std::fs::remove_dir_all(&dir);
    out
}

// ---------------------------------------------------------------------------------------
// Part B: interleavings
// ---------------------------------------------------------------------------------------

#[derive(Clone, Copy, Debug, PartialEq, Eq, serde::Serialize, serde::Deserialize)]
enum Script {
    /// get_head_locked, add entries, save_table, release (what the git backend does)
    LockedWriter,
    /// get_head, add entries, save_table (no lock held across)
    UnlockedWriter,
    /// get_head only
    Reader,
}

#[derive(Clone, Debug, serde::Serialize, serde::Deserialize)]
struct SchedConfig {
    scripts: Vec<Script>,
    divergent_start: bool,
    ineffective_locks: bool,
    max_crashes: usize,
}

const SHARED_KEY: u8 = 9;

fn run_proc(
    script: Script,
    i: usize,
    dir: &Path,
    done: &Mutex<Vec<SaveRec>>,
    attempted: &Mutex<Vec<(u8, u8)>>,
) -> Result<(), String> {
    let store = TableStore::load(dir.to_path_buf(), 1);
    match script {
        Script::Reader => {
            let head = store.get_head().map_err(|e| format!("get_head: {e}"))?;
            for k in 0..3u8 {
                if lookup(&head, PREFILL_KEY0 + k) != Some(PREFILL_VALUE) {
                    return Err(format!("LOST prefilled key {} reads {:?}", PREFILL_KEY0 + k, lookup(&head, PREFILL_KEY0 + k)));
                }
            }
            Ok(())
        }
        Script::LockedWriter | Script::UnlockedWriter => {
            let (head, lock) = if script == Script::LockedWriter {
                let (h, l) = store.get_head_locked().map_err(|e| format!("get_head_locked: {e}"))?;
                (h, Some(l))
            } else {
                (store.get_head().map_err(|e| format!("get_head: {e}"))?, None)
            };
            let mut mt = head.start_mutation();
            let own = 1 + i as u8;
            let v = 16 * (i as u8 + 1);
            mt.add_entry(vec![own], vec![v]);
            mt.add_entry(vec![SHARED_KEY], vec![v + 1]);
            let mut rec = SaveRec {
                entries: vec![(own, v, lookup(&head, own)), (SHARED_KEY, v + 1, lookup(&head, SHARED_KEY))],
                base_squashed_away: false,
            };
            attempted.lock().unwrap().extend([(own, v), (SHARED_KEY, v + 1)]);
            let table = store.save_table(mt).map_err(|e| format!("save_table: {e}"))?;
            rec.base_squashed_away = !table.ancestor_segments().any(|s| s.name() == head.name());
            done.lock().unwrap().push(rec);
            drop(lock);
            Ok(())
        }
    }
}

struct SchedRun {
    execution: sched::Execution,
    violations: Vec<(String, String)>,
    saw_divergent: bool,
}

fn run_schedule(root: &Path, template: &Path, cfg: &SchedConfig, prefix: &[usize]) -> SchedRun {
    let dir = fresh_dir(root);
    copy_dir(template, &dir);
    let done: Arc<Mutex<Vec<SaveRec>>> = Arc::new(Mutex::new(vec![]));
    let attempted: Arc<Mutex<Vec<(u8, u8)>>> = Arc::new(Mutex::new(vec![]));
    let outcomes: Arc<Mutex<Vec<Option<Result<(), String>>>>> = Arc::new(Mutex::new(vec![None; cfg.scripts.len()]));
    let bodies: Vec<Box<dyn FnOnce() + Send>> = cfg
        .scripts
        .iter()
        .enumerate()
        .map(|(i, &s)| {
            let dir = dir.clone();
            let done = done.clone();
            let attempted = attempted.clone();
            let outcomes = outcomes.clone();
            Box::new(move || {
                let r = run_proc(s, i, &dir, &done, &attempted);
                outcomes.lock().unwrap()[i] = Some(r);
            }) as Box<dyn FnOnce() + Send>
        })
        .collect();
    let mode = if cfg.ineffective_locks { "nolock" } else { "lock" };
    let keys: Vec<u8> = vec![1, 2, 3, SHARED_KEY];
    let mut violations: Vec<(String, String)> = vec![];
    let mut saw_divergent = false;
    let mut monitor = |_view: &sched::PointView| {
        let (heads, _) = listing(&dir);
        if heads.len() > 1 {
            saw_divergent = true;
        }
        // A reader arriving now (all processes are parked at steps): load a copy.
        let copy = fresh_dir(root);
        copy_dir(&dir, &copy);
        let obs = TableStore::load(copy.clone(), 1);
        match vcommon::catch(|| obs.get_head()) {
            Err(p) => violations.push((format!("C21/sched/{mode}/observer-panic"), p)),
            Ok(Err(e)) => violations.push((format!("C21/sched/{mode}/observer-error"), format!("{e}"))),
            Ok(Ok(head)) => {
                let saves = done.lock().unwrap().clone();
                let inflight = attempted.lock().unwrap().clone();
                if let Err((sig, msg)) =
                    check_head_with(&head, 3, &saves, &inflight, &keys, &format!("sched/{mode}/at-point"))
                {
                    violations.push((sig, msg));
                }
            }
        }
        let _ = std::fs::remove_dir_all(&copy);
    };
    let opts = sched::RunOpts { ineffective_locks: cfg.ineffective_locks, max_crashes: cfg.max_crashes };
    let execution = sched::run_execution(bodies, prefix, &opts, &mut monitor);
    if execution.deadlock {
        violations.push((format!("C21/sched/{mode}/deadlock"), "no enabled process".into()));
    }
    let outcomes = outcomes.lock().unwrap().clone();
    for (i, end) in execution.ends.iter().enumerate() {
        match end {
            ThreadEnd::Panicked(m) => violations.push((format!("C21/sched/{mode}/panic"), format!("process {i}: {m}"))),
            ThreadEnd::Done => {
                if let Some(Err(e)) = &outcomes[i]
                    && e.starts_with("LOST")
                {
                    violations.push((format!("C21/sched/{mode}/reader-lost-entry"), format!("process {i}: {e}")));
                }
            }
            ThreadEnd::Crashed => {}
        }
    }
    // quiescent: load the real directory, twice (the first load may reconcile heads; what it
    // leaves on disk is what the next process sees)
    for round in ["final", "final-second-load"] {
        let obs = TableStore::load(dir.clone(), 1);
        match vcommon::catch(|| obs.get_head()) {
            Err(p) => violations.push((format!("C21/sched/{mode}/{round}-panic"), p)),
            Ok(Err(e)) => violations.push((format!("C21/sched/{mode}/{round}-error"), format!("{e}"))),
            Ok(Ok(head)) => {
                let saves = done.lock().unwrap().clone();
                let inflight = attempted.lock().unwrap().clone();
                if let Err((sig, msg)) =
                    check_head_with(&head, 3, &saves, &inflight, &keys, &format!("sched/{mode}/{round}"))
                {
                    violations.push((sig, msg));
                }
                let (heads, _) = listing(&dir);
                if heads.len() != 1 {
                    violations.push((
                        format!("C21/sched/{mode}/{round}-heads"),
                        format!("{} heads after a quiescent load", heads.len()),
                    ));
                }
            }
        }
    }
    let _ = std::fs::remove_dir_all(&dir);
    SchedRun { execution, violations, saw_divergent }
}

fn make_sched_template(dir: &Path, divergent: bool) {
    init_dir(dir, 3);
    if divergent {
        // two stores save from the same base without seeing each other
        let a = TableStore::load(dir.to_path_buf(), 1);
        let b = TableStore::load(dir.to_path_buf(), 1);
        let ha = a.get_head().unwrap();
        let hb = b.get_head().unwrap();
        let mut ma = ha.start_mutation();
        ma.add_entry(vec![PREFILL_KEY0 + 10], vec![PREFILL_VALUE]);
        let mut mb = hb.start_mutation();
        mb.add_entry(vec![PREFILL_KEY0 + 11], vec![PREFILL_VALUE]);
        a.save_table(ma).unwrap();
        b.save_table(mb).unwrap();
        let (heads, _) = listing(dir);
        if heads.len() != 2 {
            vcommon::machinery_failure("divergent template does not have two heads");
        }
    }
}

fn sched_case(cfg: &SchedConfig, choices: &[usize], x: &sched::Execution) -> Value {
    json!({
        "part": "sched", "config": cfg, "choices": choices,
        "trace": x.trace.iter().map(|e| format!("p{} {} {}", e.thread, e.kind, if e.detail.len() > 12 { &e.detail[..12] } else { &e.detail })).collect::<Vec<_>>(),
    })
}

fn main() {
    let ctx = Ctx::from_args("C21", Level::ModelChecking);
    vcommon::silence_panics();
    jj_lib::verif_hooks::set_handler(Some(Arc::new(Adapter)));
    let root = ctx.scratch().to_path_buf();
    let tmpl_single = root.join("tmpl_single");
    let tmpl_div = root.join("tmpl_div");
    make_sched_template(&tmpl_single, false);
    make_sched_template(&tmpl_div, true);

    if let Some((_sig, case)) = ctx.replay_case() {
        if case["part"] == "sched" {
            let cfg: SchedConfig = serde_json::from_value(case["config"].clone()).unwrap();
            let choices: Vec<usize> = serde_json::from_value(case["choices"].clone()).unwrap();
            let t = if cfg.divergent_start { &tmpl_div } else { &tmpl_single };
            let r = run_schedule(&root, t, &cfg, &choices);
            for (sig, msg) in &r.violations {
                ctx.violation(sig, msg.clone(), sched_case(&cfg, &choices, &r.execution));
            }
        } else {
            let prefill = case["prefill"].as_u64().unwrap() as usize;
            let n_writers = case["writers"].as_u64().unwrap() as usize;
            let keys: Vec<u8> = serde_json::from_value(case["keys"].clone()).unwrap();
            let history: Vec<Act> = serde_json::from_value(case["history"].clone()).unwrap();
            if let Err((sig, msg)) = run_history(&root, prefill, n_writers, &keys, &history) {
                ctx.violation(&sig, msg, case);
            }
        }
        ctx.finish(Coverage { evaluations: 1, ..Default::default() });
    }

    // ---- Part A
    let n_writers = ctx.pick(2, 3);
    let depth = ctx.pick(7, 8);
    let keys: Vec<u8> = vec![1, 2];
    let mut states = 0u64;
    let mut transitions = 0u64;
    let mut api_stats = vec![];
    let mut capped = false;
    let squashes = vcommon::Counter::new();
    let merges = vcommon::Counter::new();
    let mut samples: Vec<Value> = vec![];
    for prefill in [0usize, 3, 8] {
        let cfg = bfs::BfsConfig {
            max_depth: depth,
            max_states: ctx.pick(400_000, 5_000_000),
            max_wall_s: ctx.pick(12.0, 300.0),
        };
        let stats = bfs::search(
            &cfg,
            |h: &[Act]| match run_history(&root, prefill, n_writers, &keys, h) {
                Ok(o) => {
                    if o.squashed {
                        squashes.inc();
                    }
                    if o.merged_heads {
                        merges.inc();
                    }
                    Some(bfs::StepResult { key: o.key, actions: o.actions })
                }
                Err((sig, msg)) => {
                    ctx.violation(
                        &sig,
                        msg,
                        json!({"part": "api", "prefill": prefill, "writers": n_writers, "keys": keys, "history": h}),
                    );
                    None
                }
            },
            |a| match a {
                Act::Load(_) => "load".to_string(),
                Act::Put(..) => "put".to_string(),
                Act::Save(_) => "save".to_string(),
                Act::Reopen(_) => "reopen".to_string(),
            },
        );
        for (label, (n, newstates)) in &stats.per_action {
            if *n > 0 && *newstates == 0 {
                vcommon::machinery_failure(&format!("vacuous alphabet: action {label} never reached a new state"));
            }
        }
        states += stats.states;
        transitions += stats.transitions;
        capped |= stats.capped;
        if samples.len() < 3
            && let Some(s) = stats.sample_histories.last()
        {
            samples.push(json!({"part": "api", "prefill": prefill, "history": s}));
        }
        api_stats.push(json!({
            "prefill": prefill, "writers": n_writers, "depth_completed": stats.max_depth_completed,
            "states": stats.states, "transitions": stats.transitions, "capped": stats.capped,
            "per_action": stats.per_action, "per_depth_states": stats.per_depth_states,
        }));
    }
    // ---- Part A2: save programs. Two writers start from the same (stale) head; writer 0
    // makes one or two saves, writer 1 one or two saves, every save writes every non-empty
    // subset of three keys, in every interleaving of the saves. This reaches divergent heads
    // with several unsquashed segments above the common ancestor (a later save overwriting
    // a key of an earlier one), which the BFS alphabet (two keys) only reaches at depth > 9.
    let program_histories = vcommon::Counter::new();
    {
        let keys3: Vec<u8> = vec![1, 2, 3];
        let subsets: Vec<Vec<u8>> =
            (1u8..8).map(|m| (0..3).filter(|b| m >> b & 1 == 1).map(|b| b + 1).collect()).collect();
        let mut programs: Vec<Vec<Vec<u8>>> = vec![];
        for a in &subsets {
            programs.push(vec![a.clone()]);
        }
        if ctx.thorough() {
            for a in &subsets {
                for b in &subsets {
                    programs.push(vec![a.clone(), b.clone()]);
                }
            }
        } else {
            // quick: second saves of one key (every first save)
            for a in &subsets {
                for k in 1u8..=3 {
                    programs.push(vec![a.clone(), vec![k]]);
                }
            }
        }
        // interleavings of (n0 saves of writer 0, n1 saves of writer 1) as bit strings
        fn interleavings(n0: usize, n1: usize) -> Vec<Vec<usize>> {
            let mut out = vec![];
            fn rec(cur: &mut Vec<usize>, a: usize, b: usize, out: &mut Vec<Vec<usize>>) {
                if a == 0 && b == 0 {
                    out.push(cur.clone());
                    return;
                }
                if a > 0 {
                    cur.push(0);
                    rec(cur, a - 1, b, out);
                    cur.pop();
                }
                if b > 0 {
                    cur.push(1);
                    rec(cur, a, b - 1, out);
                    cur.pop();
                }
            }
            rec(&mut vec![], n0, n1, &mut out);
            out
        }
        let mut cases: Vec<(usize, Vec<Act>)> = vec![];
        for prefill in [0usize, 3, 8] {
            for p0 in &programs {
                for p1 in &programs {
                    if ctx.quick() && p0.len() + p1.len() > 3 {
                        continue;
                    }
                    for order in interleavings(p0.len(), p1.len()) {
                        let mut h = vec![Act::Load(0), Act::Load(1)];
                        let mut idx = [0usize, 0usize];
                        for w in order {
                            let prog = if w == 0 { p0 } else { p1 };
                            for k in &prog[idx[w]] {
                                h.push(Act::Put(w, *k));
                            }
                            h.push(Act::Save(w));
                            idx[w] += 1;
                        }
                        cases.push((prefill, h));
                    }
                }
            }
        }
        use rayon::prelude::*;
        cases.par_iter().for_each(|(prefill, h)| {
            program_histories.inc();
            match run_history(&root, *prefill, 2, &keys3, h) {
                Ok(o) => {
                    if o.squashed {
                        squashes.inc();
                    }
                    if o.merged_heads {
                        merges.inc();
                    }
                }
                Err((sig, msg)) => ctx.violation(
                    &sig,
                    msg,
                    json!({"part": "api", "prefill": prefill, "writers": 2, "keys": keys3, "history": h}),
                ),
            }
        });
        transitions += program_histories.get();
        api_stats.push(json!({"family": "save-programs", "histories": program_histories.get()}));
    }
    if squashes.get() == 0 || merges.get() == 0 {
        vcommon::machinery_failure("vacuous: no history squashed segments / merged divergent heads");
    }

    // ---- Part B
    use Script::*;
    let mut sched_cfgs: Vec<(SchedConfig, usize)> = vec![];
    let pairs: Vec<Vec<Script>> = vec![
        vec![LockedWriter, LockedWriter],
        vec![LockedWriter, Reader],
        vec![UnlockedWriter, UnlockedWriter],
        vec![UnlockedWriter, LockedWriter],
        vec![Reader, Reader],
    ];
    let triples: Vec<Vec<Script>> = vec![
        vec![LockedWriter, LockedWriter, Reader],
        vec![UnlockedWriter, LockedWriter, Reader],
        vec![LockedWriter, LockedWriter, LockedWriter],
    ];
    for ineffective in [false, true] {
        for divergent in [false, true] {
            for p in &pairs {
                if p == &vec![Reader, Reader] && !divergent {
                    continue;
                }
                sched_cfgs.push((SchedConfig { scripts: p.clone(), divergent_start: divergent, ineffective_locks: ineffective, max_crashes: 0 }, ctx.pick(2, 5)));
                sched_cfgs.push((SchedConfig { scripts: p.clone(), divergent_start: divergent, ineffective_locks: ineffective, max_crashes: 1 }, ctx.pick(1, 2)));
            }
            if ctx.thorough() {
                for t in &triples {
                    sched_cfgs.push((SchedConfig { scripts: t.clone(), divergent_start: divergent, ineffective_locks: ineffective, max_crashes: 0 }, 2));
                    sched_cfgs.push((SchedConfig { scripts: t.clone(), divergent_start: divergent, ineffective_locks: ineffective, max_crashes: 1 }, 1));
                }
            }
        }
    }
    let mut schedules = 0u64;
    let mut decisions = 0u64;
    let mut distinct_traces = 0u64;
    let mut with_crash = 0u64;
    let mut divergent_execs = 0u64;
    let mut sched_stats = vec![];
    let wall_cap = ctx.pick(50.0, 1500.0);
    for (cfg, bound) in &sched_cfgs {
        let ecfg = sched::ExploreConfig {
            preemption_bound: *bound,
            max_crashes: cfg.max_crashes,
            max_executions: ctx.pick(100_000, 3_000_000),
            max_wall_s: (wall_cap - ctx.elapsed_s()).max(1.0),
        };
        let t = if cfg.divergent_start { &tmpl_div } else { &tmpl_single };
        let div = vcommon::Counter::new();
        let sample: Mutex<Option<Value>> = Mutex::new(None);
        let stats = sched::explore(&ecfg, |prefix| {
            let r = run_schedule(&root, t, cfg, prefix);
            if r.saw_divergent {
                div.inc();
            }
            if r.execution.preemptions >= 1 {
                let mut s = sample.lock().unwrap();
                if s.is_none() {
                    *s = Some(sched_case(cfg, &r.execution.choices(), &r.execution));
                }
            }
            for (sig, msg) in &r.violations {
                ctx.violation(sig, msg.clone(), sched_case(cfg, &r.execution.choices(), &r.execution));
            }
            r.execution
        });
        if samples.len() < 6
            && let Some(s) = sample.lock().unwrap().take()
        {
            samples.push(s);
        }
        schedules += stats.executions;
        decisions += stats.decisions;
        distinct_traces += stats.distinct_traces;
        with_crash += stats.with_crash;
        divergent_execs += div.get();
        capped |= stats.capped;
        sched_stats.push(json!({
            "scripts": cfg.scripts, "divergent_start": cfg.divergent_start, "ineffective_locks": cfg.ineffective_locks,
            "max_crashes": cfg.max_crashes, "preemption_bound": bound, "executions": stats.executions,
            "distinct_traces": stats.distinct_traces, "executions_with_divergent_heads": div.get(), "capped": stats.capped,
        }));
    }
    if divergent_execs == 0 {
        vcommon::machinery_failure("vacuous: no schedule ever had divergent table heads");
    }

    let cov = Coverage {
        evaluations: transitions + schedules,
        distinct_nontrivial: states + distinct_traces,
        rule: format!(
            "part A: breadth-first search over every sequence of load/put/save/reopen actions of {n_writers} \
             TableStore instances on one directory up to depth {depth}, from initial tables of 0/3/8 entries, \
             states deduplicated on (head files, segment files, per-writer base/pending/save count); part B: \
             every interleaving within the preemption bound (see sched_configurations) of writer/reader scripts at \
             the read-heads/add-head/remove-head steps and lock acquisitions, with one optional crash; \
             distinct non-trivial = distinct canonical states (A) + distinct event traces (B)"
        ),
        samples,
        exhaustive: !capped,
        states: Some(states + decisions),
        transitions: Some(transitions + decisions),
        traces_validated_against_impl: Some(transitions + schedules),
        extra: [
            ("api_search".to_string(), json!(api_stats)),
            ("api_histories_that_squashed".to_string(), json!(squashes.get())),
            ("api_histories_that_merged_divergent_heads".to_string(), json!(merges.get())),
            ("sched_configurations".to_string(), json!(sched_stats)),
            ("schedules".to_string(), json!(schedules)),
            ("schedules_with_crash".to_string(), json!(with_crash)),
            ("schedules_with_divergent_heads".to_string(), json!(divergent_execs)),
            ("capped".to_string(), json!(capped)),
        ]
        .into_iter()
        .collect(),
        assumptions: vec![
            "atomic directory listing / create / unlink / rename; segment files are content-addressed (temp file + rename) and not scheduling points".into(),
            "when two divergent heads both contain a key, either value may win (the statement only orders sequential saves)".into(),
        ],
    };
    ctx.finish(cov);
}

//! C23 — snapshots record exactly what is on disk.
//!
//! Explicit-state search (vcommon::bfs) over every sequence of file-system edits and
//! `snapshot` calls up to a depth, on a real `LocalWorkingCopy` (TestWorkspace, Simple backend,
//! tmpfs). Every history is replayed from a fresh workspace. After every `snapshot` (and, at
//! the last level, after a closing probe snapshot behind every edit) the tree jj returns is
//! compared with a reference computed from a plain directory walk:
//!
//!   expected = { p -> (bytes, exec bit) | (link target) :
//!                p is a regular file or symlink on disk  and
//!                (p was in the previous snapshot  or  p is not ignored) }
//!
//! where "ignored" comes from a small matcher for the literal ignore files of the alphabet
//! (checked against `git check-ignore` at start-up), consulted top-down so that nothing below
//! an ignored directory can be re-included and ignore files inside ignored directories are not
//! read. Paths of the previous snapshot that are no longer files on disk must be gone.
//!
//! Edits get their mtime from a logical clock (far in the past, strictly increasing), so the
//! racy-timestamp window (C26) is never what decides a case; chmod does not touch the mtime.

use std::collections::BTreeMap;
use std::collections::BTreeSet;
use std::ffi::CString;
use std::os::unix::ffi::OsStrExt as _;
use std::os::unix::fs::PermissionsExt as _;
use std::path::Path;
use std::path::PathBuf;

use jj_lib::backend::TreeValue;
use jj_lib::config::ConfigLayer;
use jj_lib::config::ConfigSource;
use jj_lib::local_working_copy::FileType;
use jj_lib::local_working_copy::LocalWorkingCopy;
use jj_lib::merged_tree::MergedTree;
use jj_lib::repo::Repo as _;
use jj_lib::settings::UserSettings;
use jj_lib::store::Store;
use pollster::FutureExt as _;
use serde_json::Value;
use serde_json::json;
use testutils::TestRepoBackend;
use testutils::TestWorkspace;
use vcommon::Counter;
use vcommon::Coverage;
use vcommon::Ctx;
use vcommon::Level;
use vcommon::Samples;
use vcommon::bfs;
use vcommon::bfs::BfsConfig;
use vcommon::bfs::StepResult;
use vcommon::catch;
use vcommon::machinery_failure;

// ---------------------------------------------------------------------------------------
// alphabet

/// Ignore-file contents of the alphabet. Only these pattern forms occur: `name`, `name/`,
/// `*`, `!name` (no slashes inside), which is what the reference matcher implements.
const ROOT_IGNORES: [&str; 3] = ["f\n", "i/\n", "*\n!d\n"];
const NESTED_IGNORES: [&str; 2] = ["g\n", "!g\n"];

#[derive(Clone, Debug, PartialEq, Eq)]
enum Act {
    /// Write a regular file (parents that are not directories are replaced by directories, a
    /// directory or symlink at the path is replaced by the file; an existing regular file is
    /// overwritten in place and keeps its mode).
    Write { path: String, content: String },
    /// chmod +x / -x (toggle) of a regular file; the mtime is left alone.
    Chmod { path: String },
    /// Replace whatever is at the path by a symlink.
    Link { path: String, target: String },
    /// Remove the file, symlink or directory (recursively); parents are left in place.
    Delete { path: String },
    /// Replace whatever is at the path by an empty directory.
    Mkdir { path: String },
    /// Write (`Some`) or delete (`None`) `<dir>/.gitignore`; `dir` is "" or an existing directory.
    Ignore { dir: String, content: Option<String> },
    Snapshot,
}

fn act_to_json(a: &Act) -> Value {
    match a {
        Act::Write { path, content } => json!({"op": "write", "path": path, "content": content}),
        Act::Chmod { path } => json!({"op": "chmod-toggle-x", "path": path}),
        Act::Link { path, target } => json!({"op": "symlink", "path": path, "target": target}),
        Act::Delete { path } => json!({"op": "delete", "path": path}),
        Act::Mkdir { path } => json!({"op": "replace-by-empty-dir", "path": path}),
        Act::Ignore { dir, content } => json!({"op": "gitignore", "dir": dir, "content": content}),
        Act::Snapshot => json!({"op": "snapshot"}),
    }
}

fn act_from_json(v: &Value) -> Act {
    let s = |k: &str| v[k].as_str().unwrap_or_else(|| machinery_failure(&format!("replay: missing {k}"))).to_string();
    match v["op"].as_str().unwrap_or("") {
        "write" => Act::Write { path: s("path"), content: s("content") },
        "chmod-toggle-x" => Act::Chmod { path: s("path") },
        "symlink" => Act::Link { path: s("path"), target: s("target") },
        "delete" => Act::Delete { path: s("path") },
        "replace-by-empty-dir" => Act::Mkdir { path: s("path") },
        "gitignore" => Act::Ignore { dir: s("dir"), content: v["content"].as_str().map(|x| x.to_string()) },
        "snapshot" => Act::Snapshot,
        other => machinery_failure(&format!("replay: unknown op {other}")),
    }
}

fn act_label(a: &Act) -> String {
    match a {
        Act::Write { path, .. } => format!("write:{path}"),
        Act::Chmod { path } => format!("chmod:{path}"),
        Act::Link { path, .. } => format!("symlink:{path}"),
        Act::Delete { path } => format!("delete:{path}"),
        Act::Mkdir { path } => format!("mkdir:{path}"),
        Act::Ignore { dir, content } => format!(
            "gitignore:{}:{}",
            if dir.is_empty() { "root" } else { dir },
            match content {
                None => "remove".to_string(),
                Some(c) => c.replace('\n', " ").trim().to_string(),
            }
        ),
        Act::Snapshot => "snapshot".to_string(),
    }
}

/// One search: an explicit action alphabet and a depth.
struct Bounds {
    actions: Vec<Act>,
    max_depth: usize,
}

fn w(path: &str, content: &str) -> Act {
    Act::Write { path: path.into(), content: content.into() }
}
fn rm(path: &str) -> Act {
    Act::Delete { path: path.into() }
}
fn chmod(path: &str) -> Act {
    Act::Chmod { path: path.into() }
}
fn ln(path: &str, target: &str) -> Act {
    Act::Link { path: path.into(), target: target.into() }
}
fn mkdir(path: &str) -> Act {
    Act::Mkdir { path: path.into() }
}
fn ign(dir: &str, content: Option<&str>) -> Act {
    Act::Ignore { dir: dir.into(), content: content.map(|c| c.to_string()) }
}

/// Full product alphabet over paths x contents x link targets, plus the ignore files.
fn product_alphabet(paths: &[&str], contents: &[&str], targets: &[&str], mkdirs: &[&str], root_ignores: &[&str], nested_ignores: &[&str]) -> Vec<Act> {
    let mut v = vec![Act::Snapshot];
    for p in paths {
        for c in contents {
            v.push(w(p, c));
        }
    }
    for p in paths {
        v.push(rm(p));
        v.push(chmod(p));
        for t in targets {
            v.push(ln(p, t));
        }
    }
    for p in mkdirs {
        v.push(mkdir(p));
    }
    if !root_ignores.is_empty() {
        v.push(ign("", None));
    }
    for c in root_ignores {
        v.push(ign("", Some(c)));
    }
    if !nested_ignores.is_empty() {
        v.push(ign("d", None));
    }
    for c in nested_ignores {
        v.push(ign("d", Some(c)));
    }
    v
}

// ---------------------------------------------------------------------------------------
// the disk, read by a plain directory walk (no jj code)

#[derive(Clone, Debug, PartialEq, Eq, PartialOrd, Ord)]
enum Node {
    File { content: Vec<u8>, exec: bool },
    Link { target: String },
    Dir,
}

/// What a tree records for a path.
#[derive(Clone, Debug, PartialEq, Eq, PartialOrd, Ord)]
enum Val {
    File { content: Vec<u8>, exec: bool },
    Link { target: String },
    /// anything else jj might put there (conflict, tree, submodule): rendered for the message
    Other(String),
}

fn show_val(v: &Val) -> String {
    match v {
        Val::File { content, exec } => format!("file({:?}{})", String::from_utf8_lossy(content), if *exec { ",x" } else { "" }),
        Val::Link { target } => format!("symlink(->{target})"),
        Val::Other(s) => format!("other({s})"),
    }
}

fn show_tree(t: &BTreeMap<String, Val>) -> String {
    let items: Vec<String> = t.iter().map(|(p, v)| format!("{p}={}", show_val(v))).collect();
    format!("{{{}}}", items.join(", "))
}

struct DiskEntry {
    node: Node,
    mtime_ms: i64,
    size: u64,
}

fn walk(root: &Path) -> BTreeMap<String, DiskEntry> {
    fn rec(root: &Path, rel: &str, out: &mut BTreeMap<String, DiskEntry>) {
        let dir = if rel.is_empty() { root.to_path_buf() } else { root.join(rel) };
        let rd = std::fs::read_dir(&dir).unwrap_or_else(|e| machinery_failure(&format!("read_dir {}: {e}", dir.display())));
        for e in rd {
            let e = e.unwrap_or_else(|e| machinery_failure(&format!("read_dir entry: {e}")));
            let name = e.file_name().into_string().unwrap_or_else(|_| machinery_failure("non-utf8 name on disk"));
            if rel.is_empty() && name == ".jj" {
                continue;
            }
            let p = if rel.is_empty() { name.clone() } else { format!("{rel}/{name}") };
            let md = std::fs::symlink_metadata(e.path()).unwrap_or_else(|e| machinery_failure(&format!("lstat: {e}")));
            let mtime_ms = {
                use std::os::unix::fs::MetadataExt as _;
                md.mtime() * 1000 + md.mtime_nsec() / 1_000_000
            };
            let ft = md.file_type();
            let node = if ft.is_dir() {
                Node::Dir
            } else if ft.is_symlink() {
                let t = std::fs::read_link(e.path()).unwrap_or_else(|e| machinery_failure(&format!("readlink: {e}")));
                Node::Link { target: t.to_str().unwrap_or_else(|| machinery_failure("non-utf8 link")).to_string() }
            } else if ft.is_file() {
                Node::File {
                    content: std::fs::read(e.path()).unwrap_or_else(|e| machinery_failure(&format!("read: {e}"))),
                    exec: md.permissions().mode() & 0o111 != 0,
                }
            } else {
                machinery_failure("special file on disk");
            };
            let is_dir = node == Node::Dir;
            out.insert(p.clone(), DiskEntry { node, mtime_ms, size: md.len() });
            if is_dir {
                rec(root, &p, out);
            }
        }
    }
    let mut out = BTreeMap::new();
    rec(root, "", &mut out);
    out
}

// ---------------------------------------------------------------------------------------
// reference ignore matcher (pattern forms: name, name/, *, and their negations)

type Disk = BTreeMap<String, DiskEntry>;

fn parent_of(p: &str) -> &str {
    p.rsplit_once('/').map_or("", |(d, _)| d)
}

fn base_of(p: &str) -> &str {
    p.rsplit_once('/').map_or(p, |(_, b)| b)
}

/// Verdict of one ignore file for one path: Some(ignored?) if any pattern matches (last wins).
fn verdict_of_file(text: &[u8], base: &str, is_dir: bool) -> Option<bool> {
    let mut verdict = None;
    for line in text.split(|b| *b == b'\n') {
        let line = std::str::from_utf8(line).unwrap_or_else(|_| machinery_failure("ignore file not utf8"));
        if line.is_empty() {
            continue;
        }
        let (negative, pat) = match line.strip_prefix('!') {
            Some(rest) => (true, rest),
            None => (false, line),
        };
        let (dir_only, name) = match pat.strip_suffix('/') {
            Some(n) => (true, n),
            None => (false, pat),
        };
        if name.contains('/') || name.is_empty() {
            machinery_failure("ignore pattern outside the forms the reference matcher implements");
        }
        let name_matches = name == "*" || name == base;
        if name_matches && (!dir_only || is_dir) {
            verdict = Some(!negative);
        }
    }
    verdict
}

/// Is `path` itself matched as ignored by the ignore files in its ancestor directories
/// (nearest directory first; the first file with a matching pattern decides)?
fn matched_ignored(ignore_files: &dyn Fn(&str) -> Option<Vec<u8>>, path: &str, is_dir: bool) -> bool {
    let base = base_of(path);
    let mut dir = parent_of(path);
    loop {
        if let Some(text) = ignore_files(dir)
            && let Some(v) = verdict_of_file(&text, base, is_dir)
        {
            return v;
        }
        if dir.is_empty() {
            return false;
        }
        dir = parent_of(dir);
    }
}

/// A file is ignored if a directory above it is ignored (top-down; ignore files below an
/// ignored directory are never consulted) or it is matched itself.
fn file_ignored(ignore_files: &dyn Fn(&str) -> Option<Vec<u8>>, path: &str) -> bool {
    let comps: Vec<&str> = path.split('/').collect();
    let mut prefix = String::new();
    for c in &comps[..comps.len() - 1] {
        if !prefix.is_empty() {
            prefix.push('/');
        }
        prefix.push_str(c);
        if matched_ignored(ignore_files, &prefix, true) {
            return true;
        }
    }
    matched_ignored(ignore_files, path, false)
}

fn disk_ignore_files(disk: &Disk) -> impl Fn(&str) -> Option<Vec<u8>> + '_ {
    move |dir: &str| {
        let p = if dir.is_empty() { ".gitignore".to_string() } else { format!("{dir}/.gitignore") };
        match disk.get(&p) {
            Some(DiskEntry { node: Node::File { content, .. }, .. }) => Some(content.clone()),
            _ => None,
        }
    }
}

/// The tree a snapshot must return.
fn expected_tree(disk: &Disk, tracked: &BTreeMap<String, Val>) -> BTreeMap<String, Val> {
    let ig = disk_ignore_files(disk);
    let mut out = BTreeMap::new();
    for (p, e) in disk {
        let val = match &e.node {
            Node::Dir => continue,
            Node::File { content, exec } => Val::File { content: content.clone(), exec: *exec },
            Node::Link { target } => Val::Link { target: target.clone() },
        };
        if tracked.contains_key(p) || !file_ignored(&ig, p) {
            out.insert(p.clone(), val);
        }
    }
    out
}

/// Start-up gate: the reference matcher agrees with `git check-ignore` on every ignore-file
/// combination of the alphabet and every path the alphabet can produce.
fn validate_matcher_against_git(scratch: &Path) -> u64 {
    let dir = scratch.join("gitref");
    let _ = std::fs::remove_dir_all(&dir);
    std::fs::create_dir_all(&dir).unwrap();
    let git = |args: &[&str]| {
        std::process::Command::new("git")
            .args(args)
            .current_dir(&dir)
            .env("GIT_CONFIG_SYSTEM", "/dev/null")
            .env("GIT_CONFIG_GLOBAL", "/dev/null")
            .env("GIT_CONFIG_NOSYSTEM", "1")
            .env("HOME", &dir)
            .env_remove("XDG_CONFIG_HOME")
            .env_remove("GIT_DIR")
            .output()
            .unwrap_or_else(|e| machinery_failure(&format!("cannot run git: {e}")))
    };
    if !git(&["init", "-q", "--template=", "."]).status.success() {
        machinery_failure("git init failed");
    }
    let mut n = 0;
    let mut roots: Vec<Option<&str>> = vec![None];
    roots.extend(ROOT_IGNORES.iter().map(|s| Some(*s)));
    let mut nesteds: Vec<Option<&str>> = vec![None];
    nesteds.extend(NESTED_IGNORES.iter().map(|s| Some(*s)));
    // `d` and `i` also occur as files (second layout).
    let layouts: [&[&str]; 2] = [
        &["f", "d/g", "d/.gitignore", "i/h", "i/j", "i/k/g", "i/.gitignore", ".gitignore", "g"],
        &["f", "d", "i", ".gitignore"],
    ];
    for root in &roots {
        for nested in &nesteds {
            for (li, layout) in layouts.iter().enumerate() {
                if li == 1 && nested.is_some() {
                    continue;
                }
                for e in std::fs::read_dir(&dir).unwrap() {
                    let e = e.unwrap();
                    if e.file_name() == ".git" {
                        continue;
                    }
                    if e.file_type().unwrap().is_dir() {
                        std::fs::remove_dir_all(e.path()).unwrap();
                    } else {
                        std::fs::remove_file(e.path()).unwrap();
                    }
                }
                let mut files: BTreeMap<String, Vec<u8>> = BTreeMap::new();
                for p in layout.iter() {
                    files.insert(p.to_string(), b"x".to_vec());
                }
                match root {
                    Some(t) => {
                        files.insert(".gitignore".into(), t.as_bytes().to_vec());
                    }
                    None => {
                        files.remove(".gitignore");
                    }
                }
                if li == 0 {
                    match nested {
                        Some(t) => {
                            files.insert("d/.gitignore".into(), t.as_bytes().to_vec());
                        }
                        None => {
                            files.remove("d/.gitignore");
                        }
                    }
                    // an ignore file inside `i` that would re-include everything: must have no
                    // effect when `i/` is ignored (patterns of the implemented forms)
                    files.insert("i/.gitignore".into(), b"!h\n!j\n".to_vec());
                }
                for (p, c) in &files {
                    let fp = dir.join(p);
                    std::fs::create_dir_all(fp.parent().unwrap()).unwrap();
                    std::fs::write(&fp, c).unwrap();
                }
                let lookup = |d: &str| {
                    let p = if d.is_empty() { ".gitignore".to_string() } else { format!("{d}/.gitignore") };
                    files.get(&p).cloned()
                };
                let mut args = vec!["check-ignore", "--no-index", "-v", "-n", "--"];
                args.extend(files.keys().map(|k| k.as_str()));
                let out = git(&args);
                if !matches!(out.status.code(), Some(0) | Some(1)) {
                    machinery_failure(&format!("git check-ignore failed: {}", String::from_utf8_lossy(&out.stderr)));
                }
                let text = String::from_utf8_lossy(&out.stdout).to_string();
                let mut verdicts: BTreeMap<String, bool> = BTreeMap::new();
                for line in text.lines() {
                    let Some((left, path)) = line.split_once('\t') else {
                        machinery_failure(&format!("unexpected git check-ignore output line {line:?}"));
                    };
                    let pattern = left.splitn(3, ':').nth(2).unwrap_or("");
                    verdicts.insert(path.to_string(), !pattern.is_empty() && !pattern.starts_with('!'));
                }
                for p in files.keys() {
                    let Some(git_says) = verdicts.get(p).copied() else {
                        machinery_failure(&format!("git check-ignore printed nothing for {p}"));
                    };
                    let mine = file_ignored(&lookup, p);
                    if git_says != mine {
                        machinery_failure(&format!(
                            "reference ignore matcher disagrees with git: root {root:?} nested {nested:?} path {p}: git {git_says} reference {mine}"
                        ));
                    }
                    n += 1;
                }
            }
        }
    }
    let _ = std::fs::remove_dir_all(&dir);
    n
}

// ---------------------------------------------------------------------------------------
// the world

struct World {
    ws: TestWorkspace,
    root: PathBuf,
    clock: i64,
}

fn settings() -> UserSettings {
    let mut config = testutils::base_user_config();
    config.add_layer(
        ConfigLayer::parse(ConfigSource::User, "working-copy.exec-bit-change = \"respect\"\nworking-copy.eol-conversion = \"none\"\n")
            .unwrap_or_else(|e| machinery_failure(&format!("config: {e}"))),
    );
    UserSettings::from_config(config).unwrap_or_else(|e| machinery_failure(&format!("settings: {e}")))
}

impl World {
    fn new() -> Self {
        let ws = TestWorkspace::init_with_backend_and_settings(TestRepoBackend::Simple, &settings());
        let root = ws.workspace.workspace_root().to_path_buf();
        World { ws, root, clock: 0 }
    }

    /// Gives the path (not following symlinks) the next value of the logical clock as mtime.
    fn stamp(&mut self, rel: &str) {
        self.clock += 1;
        let secs = 1_000_000_000 + 10 * self.clock;
        let p = self.root.join(rel);
        let c = CString::new(p.as_os_str().as_bytes()).unwrap();
        let times = [
            libc::timespec { tv_sec: secs, tv_nsec: 0 },
            libc::timespec { tv_sec: secs, tv_nsec: 0 },
        ];
        // SAFETY: valid C string and a two-element timespec array.
        let rc = unsafe { libc::utimensat(libc::AT_FDCWD, c.as_ptr(), times.as_ptr(), libc::AT_SYMLINK_NOFOLLOW) };
        if rc != 0 {
            machinery_failure(&format!("utimensat {rel}: {}", std::io::Error::last_os_error()));
        }
    }

    fn remove_any(&self, rel: &str) {
        let p = self.root.join(rel);
        match std::fs::symlink_metadata(&p) {
            Err(_) => {}
            Ok(md) if md.is_dir() => std::fs::remove_dir_all(&p).unwrap_or_else(|e| machinery_failure(&format!("rm -r: {e}"))),
            Ok(_) => std::fs::remove_file(&p).unwrap_or_else(|e| machinery_failure(&format!("rm: {e}"))),
        }
    }

    /// Makes every proper ancestor of `rel` a real directory (replacing files and symlinks).
    fn make_parents(&self, rel: &str) {
        let comps: Vec<&str> = rel.split('/').collect();
        let mut prefix = String::new();
        for c in &comps[..comps.len() - 1] {
            if !prefix.is_empty() {
                prefix.push('/');
            }
            prefix.push_str(c);
            let p = self.root.join(&prefix);
            match std::fs::symlink_metadata(&p) {
                Ok(md) if md.is_dir() => {}
                Ok(_) => {
                    std::fs::remove_file(&p).unwrap_or_else(|e| machinery_failure(&format!("rm: {e}")));
                    std::fs::create_dir(&p).unwrap_or_else(|e| machinery_failure(&format!("mkdir: {e}")));
                }
                Err(_) => std::fs::create_dir(&p).unwrap_or_else(|e| machinery_failure(&format!("mkdir: {e}"))),
            }
        }
    }

    fn write_file(&mut self, rel: &str, content: &[u8]) {
        self.make_parents(rel);
        let p = self.root.join(rel);
        match std::fs::symlink_metadata(&p) {
            Ok(md) if md.is_file() => {}
            Ok(_) => self.remove_any(rel),
            Err(_) => {}
        }
        std::fs::write(&p, content).unwrap_or_else(|e| machinery_failure(&format!("write {rel}: {e}")));
        self.stamp(rel);
    }

    /// Is the edit enabled in the current disk state? (Edits that would change nothing are not.)
    fn enabled(&self, act: &Act) -> bool {
        let lstat = |rel: &str| std::fs::symlink_metadata(self.root.join(rel)).ok();
        match act {
            Act::Write { path, content } => {
                !(lstat(path).is_some_and(|md| md.is_file())
                    && std::fs::read(self.root.join(path)).ok().as_deref() == Some(content.as_bytes()))
            }
            Act::Chmod { path } => lstat(path).is_some_and(|md| md.is_file()),
            Act::Link { path, target } => {
                !std::fs::read_link(self.root.join(path)).is_ok_and(|t| t == Path::new(target))
            }
            Act::Delete { path } => lstat(path).is_some(),
            Act::Mkdir { path } => {
                let p = self.root.join(path);
                !(lstat(path).is_some_and(|md| md.is_dir())
                    && std::fs::read_dir(&p).map(|mut d| d.next().is_none()).unwrap_or(false))
            }
            Act::Ignore { dir, content } => {
                if !dir.is_empty() && !lstat(dir).is_some_and(|md| md.is_dir()) {
                    return false;
                }
                let rel = if dir.is_empty() { ".gitignore".to_string() } else { format!("{dir}/.gitignore") };
                let current = std::fs::read(self.root.join(rel)).ok();
                match content {
                    None => current.is_some(),
                    Some(c) => current.as_deref() != Some(c.as_bytes()),
                }
            }
            Act::Snapshot => true,
        }
    }

    /// Applies an edit; `false` if it is not enabled in the current disk state.
    fn apply_edit(&mut self, act: &Act) -> bool {
        if !self.enabled(act) {
            return false;
        }
        match act {
            Act::Write { path, content } => self.write_file(path, content.as_bytes()),
            Act::Chmod { path } => {
                let p = self.root.join(path);
                let md = std::fs::symlink_metadata(&p).unwrap_or_else(|e| machinery_failure(&format!("lstat: {e}")));
                let exec = md.permissions().mode() & 0o111 != 0;
                let mode = if exec { 0o644 } else { 0o755 };
                std::fs::set_permissions(&p, std::fs::Permissions::from_mode(mode))
                    .unwrap_or_else(|e| machinery_failure(&format!("chmod: {e}")));
            }
            Act::Link { path, target } => {
                self.make_parents(path);
                self.remove_any(path);
                std::os::unix::fs::symlink(target, self.root.join(path)).unwrap_or_else(|e| machinery_failure(&format!("symlink: {e}")));
                self.stamp(path);
            }
            Act::Delete { path } => self.remove_any(path),
            Act::Mkdir { path } => {
                self.make_parents(path);
                self.remove_any(path);
                std::fs::create_dir(self.root.join(path)).unwrap_or_else(|e| machinery_failure(&format!("mkdir: {e}")));
            }
            Act::Ignore { dir, content } => {
                let rel = if dir.is_empty() { ".gitignore".to_string() } else { format!("{dir}/.gitignore") };
                match content {
                    None => self.remove_any(&rel),
                    Some(c) => self.write_file(&rel, c.as_bytes()),
                }
            }
            Act::Snapshot => unreachable!(),
        }
        true
    }
}

fn tree_to_map(store: &Store, tree: &MergedTree) -> BTreeMap<String, Val> {
    let mut out = BTreeMap::new();
    for (path, value) in tree.entries() {
        let value = value.unwrap_or_else(|e| machinery_failure(&format!("tree entry: {e}")));
        let p = path.as_internal_file_string().to_string();
        let v = match value.as_resolved() {
            Some(Some(TreeValue::File { id, executable, .. })) => {
                Val::File { content: testutils::read_file(store, &path, id), exec: *executable }
            }
            Some(Some(TreeValue::Symlink(id))) => Val::Link {
                target: store.read_symlink(&path, id).block_on().unwrap_or_else(|e| machinery_failure(&format!("read_symlink: {e}"))),
            },
            _ => Val::Other(format!("{value:?}")),
        };
        out.insert(p, v);
    }
    out
}

// ---------------------------------------------------------------------------------------
// oracle

#[derive(Default)]
struct Tally {
    snapshots_checked: Counter,
    snapshots_changing_tree: Counter,
    snapshots_clean: Counter,
    new_files_tracked: Counter,
    content_changed_same_size: Counter,
    content_changed_other_size: Counter,
    exec_bit_only_changes: Counter,
    symlink_retargets: Counter,
    file_to_symlink: Counter,
    symlink_to_file: Counter,
    deletions: Counter,
    file_replaced_by_dir: Counter,
    file_replaced_by_empty_dir: Counter,
    dir_replaced_by_file: Counter,
    untracked_ignored_files_skipped: Counter,
    skipped_inside_ignored_dir: Counter,
    tracked_ignored_files_recorded: Counter,
    tracked_inside_ignored_dir_modified: Counter,
    tracked_inside_ignored_dir_deleted: Counter,
    reincluded_by_nested_ignore: Counter,
    ignore_file_itself_ignored: Counter,
    dir_symlinks_recorded: Counter,
    dangling_symlinks_recorded: Counter,
    histories_not_enabled: Counter,
}

struct Failure {
    signature: String,
    message: String,
}

/// Classifies a mismatch narrowly: which kind of path disagrees and how.
/// What is readable at the path when symlinks in parent components are followed.
fn read_following_symlinks(root: &Path, p: &str) -> Option<Val> {
    let full = root.join(p);
    let md = std::fs::symlink_metadata(&full).ok()?;
    if md.file_type().is_symlink() {
        Some(Val::Link { target: std::fs::read_link(&full).ok()?.to_str()?.to_string() })
    } else if md.is_file() {
        Some(Val::File { content: std::fs::read(&full).ok()?, exec: md.permissions().mode() & 0o111 != 0 })
    } else {
        None
    }
}

fn mismatch_signature(
    root: &Path,
    disk: &Disk,
    tracked: &BTreeMap<String, Val>,
    expected: &BTreeMap<String, Val>,
    actual: &BTreeMap<String, Val>,
) -> (String, String) {
    let ig = disk_ignore_files(disk);
    let all: BTreeSet<&String> = expected.keys().chain(actual.keys()).collect();
    for p in all {
        let e = expected.get(p);
        let a = actual.get(p);
        if e == a {
            continue;
        }
        let was_tracked = tracked.contains_key(p);
        let on_disk = disk.get(p).map(|d| &d.node);
        let ignored = on_disk.is_some() && file_ignored(&ig, p);
        let kind = match (e, a) {
            (None, Some(_)) => match on_disk {
                None => {
                    // is an ancestor a file now?
                    let mut anc = parent_of(p);
                    let mut kind = "deleted-path-still-recorded";
                    let mut below_ignored_dir = false;
                    while !anc.is_empty() {
                        match disk.get(anc).map(|d| &d.node) {
                            Some(Node::File { .. }) => kind = "stale-path-under-dir-replaced-by-file",
                            Some(Node::Link { .. }) => kind = "stale-path-under-dir-replaced-by-symlink",
                            Some(Node::Dir) if matched_ignored(&ig, anc, true) => below_ignored_dir = true,
                            _ => {}
                        }
                        anc = parent_of(anc);
                    }
                    // the narrow known shape: a tracked path below an ignored directory, one of
                    // whose parent components is a symlink now, recorded with exactly what is
                    // readable through that symlink
                    if kind == "stale-path-under-dir-replaced-by-symlink" && was_tracked && below_ignored_dir && a == read_following_symlinks(root, p).as_ref() {
                        kind = "tracked-path-read-through-symlinked-parent";
                    }
                    kind
                }
                Some(Node::Dir) => "file-replaced-by-dir-still-recorded",
                Some(_) if ignored && !was_tracked => "ignored-untracked-file-recorded",
                Some(_) => "unexpected-path-recorded",
            },
            (Some(_), None) => {
                if was_tracked && ignored {
                    "tracked-ignored-file-dropped"
                } else if was_tracked {
                    "tracked-file-dropped"
                } else {
                    "new-file-not-recorded"
                }
            }
            (Some(Val::File { content: ec, exec: ee }), Some(Val::File { content: ac, exec: ae })) => {
                if ec != ac && ee != ae {
                    "stale-content-and-exec-bit"
                } else if ec != ac {
                    if ec.len() == ac.len() { "stale-content-same-size" } else { "stale-content" }
                } else {
                    "stale-exec-bit"
                }
            }
            (Some(Val::Link { .. }), Some(Val::Link { .. })) => "stale-symlink-target",
            (Some(Val::Link { .. }), Some(Val::File { .. })) => "symlink-recorded-as-file",
            (Some(Val::File { .. }), Some(Val::Link { .. })) => "file-recorded-as-symlink",
            _ => "other-value",
        };
        let msg = format!(
            "path {p}: expected {} but the snapshot has {} (previously tracked: {was_tracked}, ignored now: {ignored})",
            e.map_or("absent".to_string(), show_val),
            a.map_or("absent".to_string(), show_val),
        );
        return (format!("C23/snapshot/{kind}"), msg);
    }
    machinery_failure("mismatch_signature called on equal trees");
}

fn tally_snapshot(t: &Tally, disk: &Disk, tracked: &BTreeMap<String, Val>, expected: &BTreeMap<String, Val>) {
    t.snapshots_checked.inc();
    if tracked == expected {
        t.snapshots_clean.inc();
    } else {
        t.snapshots_changing_tree.inc();
    }
    let ig = disk_ignore_files(disk);
    for (p, e) in expected {
        let ignored = file_ignored(&ig, p);
        let in_ignored_dir = ignored && !matched_ignored(&ig, p, false);
        match tracked.get(p) {
            None => {
                t.new_files_tracked.inc();
                if base_of(p) == "g" && ig("d").is_some_and(|c| c == b"!g\n") && ig("").is_some() {
                    t.reincluded_by_nested_ignore.inc();
                }
            }
            Some(old) => {
                if ignored {
                    t.tracked_ignored_files_recorded.inc();
                }
                if old != e && in_ignored_dir {
                    t.tracked_inside_ignored_dir_modified.inc();
                }
                match (old, e) {
                    (Val::File { content: oc, exec: oe }, Val::File { content: nc, exec: ne }) => {
                        if oc != nc {
                            if oc.len() == nc.len() {
                                t.content_changed_same_size.inc();
                            } else {
                                t.content_changed_other_size.inc();
                            }
                        } else if oe != ne {
                            t.exec_bit_only_changes.inc();
                        }
                    }
                    (Val::Link { target: a }, Val::Link { target: b }) if a != b => t.symlink_retargets.inc(),
                    (Val::File { .. }, Val::Link { .. }) => t.file_to_symlink.inc(),
                    (Val::Link { .. }, Val::File { .. }) => t.symlink_to_file.inc(),
                    _ => {}
                }
            }
        }
        if let Val::Link { target } = e {
            let resolved = if parent_of(p).is_empty() { target.clone() } else { format!("{}/{target}", parent_of(p)) };
            match disk.get(&resolved).map(|d| &d.node) {
                Some(Node::Dir) => t.dir_symlinks_recorded.inc(),
                None => t.dangling_symlinks_recorded.inc(),
                _ => {}
            }
        }
    }
    for p in tracked.keys() {
        if expected.contains_key(p) {
            continue;
        }
        t.deletions.inc();
        match disk.get(p).map(|d| &d.node) {
            Some(Node::Dir) => {
                if disk.keys().any(|q| q.starts_with(&format!("{p}/"))) {
                    t.file_replaced_by_dir.inc();
                } else {
                    t.file_replaced_by_empty_dir.inc();
                }
            }
            None => {
                let mut anc = parent_of(p);
                while !anc.is_empty() {
                    if matches!(disk.get(anc).map(|d| &d.node), Some(Node::File { .. } | Node::Link { .. })) {
                        t.dir_replaced_by_file.inc();
                        break;
                    }
                    anc = parent_of(anc);
                }
                // a tracked file below a directory that is ignored now
                let mut anc = parent_of(p);
                while !anc.is_empty() {
                    if matches!(disk.get(anc).map(|d| &d.node), Some(Node::Dir)) && matched_ignored(&ig, anc, true) {
                        t.tracked_inside_ignored_dir_deleted.inc();
                        break;
                    }
                    anc = parent_of(anc);
                }
            }
            _ => {}
        }
    }
    for (p, e) in disk {
        if e.node == Node::Dir || expected.contains_key(p) {
            continue;
        }
        t.untracked_ignored_files_skipped.inc();
        if !matched_ignored(&ig, p, false) {
            t.skipped_inside_ignored_dir.inc();
        }
        if base_of(p) == ".gitignore" {
            t.ignore_file_itself_ignored.inc();
        }
    }
}

/// Runs one snapshot of the real working copy and judges it.
fn snapshot_and_check(
    w: &mut World,
    tracked: &mut BTreeMap<String, Val>,
    tally: Option<&Tally>,
) -> Result<(), Failure> {
    let disk = walk(&w.root);
    let expected = expected_tree(&disk, tracked);
    let tree = match catch(|| w.ws.snapshot()) {
        Err(panic) => {
            return Err(Failure { signature: "C23/snapshot/panic".into(), message: format!("snapshot panicked: {panic}") });
        }
        Ok(Err(e)) => {
            let text = format!("{e}");
            let kind = if text.contains("Failed to stat file") {
                "error/stat-of-tracked-file"
            } else if text.contains("Failed to read symlink") {
                "error/read-symlink"
            } else if text.contains("Failed to read directory") {
                "error/read-dir"
            } else if text.contains("Failed to open file") {
                "error/open-file"
            } else {
                "error/other"
            };
            let mut chain = text.clone();
            let mut src: Option<&dyn std::error::Error> = std::error::Error::source(&e);
            while let Some(s) = src {
                chain.push_str(&format!(": {s}"));
                src = s.source();
            }
            let chain = chain.replace(&*w.root.to_string_lossy(), "<ws>");
            let errno = if chain.contains("os error 20") {
                "/not-a-directory"
            } else if chain.contains("os error 40") {
                "/symlink-loop"
            } else if chain.contains("os error 2)") {
                "/not-found"
            } else {
                ""
            };
            return Err(Failure {
                signature: format!("C23/snapshot/{kind}{errno}"),
                message: format!("snapshot failed ({chain}) although every path on disk is an ordinary file, symlink or directory; expected tree {}", show_tree(&expected)),
            });
        }
        Ok(Ok(tree)) => tree,
    };
    let store = w.ws.repo.store().clone();
    let actual = tree_to_map(&store, &tree);
    if let Some(t) = tally {
        tally_snapshot(t, &disk, tracked, &expected);
    }
    if actual != expected {
        let (signature, detail) = mismatch_signature(&w.root, &disk, tracked, &expected, &actual);
        return Err(Failure {
            signature,
            message: format!("{detail}\n  previous snapshot {}\n  expected          {}\n  snapshot returned {}", show_tree(tracked), show_tree(&expected), show_tree(&actual)),
        });
    }
    // the saved working-copy state agrees with what was returned
    let wc_tree = w.ws.workspace.working_copy().tree().unwrap_or_else(|e| machinery_failure(&format!("wc tree: {e}")));
    if wc_tree.tree_ids() != tree.tree_ids() {
        return Err(Failure {
            signature: "C23/snapshot/saved-tree-differs-from-returned".into(),
            message: format!("the working copy's saved tree {:?} differs from the returned tree {:?}", wc_tree.tree_ids(), tree.tree_ids()),
        });
    }
    let wc: &LocalWorkingCopy = w.ws.workspace.working_copy().downcast_ref().unwrap_or_else(|| machinery_failure("not a LocalWorkingCopy"));
    let states: BTreeSet<String> = wc
        .file_states()
        .unwrap_or_else(|e| machinery_failure(&format!("file_states: {e}")))
        .paths()
        .map(|p| p.as_internal_file_string().to_string())
        .collect();
    let tree_paths: BTreeSet<String> = expected.keys().cloned().collect();
    if states != tree_paths {
        return Err(Failure {
            signature: "C23/snapshot/file-states-differ-from-tree".into(),
            message: format!("tracked file states {states:?} differ from the snapshot's paths {tree_paths:?}"),
        });
    }
    *tracked = expected;
    Ok(())
}

/// Canonical key: disk listing, tracked tree, and per tracked path whether the recorded file
/// state (type incl. exec bit, size, mtime) equals the disk's.
fn state_key(w: &World, tracked: &BTreeMap<String, Val>) -> String {
    let disk = walk(&w.root);
    let wc: &LocalWorkingCopy = w.ws.workspace.working_copy().downcast_ref().unwrap_or_else(|| machinery_failure("not a LocalWorkingCopy"));
    let states = wc.file_states().unwrap_or_else(|e| machinery_failure(&format!("file_states: {e}")));
    let mut s = String::new();
    for (p, e) in &disk {
        s.push_str(&format!("D {p} {:?};", e.node));
    }
    for (p, v) in tracked {
        s.push_str(&format!("T {p} {};", show_val(v)));
    }
    for (p, st) in states.iter() {
        let p = p.as_internal_file_string();
        let sync = match disk.get(p) {
            None => "gone".to_string(),
            Some(e) => {
                let same_type = match (&st.file_type, &e.node) {
                    (FileType::Normal { exec_bit }, Node::File { exec, .. }) => format!("{exec_bit:?}") == format!("ExecBit({exec})"),
                    (FileType::Symlink, Node::Link { .. }) => true,
                    _ => false,
                };
                format!("{}{}{}", same_type as u8, (st.size == e.size) as u8, (st.mtime.0 == e.mtime_ms) as u8)
            }
        };
        s.push_str(&format!("S {p} {sync};"));
    }
    s
}

fn case_json(history: &[Act], probe: bool) -> Value {
    json!({
        "history": history.iter().map(act_to_json).collect::<Vec<_>>(),
        "closing_probe_snapshot": probe,
        "settings": {"working-copy.exec-bit-change": "respect", "working-copy.eol-conversion": "none", "backend": "simple"},
    })
}

/// Replays a history from a fresh workspace, judging the last transition (and the closing
/// probe snapshot if `probe`).
fn step(ctx: &Ctx, tally: &Tally, samples: &Samples, b: &Bounds, history: &[Act], probe_depth: usize) -> Option<StepResult<Act>> {
    let mut w = World::new();
    let mut tracked: BTreeMap<String, Val> = BTreeMap::new();
    let probe = history.len() >= probe_depth && !matches!(history.last(), Some(Act::Snapshot) | None);
    for (i, act) in history.iter().enumerate() {
        let last = i + 1 == history.len();
        match act {
            Act::Snapshot => {
                if let Err(f) = snapshot_and_check(&mut w, &mut tracked, last.then_some(tally)) {
                    if !last {
                        machinery_failure(&format!("a prefix that passed before now fails: {}: {}", f.signature, f.message));
                    }
                    ctx.violation(&f.signature, format!("{}\n  history: {}", f.message, show_history(history)), case_json(history, false));
                    return None;
                }
            }
            edit => {
                if !w.apply_edit(edit) {
                    if !last {
                        machinery_failure("a prefix that was enabled before is not enabled now");
                    }
                    tally.histories_not_enabled.inc();
                    return None;
                }
            }
        }
    }
    let key = state_key(&w, &tracked);
    let actions: Vec<Act> = b.actions.iter().filter(|a| w.enabled(a)).cloned().collect();
    if probe {
        if let Err(f) = snapshot_and_check(&mut w, &mut tracked, Some(tally)) {
            ctx.violation(&f.signature, format!("{}\n  history: {} + closing snapshot", f.message, show_history(history)), case_json(history, true));
            return None;
        }
    }
    if history.len() >= 3 {
        samples.offer(|| case_json(history, probe));
    }
    Some(StepResult { key, actions })
}

fn show_act(a: &Act) -> String {
    match a {
        Act::Write { path, content } => format!("write {path}={content:?}"),
        Act::Chmod { path } => format!("chmod-toggle-x {path}"),
        Act::Link { path, target } => format!("symlink {path}->{target}"),
        Act::Delete { path } => format!("rm -r {path}"),
        Act::Mkdir { path } => format!("replace {path} by empty dir"),
        Act::Ignore { dir, content: Some(c) } => format!("write {}.gitignore={c:?}", if dir.is_empty() { String::new() } else { format!("{dir}/") }),
        Act::Ignore { dir, content: None } => format!("rm {}.gitignore", if dir.is_empty() { String::new() } else { format!("{dir}/") }),
        Act::Snapshot => "snapshot".to_string(),
    }
}

fn show_history(h: &[Act]) -> String {
    h.iter().map(show_act).collect::<Vec<_>>().join("; ")
}

fn main() {
    let ctx = Ctx::from_args("C23", Level::ModelChecking);
    vcommon::silence_panics();
    let tally = Tally::default();
    let samples = Samples::new(6);
    let full = Bounds { actions: vec![], max_depth: usize::MAX };
    if let Some((_sig, case)) = ctx.replay_case() {
        let history: Vec<Act> = case["history"].as_array().unwrap_or_else(|| machinery_failure("replay: no history")).iter().map(act_from_json).collect();
        let probe = case["closing_probe_snapshot"].as_bool().unwrap_or(false);
        let probe_depth = if probe { 0 } else { usize::MAX };
        if step(&ctx, &tally, &samples, &full, &history, probe_depth).is_none() && ctx.violation_count() == 0 {
            machinery_failure("the recorded history is not executable");
        }
        if ctx.violation_count() == 0 {
            println!("replay: the case passes");
        }
        ctx.finish(Coverage { evaluations: 1, ..Default::default() });
    }

    let git_cases = validate_matcher_against_git(ctx.scratch());

    // determinism gate: one fixed trace replayed twice gives the same key
    {
        let trace = vec![
            Act::Write { path: "d/g".into(), content: "x".into() },
            Act::Snapshot,
            Act::Link { path: "d".into(), target: "f".into() },
        ];
        let k1 = step(&ctx, &Tally::default(), &Samples::new(0), &full, &trace, usize::MAX).map(|r| r.key);
        let k2 = step(&ctx, &Tally::default(), &Samples::new(0), &full, &trace, usize::MAX).map(|r| r.key);
        if k1 != k2 || k1.is_none() {
            if ctx.violation_count() == 0 {
                machinery_failure("replaying the same trace twice gave different states");
            }
        }
    }

    // Searches.
    //  core:        the four paths of the design (plain file, `d` as file or directory, a file in
    //               a directory that can be ignored) with every kind of edit and every ignore file.
    //  ignored-dir: what happens to tracked and new files below a directory that becomes ignored,
    //               including a tracked file whose parent directory is replaced by a file or by a
    //               symlink to another directory; deeper, over a narrow alphabet.
    //  wide:        (thorough) more paths, a third content, three link targets.
    let core = |depth| Bounds {
        actions: product_alphabet(&["f", "d", "d/g", "i/h"], &["x", "y"], &["f", "nowhere"], &["d"], &ROOT_IGNORES, &NESTED_IGNORES),
        max_depth: depth,
    };
    let ignored_dir = |depth| Bounds {
        actions: vec![
            Act::Snapshot,
            w("i/h", "x"),
            w("i/h", "y"),
            w("i/j", "x"),
            w("i/k/g", "x"),
            w("i/k", "x"),
            w("d/g", "yy"),
            rm("i/h"),
            rm("i/k"),
            ln("i/k", "../d"),
            ign("", Some("i/\n")),
            ign("", None),
        ],
        max_depth: depth,
    };
    let wide = |depth| Bounds {
        actions: product_alphabet(
            &["f", "d", "d/g", "i/h", "i/j"],
            &["x", "y", "xx"],
            &["f", "d", "nowhere"],
            &["d", "i"],
            &ROOT_IGNORES,
            &NESTED_IGNORES,
        ),
        max_depth: depth,
    };
    let searches: Vec<(&str, Bounds)> = if ctx.quick() {
        vec![("core", core(3)), ("ignored-dir", ignored_dir(6))]
    } else {
        vec![("core", core(5)), ("ignored-dir", ignored_dir(10)), ("wide", wide(4))]
    };
    let mut states = 0;
    let mut transitions = 0;
    let mut exhaustive = true;
    let mut extra: BTreeMap<String, Value> = BTreeMap::new();
    for (name, bounds) in &searches {
        // wall-clock caps per search (a capped search is reported as not exhaustive)
        let cfg = BfsConfig { max_depth: bounds.max_depth, max_states: 50_000_000, max_wall_s: ctx.pick(900.0, if *name == "ignored-dir" { 250.0 } else { 650.0 }) };
        let stats = bfs::search(&cfg, |h: &[Act]| step(&ctx, &tally, &samples, bounds, h, bounds.max_depth), act_label);
        states += stats.states;
        transitions += stats.transitions;
        if stats.capped || stats.max_depth_completed < bounds.max_depth {
            exhaustive = false;
        }
        if ctx.violation_count() == 0 && !stats.capped {
            // every action class of the alphabet was enabled and executed somewhere (every
            // enabled edit changes the disk by construction; edits that undo the previous one
            // legitimately lead back to a known state)
            for a in &bounds.actions {
                let label = act_label(a);
                if stats.per_action.get(&label).is_none_or(|(n, _)| *n == 0) {
                    machinery_failure(&format!("vacuous: action class {label} was never executed in search {name}"));
                }
            }
        }
        extra.insert(
            format!("search_{name}"),
            json!({
                "action_alphabet": bounds.actions.iter().map(show_act).collect::<Vec<_>>(),
                "max_depth": bounds.max_depth,
                "max_depth_completed": stats.max_depth_completed,
                "capped": stats.capped,
                "states": stats.states,
                "transitions": stats.transitions,
                "histories_not_extended_after_a_violation": stats.invalid,
                "per_depth_new_states": stats.per_depth_states,
                "per_action_class_transitions_and_new_states": stats.per_action,
            }),
        );
    }
    let t = &tally;
    let counters = json!({
        "snapshots_checked": t.snapshots_checked.get(),
        "snapshots_changing_the_tree": t.snapshots_changing_tree.get(),
        "snapshots_with_nothing_to_record": t.snapshots_clean.get(),
        "new_files_auto_tracked": t.new_files_tracked.get(),
        "content_changed_same_size": t.content_changed_same_size.get(),
        "content_changed_other_size": t.content_changed_other_size.get(),
        "exec_bit_only_changes": t.exec_bit_only_changes.get(),
        "symlink_retargets": t.symlink_retargets.get(),
        "file_to_symlink": t.file_to_symlink.get(),
        "symlink_to_file": t.symlink_to_file.get(),
        "tracked_paths_gone": t.deletions.get(),
        "file_replaced_by_directory_with_files": t.file_replaced_by_dir.get(),
        "file_replaced_by_empty_directory": t.file_replaced_by_empty_dir.get(),
        "directory_replaced_by_file_or_symlink": t.dir_replaced_by_file.get(),
        "untracked_ignored_files_left_out": t.untracked_ignored_files_skipped.get(),
        "of_which_only_because_a_parent_directory_is_ignored": t.skipped_inside_ignored_dir.get(),
        "of_which_ignore_files_themselves": t.ignore_file_itself_ignored.get(),
        "tracked_files_recorded_although_ignored_now": t.tracked_ignored_files_recorded.get(),
        "tracked_files_inside_ignored_directory_modified": t.tracked_inside_ignored_dir_modified.get(),
        "tracked_files_inside_ignored_directory_deleted": t.tracked_inside_ignored_dir_deleted.get(),
        "new_files_reincluded_by_nested_ignore_file": t.reincluded_by_nested_ignore.get(),
        "symlinks_to_directories_recorded": t.dir_symlinks_recorded.get(),
        "dangling_symlinks_recorded": t.dangling_symlinks_recorded.get(),
        "reference_matcher_verdicts_confirmed_by_git_check_ignore": git_cases,
    });
    if ctx.violation_count() == 0 {
        for (what, c) in [
            ("snapshot that changes the tree", &t.snapshots_changing_tree),
            ("clean snapshot", &t.snapshots_clean),
            ("same-size content change", &t.content_changed_same_size),
            ("exec-bit-only change", &t.exec_bit_only_changes),
            ("file -> symlink", &t.file_to_symlink),
            ("symlink -> file", &t.symlink_to_file),
            ("deleted tracked path", &t.deletions),
            ("file replaced by a directory with files", &t.file_replaced_by_dir),
            ("file replaced by an empty directory", &t.file_replaced_by_empty_dir),
            ("directory replaced by a file", &t.dir_replaced_by_file),
            ("untracked ignored file left out", &t.untracked_ignored_files_skipped),
            ("untracked file inside an ignored directory left out", &t.skipped_inside_ignored_dir),
            ("tracked file recorded although ignored", &t.tracked_ignored_files_recorded),
            ("tracked file inside an ignored directory modified", &t.tracked_inside_ignored_dir_modified),
        ] {
            if c.get() == 0 {
                machinery_failure(&format!("vacuous: no {what}"));
            }
        }
    }
    extra.insert("oracle_counters".into(), counters);
    ctx.finish(Coverage {
        evaluations: t.snapshots_checked.get(),
        distinct_nontrivial: t.snapshots_changing_tree.get(),
        rule: "evaluations = snapshots of the real working copy judged against the directory walk (the last \
               transition of every history whose last action is `snapshot`, plus one closing snapshot behind \
               every history of maximal depth that ends in an edit); non-trivial = those whose expected tree \
               differs from the previous snapshot's"
            .into(),
        samples: samples.take(),
        exhaustive,
        states: Some(states),
        transitions: Some(transitions),
        traces_validated_against_impl: Some(transitions),
        extra,
        assumptions: vec![
            "every history is replayed in a fresh TestWorkspace (Simple backend, tmpfs), exec-bit policy `respect`, EOL conversion off, no fsmonitor, default snapshot options (auto-track everything, no size limit, no base ignores)".into(),
            "edits get strictly increasing mtimes from a logical clock in the past (utimensat, not following symlinks); chmod leaves the mtime alone; the racy same-millisecond window is C26's subject".into(),
            "reference ignore semantics = git's, for the pattern forms name, name/, *, !name; the reference matcher is compared with `git check-ignore --no-index` on every ignore-file combination x path of the alphabet at start-up".into(),
            "state key = disk listing with contents/modes/targets, previous snapshot's tree, and per tracked path whether recorded type/size/mtime equal the disk's".into(),
        ],
        ..Default::default()
    });
}

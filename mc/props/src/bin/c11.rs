//! C11 — Rewrites leave no orphans and references follow.
//!
//! Bounded-exhaustive enumeration of histories: every DAG on n non-root commits (<= 2
//! parents) x change-id pattern x commit-content rotation x every assignment of <= 2
//! rewrite records {rewritten->fresh, rewritten->existing, abandoned, abandoned with
//! other parents, divergent->2 fresh} x bookmark / working-copy placement x every
//! `EmptyBehavior` x `delete_abandoned_bookmarks` x immutable set {none, ::k}, followed
//! by the real `MutableRepo::rebase_descendants_with_options`.
//!
//! The oracle is a set of clauses evaluated on the view and the commit graph after the
//! call, with ancestry computed from the commit objects (never from the index) and the
//! rewrite mapping resolved by a small recursive reference function.

use std::collections::BTreeMap;
use std::collections::HashMap;
use std::collections::HashSet;
use std::sync::Arc;

use jj_lib::backend::CommitId;
use jj_lib::backend::MillisSinceEpoch;
use jj_lib::backend::Signature;
use jj_lib::backend::Timestamp;
use jj_lib::commit::Commit;
use jj_lib::merge::Merge;
use jj_lib::object_id::ObjectId as _;
use jj_lib::op_store::RefTarget;
use jj_lib::ref_name::RefName;
use jj_lib::ref_name::WorkspaceNameBuf;
use jj_lib::repo::MutableRepo;
use jj_lib::repo::ReadonlyRepo;
use jj_lib::repo::Repo as _;
use jj_lib::revset::ResolvedRevsetExpression;
use jj_lib::revset::RevsetExpression;
use jj_lib::rewrite::EmptyBehavior;
use jj_lib::rewrite::RebaseOptions;
use jj_lib::rewrite::RebasedCommit;
use jj_lib::rewrite::RewriteRefsOptions;
use pollster::FutureExt as _;
use rayon::prelude::*;
use serde::Deserialize;
use serde::Serialize;
use serde_json::json;
use testutils::TestRepo;
use testutils::create_tree;
use testutils::repo_path;
use vcommon::Counter;
use vcommon::Coverage;
use vcommon::Ctx;
use vcommon::Level;
use vcommon::Samples;
use vcommon::catch;
use vcommon::enumerate::all_dags;
use vcommon::machinery_failure;

// ---------------------------------------------------------------------------------------
// Case description (self-contained, serialisable: this is what a replay file holds)
// ---------------------------------------------------------------------------------------

const ROOT: i32 = -1;

#[derive(Clone, Debug, Serialize, Deserialize, PartialEq, Eq)]
enum Rec {
    /// `rewrite_commit(x).write()`: same parents, same description, new timestamp.
    Fresh,
    /// `set_rewritten_commit(x, y)` for an existing commit y.
    To(usize),
    /// `record_abandoned_commit(x)`.
    Abandon,
    /// `record_abandoned_commit_with_parents(x, ps)`; -1 = root commit.
    AbandonTo(Vec<i32>),
    /// two fresh rewrites + `set_divergent_rewrite(x, [x2, x3])`.
    Divergent,
}

#[derive(Clone, Debug, Serialize, Deserialize)]
struct BaseSpec {
    /// parents[i] ⊆ 0..i; empty = child of the root commit
    parents: Vec<Vec<usize>>,
    /// (i, j), i < j: commit j is created with the change id of commit i
    dup: Option<(usize, usize)>,
    /// content rotation: kind(i) = (i + rot) % 3; 0 = adds its own file, 1 = sets the
    /// shared file s=1, 2 = empty change and empty description (discardable)
    rot: usize,
}

#[derive(Clone, Debug, Serialize, Deserialize)]
struct Var {
    records: Vec<(usize, Rec)>,
    /// name -> merge terms (adds at even positions); -1 = root
    bookmarks: Vec<(String, Vec<i32>)>,
    wcs: Vec<(String, usize)>,
    /// 0 keep, 1 abandon newly empty, 2 abandon all empty
    empty: u8,
    delete_abandoned: bool,
    /// immutable set = ::k
    immutable: Option<usize>,
}

fn sig(ms: i64) -> Signature {
    Signature {
        name: "Test User".to_string(),
        email: "test.user@example.com".to_string(),
        timestamp: Timestamp {
            timestamp: MillisSinceEpoch(ms),
            tz_offset: 0,
        },
    }
}

// ---------------------------------------------------------------------------------------
// Base repository: the DAG, committed in one transaction
// ---------------------------------------------------------------------------------------

struct Base {
    _test_repo: TestRepo,
    repo: Arc<ReadonlyRepo>,
    commits: Vec<Commit>,
    /// reflexive ancestor masks over 0..n (reference closure of the input DAG)
    anc: Vec<u64>,
}

fn build_base(spec: &BaseSpec) -> Base {
    let n = spec.parents.len();
    let test_repo = TestRepo::init();
    let repo = test_repo.repo.clone();
    let root_id = repo.store().root_commit_id().clone();
    let mut tx = repo.start_transaction();
    let mut commits: Vec<Commit> = vec![];
    let mut trees: Vec<BTreeMap<String, String>> = vec![];
    let mut anc = vec![0u64; n];
    for i in 0..n {
        let mut tree: BTreeMap<String, String> = BTreeMap::new();
        let mut m = 1u64 << i;
        for &p in &spec.parents[i] {
            for (k, v) in &trees[p] {
                tree.insert(k.clone(), v.clone());
            }
            m |= anc[p];
        }
        anc[i] = m;
        let kind = (i + spec.rot) % 3;
        let description = match kind {
            0 => {
                tree.insert(format!("u{i}"), "x".to_string());
                format!("c{i}")
            }
            1 => {
                tree.insert("s".to_string(), "1".to_string());
                format!("c{i}")
            }
            _ => String::new(),
        };
        let entries: Vec<(&jj_lib::repo_path::RepoPath, &str)> = tree
            .iter()
            .map(|(k, v)| (repo_path(k.as_str()), v.as_str()))
            .collect();
        let merged_tree = create_tree(&repo, &entries);
        let parent_ids: Vec<CommitId> = if spec.parents[i].is_empty() {
            vec![root_id.clone()]
        } else {
            spec.parents[i].iter().map(|&p| commits[p].id().clone()).collect()
        };
        let mut builder = tx
            .repo_mut()
            .new_commit(parent_ids, merged_tree)
            .set_description(description)
            .set_author(sig(1_000_000 + i as i64 * 1000))
            .set_committer(sig(1_000_000 + i as i64 * 1000));
        if let Some((a, b)) = spec.dup
            && b == i
        {
            builder = builder.set_change_id(commits[a].change_id().clone());
        }
        let commit = builder
            .write()
            .block_on()
            .unwrap_or_else(|e| machinery_failure(&format!("cannot write base commit: {e}")));
        commits.push(commit);
        trees.push(tree);
    }
    let repo = tx
        .commit("base")
        .block_on()
        .unwrap_or_else(|e| machinery_failure(&format!("cannot commit base: {e}")));
    Base {
        _test_repo: test_repo,
        repo,
        commits,
        anc,
    }
}

// ---------------------------------------------------------------------------------------
// Reference: the rewrite mapping and its resolution
// ---------------------------------------------------------------------------------------

#[derive(Clone, Debug)]
enum T {
    Rew(CommitId),
    Div(Vec<CommitId>),
    Aban(Vec<CommitId>),
}

/// Resolves `id` through the mapping; `follow_div` = references (bookmarks, working
/// copies) follow divergent rewrites, parents do not.
fn resolve(
    t: &HashMap<CommitId, T>,
    id: &CommitId,
    follow_div: bool,
    out: &mut Vec<CommitId>,
    depth: usize,
) {
    if depth > 64 {
        machinery_failure("reference resolve(): cycle in an acyclic mapping");
    }
    match t.get(id) {
        None => {
            if !out.contains(id) {
                out.push(id.clone());
            }
        }
        Some(T::Div(_)) if !follow_div => {
            if !out.contains(id) {
                out.push(id.clone());
            }
        }
        Some(T::Rew(n)) => resolve(t, n, follow_div, out, depth + 1),
        Some(T::Div(ns)) | Some(T::Aban(ns)) => {
            for n in ns {
                resolve(t, n, follow_div, out, depth + 1);
            }
        }
    }
}

fn resolve_all(t: &HashMap<CommitId, T>, id: &CommitId) -> Vec<CommitId> {
    let mut out = vec![];
    resolve(t, id, true, &mut out, 0);
    out
}

fn resolve_parents(t: &HashMap<CommitId, T>, ids: &[CommitId]) -> Vec<CommitId> {
    let mut out = vec![];
    for id in ids {
        resolve(t, id, false, &mut out, 0);
    }
    out
}

/// Record graph on the input DAG: does following record targets (abandon -> parents) from
/// some key come back to it?
fn records_cyclic(spec: &BaseSpec, records: &[(usize, Rec)]) -> bool {
    let n = spec.parents.len();
    let mut edges: Vec<Vec<usize>> = vec![vec![]; n];
    for (x, r) in records {
        match r {
            Rec::To(y) => edges[*x].push(*y),
            Rec::Abandon => edges[*x].extend(spec.parents[*x].iter().copied()),
            Rec::AbandonTo(ps) => {
                edges[*x].extend(ps.iter().filter(|p| **p >= 0).map(|p| *p as usize))
            }
            Rec::Fresh | Rec::Divergent => {}
        }
    }
    // DFS with colours
    fn dfs(v: usize, edges: &[Vec<usize>], col: &mut [u8]) -> bool {
        col[v] = 1;
        for &w in &edges[v] {
            if col[w] == 1 || (col[w] == 0 && dfs(w, edges, col)) {
                return true;
            }
        }
        col[v] = 2;
        false
    }
    let mut col = vec![0u8; n];
    (0..n).any(|v| col[v] == 0 && dfs(v, &edges, &mut col))
}

/// "Forward" cases (the mapping is cyclic once ancestry is taken into account): some
/// record's target must itself be rebased because it descends from a rewritten/abandoned
/// commit that (transitively) maps to it. The one-record form is `set_rewritten_commit(x, y)`
/// with y a descendant of x, which jj's own test `test_rebase_descendants_forward` documents
/// as not supported (the commits between x and y end up twice); with two records the
/// dependency can go through both (x -> y, y below x', x' -> y', y' below x).
///
/// Graph over the input commits: record edges x -> each target (abandon -> parents), and
/// ancestry edges c -> k for every key k with a non-divergent record that is a strict
/// ancestor of c. Record-only cycles are excluded from the enumeration beforehand, so every
/// cycle here uses an ancestry edge. Returns (commits on a cycle, keys whose records lead
/// into a cycle), both as bit masks.
fn forward_region(spec: &BaseSpec, anc: &[u64], records: &[(usize, Rec)]) -> (u64, u64) {
    let n = spec.parents.len();
    let targets = |x: usize| -> Vec<usize> {
        match records.iter().find(|(k, _)| *k == x).map(|(_, r)| r) {
            Some(Rec::To(y)) => vec![*y],
            Some(Rec::Abandon) => spec.parents[x].clone(),
            Some(Rec::AbandonTo(ps)) => {
                ps.iter().filter(|p| **p >= 0).map(|p| *p as usize).collect()
            }
            _ => vec![],
        }
    };
    let rebasing_key = |k: usize| {
        records
            .iter()
            .any(|(x, r)| *x == k && !matches!(r, Rec::Divergent))
    };
    // adjacency as bit masks
    let mut rec_adj = vec![0u64; n];
    let mut adj = vec![0u64; n];
    for c in 0..n {
        for t in targets(c) {
            rec_adj[c] |= 1 << t;
        }
        adj[c] = rec_adj[c];
        for k in 0..n {
            if k != c && anc[c] >> k & 1 == 1 && rebasing_key(k) {
                adj[c] |= 1 << k;
            }
        }
    }
    let closure = |adj: &[u64]| -> Vec<u64> {
        // reach[v] = nodes reachable from v by >= 1 edge
        let mut reach = adj.to_vec();
        loop {
            let mut changed = false;
            for v in 0..n {
                let mut m = reach[v];
                for w in 0..n {
                    if reach[v] >> w & 1 == 1 {
                        m |= reach[w];
                    }
                }
                if m != reach[v] {
                    reach[v] = m;
                    changed = true;
                }
            }
            if !changed {
                return reach;
            }
        }
    };
    let reach = closure(&adj);
    let mut cyc = 0u64;
    for v in 0..n {
        if reach[v] >> v & 1 == 1 {
            cyc |= 1 << v;
        }
    }
    let rec_reach = closure(&rec_adj);
    let mut feeding = 0u64;
    for (k, _) in records {
        if cyc >> *k & 1 == 1 || rec_reach[*k] & cyc != 0 {
            feeding |= 1 << *k;
        }
    }
    (cyc, feeding)
}

// ---------------------------------------------------------------------------------------
// One case: run the real code, evaluate the clauses
// ---------------------------------------------------------------------------------------

#[derive(Default, Clone, Copy)]
struct CaseStats {
    forward: bool,
    rebased: u32,
    policy_abandoned: u32,
    chain: bool,
    bm_moved: u32,
    bm_deleted: u32,
    bm_conflicted: u32,
    bm_conflicted_checked: u32,
    wc_moved: u32,
    wc_recreated: u32,
    immutable_blocked: bool,
    dup_groups: u32,
    merge_rebased: u32,
}

struct CaseResult {
    violations: Vec<(String, String)>,
    stats: CaseStats,
}

fn run_case(base: &Base, spec: &BaseSpec, var: &Var) -> CaseResult {
    let mut viol: Vec<(String, String)> = vec![];
    let mut stats = CaseStats::default();
    let n = base.commits.len();
    let store = base.repo.store().clone();
    let root_id = store.root_commit_id().clone();
    let id_of = |t: i32| -> CommitId {
        if t == ROOT {
            root_id.clone()
        } else {
            base.commits[t as usize].id().clone()
        }
    };
    let (fcyc, ffeeding) = forward_region(spec, &base.anc, &var.records);
    let forward = fcyc != 0;
    stats.forward = forward;
    // In a forward case the suffix is attached only to the clauses the class explains (see
    // on_forward_path); every other clause keeps "-other" so that it is never mistaken
    // for the documented behaviour.
    let fwd = if forward { "/target-descends-from-source-other" } else { "" };
    const FWD: &str = "/target-descends-from-source";
    let below_forward_source = |o: usize| -> bool { base.anc[o] & ffeeding != 0 };
    // the old forward target y stays visible (its own rebased copy sits on it), and with it
    // every old ancestor of y
    let kept_by_forward_target =
        |o: usize| -> bool { (0..n).any(|v| fcyc >> v & 1 == 1 && base.anc[v] >> o & 1 == 1) };
    // A divergent rewrite leaves the old commit and its descendants in place (documented), so
    // when an ancestor of such a commit is rewritten in the same round, the old commit stays
    // on the old ancestor. Violations that are exactly this shape get their own signature.
    const DIVSFX: &str = "/divergent-source-left-on-replaced-ancestor";

    let mut mr = MutableRepo::new(
        base.repo.clone(),
        base.repo.readonly_index(),
        base.repo.view(),
    );
    for (name, terms) in &var.bookmarks {
        let target = if terms.len() == 1 {
            RefTarget::normal(id_of(terms[0]))
        } else {
            RefTarget::from_merge(Merge::from_vec(
                terms.iter().map(|t| Some(id_of(*t))).collect::<Vec<_>>(),
            ))
        };
        let name: &RefName = name.as_str().as_ref();
        mr.set_local_bookmark_target(name, target);
    }
    for (ws, i) in &var.wcs {
        mr.set_wc_commit(WorkspaceNameBuf::from(ws.as_str()), id_of(*i as i32))
            .unwrap_or_else(|_| machinery_failure("set_wc_commit(root)"));
    }

    // --- the records ---
    let mut t: HashMap<CommitId, T> = HashMap::new();
    let mut origin: HashMap<CommitId, usize> = HashMap::new();
    for (i, c) in base.commits.iter().enumerate() {
        origin.insert(c.id().clone(), i);
    }
    let mut fresh: Vec<(CommitId, CommitId)> = vec![]; // (new, old)
    let mut clock = 2_000_000_000i64;
    let mut write_fresh = |mr: &mut MutableRepo, c: &Commit| -> Commit {
        clock += 1000;
        mr.rewrite_commit(c)
            .set_committer(sig(clock))
            .write()
            .block_on()
            .unwrap_or_else(|e| machinery_failure(&format!("cannot write fresh rewrite: {e}")))
    };
    let setup = catch(|| {
        for (x, rec) in &var.records {
            let cx = &base.commits[*x];
            match rec {
                Rec::Fresh => {
                    let c = write_fresh(&mut mr, cx);
                    origin.insert(c.id().clone(), *x);
                    fresh.push((c.id().clone(), cx.id().clone()));
                    t.insert(cx.id().clone(), T::Rew(c.id().clone()));
                }
                Rec::To(y) => {
                    mr.set_rewritten_commit(cx.id().clone(), base.commits[*y].id().clone());
                    t.insert(cx.id().clone(), T::Rew(base.commits[*y].id().clone()));
                }
                Rec::Abandon => {
                    mr.record_abandoned_commit(cx);
                    t.insert(cx.id().clone(), T::Aban(cx.parent_ids().to_vec()));
                }
                Rec::AbandonTo(ps) => {
                    let ids: Vec<CommitId> = ps.iter().map(|p| id_of(*p)).collect();
                    mr.record_abandoned_commit_with_parents(cx.id().clone(), ids.clone());
                    t.insert(cx.id().clone(), T::Aban(ids));
                }
                Rec::Divergent => {
                    let c2 = write_fresh(&mut mr, cx);
                    let c3 = write_fresh(&mut mr, cx);
                    for c in [&c2, &c3] {
                        origin.insert(c.id().clone(), *x);
                        fresh.push((c.id().clone(), cx.id().clone()));
                    }
                    mr.set_divergent_rewrite(
                        cx.id().clone(),
                        vec![c2.id().clone(), c3.id().clone()],
                    );
                    t.insert(
                        cx.id().clone(),
                        T::Div(vec![c2.id().clone(), c3.id().clone()]),
                    );
                }
            }
        }
    });
    if let Err(e) = setup {
        viol.push((format!("C11/record/panic{fwd}"), format!("recording the rewrites panicked: {e}")));
        return CaseResult { violations: viol, stats };
    }
    let record_keys: HashSet<CommitId> = t.keys().cloned().collect();

    // --- the call under test ---
    let immutable: Arc<ResolvedRevsetExpression> = match var.immutable {
        None => RevsetExpression::none(),
        Some(k) => RevsetExpression::commit(base.commits[k].id().clone()).ancestors(),
    };
    let empty = match var.empty {
        0 => EmptyBehavior::Keep,
        1 => EmptyBehavior::AbandonNewlyEmpty,
        _ => EmptyBehavior::AbandonAllEmpty,
    };
    let options = RebaseOptions {
        empty,
        rewrite_refs: RewriteRefsOptions {
            delete_abandoned_bookmarks: var.delete_abandoned,
        },
        simplify_ancestor_merge: false,
    };
    let mut callbacks: Vec<(Commit, RebasedCommit)> = vec![];
    let res = catch(|| {
        mr.rebase_descendants_with_options(&immutable, &options, |old, new| {
            callbacks.push((old, new));
        })
        .block_on()
    });
    match res {
        Err(e) => {
            let sfx = if forward
                && (e.contains("graph has cycle") || e.contains("because of cycle in the parent mapping"))
            {
                FWD
            } else if e.contains("RewriteRootCommit")
                && wc_follows_rewrite_to_root(base, var, &t, &callbacks, &root_id)
            {
                "/working-copy-follows-rewrite-to-root"
            } else {
                fwd
            };
            viol.push((
                format!("C11/rebase/panic{sfx}"),
                format!("rebase_descendants_with_options panicked: {e}"),
            ));
            return CaseResult { violations: viol, stats };
        }
        Ok(Err(e)) => {
            let fwd = if forward && format!("{e}").contains("Cycle between rewritten commits") {
                FWD
            } else {
                fwd
            };
            viol.push((
                format!("C11/rebase/error{fwd}"),
                format!("rebase_descendants_with_options failed on an acyclic mapping: {e}"),
            ));
            return CaseResult { violations: viol, stats };
        }
        Ok(Ok(())) => {}
    }
    if mr.has_rewrites() {
        viol.push((
            "C11/rebase/mapping-not-cleared".into(),
            "has_rewrites() is still true after rebase_descendants_with_options".into(),
        ));
    }
    let consumed = catch(|| mr.consume().block_on());
    let (_index, view, predecessors) = match consumed {
        Ok(Ok(x)) => x,
        Ok(Err(e)) => {
            viol.push((format!("C11/consume/error{fwd}"), format!("{e}")));
            return CaseResult { violations: viol, stats };
        }
        Err(e) => {
            viol.push((format!("C11/consume/panic{fwd}"), e));
            return CaseResult { violations: viol, stats };
        }
    };

    // --- total mapping: records + what the rebase reported ---
    let mut images: HashSet<CommitId> = HashSet::new();
    for (old, new) in &callbacks {
        if t.contains_key(old.id()) {
            viol.push((
                format!("C11/rebase/visited-twice-or-key{fwd}"),
                format!("commit {} was rebased although it already had a record", label(base, &origin, old.id())),
            ));
            continue;
        }
        match new {
            RebasedCommit::Rewritten(c) => {
                if let Some(o) = origin.get(old.id()).copied() {
                    origin.insert(c.id().clone(), o);
                }
                images.insert(c.id().clone());
                t.insert(old.id().clone(), T::Rew(c.id().clone()));
                stats.rebased += 1;
                if old.parent_ids().len() > 1 {
                    stats.merge_rebased += 1;
                }
            }
            RebasedCommit::Abandoned { parent_id } => {
                t.insert(old.id().clone(), T::Aban(vec![parent_id.clone()]));
                stats.policy_abandoned += 1;
            }
        }
    }
    let get = |id: &CommitId| -> Commit {
        store
            .get_commit(id)
            .unwrap_or_else(|e| machinery_failure(&format!("cannot read commit {id}: {e}")))
    };

    // visible set from the commit objects
    let mut visible: HashSet<CommitId> = HashSet::new();
    let mut stack: Vec<CommitId> = view.heads().iter().cloned().collect();
    while let Some(id) = stack.pop() {
        if visible.insert(id.clone()) {
            stack.extend(get(&id).parent_ids().iter().cloned());
        }
    }
    // immutable set ::k (closure of the input DAG) + root
    let mut immut: HashSet<CommitId> = HashSet::new();
    if let Some(k) = var.immutable {
        immut.insert(root_id.clone());
        for i in 0..n {
            if base.anc[k] >> i & 1 == 1 {
                immut.insert(base.commits[i].id().clone());
            }
        }
    }
    let lab = |id: &CommitId| label(base, &origin, id);
    let replaced = |id: &CommitId| matches!(t.get(id), Some(T::Rew(_)) | Some(T::Aban(_)));

    // ---- clause 1: no visible commit (outside the immutable set) descends from a rewritten or
    // abandoned commit. Because the visible set is ancestor-closed, it is enough to look at
    // every visible commit's parents, and at the heads themselves.
    for id in &visible {
        if immut.contains(id) {
            if get(id).parent_ids().iter().any(|p| replaced(p)) {
                stats.immutable_blocked = true;
            }
            continue;
        }
        for p in get(id).parent_ids() {
            if replaced(p) {
                // both ends derive from input commits in the region the forward rewrite
                // disturbs: ancestors of the (kept) old target or descendants of the source
                let in_region = |c: &CommitId| {
                    origin
                        .get(c)
                        .is_some_and(|&o| kept_by_forward_target(o) || below_forward_source(o))
                };
                let explained_by_forward = forward && in_region(id) && in_region(p);
                let sfx = if explained_by_forward {
                    FWD
                } else if matches!(t.get(id), Some(T::Div(_)))
                    || (replaced(id)
                        && t.iter().any(|(d, kind)| {
                            matches!(kind, T::Div(_)) && visible.contains(d) && is_ancestor(&get, id, d)
                        }))
                {
                    DIVSFX
                } else {
                    fwd
                };
                viol.push((
                    format!("C11/orphan/visible-child-of-replaced{sfx}"),
                    format!(
                        "visible commit {} still has the rewritten/abandoned commit {} as parent",
                        lab(id),
                        lab(p)
                    ),
                ));
            }
        }
    }
    for h in view.heads() {
        if replaced(h) && !immut.contains(h) {
            viol.push((
                format!("C11/orphan/replaced-commit-is-head{fwd}"),
                format!("rewritten/abandoned commit {} is still a visible head", lab(h)),
            ));
        }
    }
    // ---- clause 1b: nothing is lost: every input commit without a record is still visible or has
    // been rebased (or abandoned by the empty-commit policy, never under Keep).
    for (i, c) in base.commits.iter().enumerate() {
        if record_keys.contains(c.id()) {
            continue;
        }
        match t.get(c.id()) {
            None => {
                if !visible.contains(c.id()) {
                    viol.push((
                        format!("C11/lost/descendant-dropped{fwd}"),
                        format!("commit c{i} has no record, was not rebased, and is no longer visible"),
                    ));
                }
            }
            Some(T::Rew(newid)) => {
                // its image (resolved further if the image was itself rebased) is visible
                for r in resolve_parents(&t, std::slice::from_ref(newid)) {
                    if !visible.contains(&r) {
                        viol.push((
                            format!("C11/lost/image-hidden{fwd}"),
                            format!("commit c{i} was rebased to {} which is not visible", lab(&r)),
                        ));
                    }
                }
            }
            Some(T::Aban(_)) => {
                if var.empty == 0 {
                    viol.push((
                        format!("C11/lost/abandoned-under-keep{fwd}"),
                        format!("commit c{i} was abandoned during the rebase although EmptyBehavior::Keep was requested"),
                    ));
                }
            }
            Some(T::Div(_)) => {}
        }
    }
    // ---- clause 2: rebased commits keep change id and description, record the predecessor, and
    // sit on the rewritten parents.
    for (old, new) in &callbacks {
        match new {
            RebasedCommit::Rewritten(c) => {
                if c.change_id() != old.change_id() {
                    viol.push((
                        "C11/rebased/change-id".into(),
                        format!("rebased {} has a different change id than its source", lab(c.id())),
                    ));
                }
                if c.description() != old.description() {
                    viol.push((
                        "C11/rebased/description".into(),
                        format!("rebased {} has description {:?}, source had {:?}", lab(c.id()), c.description(), old.description()),
                    ));
                }
                if predecessors.get(c.id()).map(|v| v.as_slice()) != Some(std::slice::from_ref(old.id())) {
                    viol.push((
                        "C11/rebased/predecessor".into(),
                        format!("commit_predecessors of rebased {} is {:?}, expected exactly its source", lab(c.id()), predecessors.get(c.id()).map(|v| v.len())),
                    ));
                }
                if !forward {
                    let expect = resolve_parents(&t, old.parent_ids());
                    if c.parent_ids() != expect.as_slice() {
                        viol.push((
                            "C11/rebased/parents".into(),
                            format!(
                                "rebased {} has parents {:?}, the rewritten parents of its source are {:?}",
                                lab(c.id()),
                                c.parent_ids().iter().map(&lab).collect::<Vec<_>>(),
                                expect.iter().map(&lab).collect::<Vec<_>>()
                            ),
                        ));
                    }
                }
            }
            RebasedCommit::Abandoned { parent_id } => {
                if !forward {
                    let mut t2 = t.clone();
                    t2.remove(old.id());
                    let expect = resolve_parents(&t2, old.parent_ids());
                    // the recorded parent may itself have been resolved further
                    let got = resolve_parents(&t2, std::slice::from_ref(parent_id));
                    if expect != got {
                        viol.push((
                            "C11/rebased/abandoned-parent".into(),
                            format!(
                                "{} was abandoned onto {:?}, the rewritten parents of its source are {:?}",
                                lab(old.id()),
                                got.iter().map(&lab).collect::<Vec<_>>(),
                                expect.iter().map(&lab).collect::<Vec<_>>()
                            ),
                        ));
                    }
                }
            }
        }
    }
    for (newid, oldid) in &fresh {
        if predecessors.get(newid).map(|v| v.as_slice()) != Some(std::slice::from_ref(oldid)) {
            viol.push((
                "C11/fresh/predecessor".into(),
                format!("commit_predecessors of the fresh rewrite of {} does not name it", lab(oldid)),
            ));
        }
        let (c_new, c_old) = (get(newid), get(oldid));
        if c_new.change_id() != c_old.change_id() || c_new.description() != c_old.description() {
            viol.push((
                "C11/fresh/identity".into(),
                format!("fresh rewrite of {} changed change id or description", lab(oldid)),
            ));
        }
    }
    if t.values().any(|v| match v {
        T::Rew(x) => t.contains_key(x),
        T::Div(xs) | T::Aban(xs) => xs.iter().any(|x| t.contains_key(x)),
    }) {
        stats.chain = true;
    }

    // ---- clause 3a: bookmarks
    for (name, terms) in &var.bookmarks {
        let rn: &RefName = name.as_str().as_ref();
        let got = view.get_local_bookmark(rn);
        if terms.len() == 1 {
            let x = id_of(terms[0]);
            match t.get(&x) {
                None => {
                    if got.as_normal() != Some(&x) {
                        viol.push((
                            format!("C11/bookmark/untouched-moved{fwd}"),
                            format!("bookmark {name} at the untouched commit {} changed", lab(&x)),
                        ));
                    }
                }
                Some(kind) => {
                    if var.delete_abandoned && matches!(kind, T::Aban(_)) {
                        stats.bm_deleted += 1;
                        if got.is_present() {
                            viol.push((
                                format!("C11/bookmark/abandoned-not-deleted{fwd}"),
                                format!("bookmark {name} at abandoned {} was not deleted although deletion was requested", lab(&x)),
                            ));
                        }
                        continue;
                    }
                    let ids = resolve_all(&t, &x);
                    let kind_name = match kind {
                        T::Rew(_) => "rewritten",
                        T::Aban(_) => "abandoned",
                        T::Div(_) => "divergent",
                    };
                    stats.bm_moved += 1;
                    if ids.len() == 1 {
                        if got.as_normal() != Some(&ids[0]) {
                            viol.push((
                                format!("C11/bookmark/{kind_name}{fwd}"),
                                format!(
                                    "bookmark {name} was at {kind_name} {}, expected at {}, found {}",
                                    lab(&x),
                                    lab(&ids[0]),
                                    show_target(base, &origin, got)
                                ),
                            ));
                        }
                    } else {
                        stats.bm_conflicted += 1;
                        let mut adds: Vec<CommitId> = got.added_ids().cloned().collect();
                        let mut exp = ids.clone();
                        adds.sort();
                        exp.sort();
                        let removes_ok = got.removed_ids().all(|r| *r == x)
                            && got.removed_ids().count() == ids.len() - 1;
                        if adds != exp || !removes_ok {
                            viol.push((
                                format!("C11/bookmark/{kind_name}-multi{fwd}"),
                                format!(
                                    "bookmark {name} was at {kind_name} {}, expected a conflict adding {:?} and removing it, found {}",
                                    lab(&x),
                                    ids.iter().map(&lab).collect::<Vec<_>>(),
                                    show_target(base, &origin, got)
                                ),
                            ));
                        }
                    }
                }
            }
        } else {
            // conflicted input: allowed-set oracle (ancestry-based simplification is C12's subject)
            stats.bm_conflicted_checked += 1;
            let mut allowed: HashSet<CommitId> = HashSet::new();
            for (pos, term) in terms.iter().enumerate() {
                if pos % 2 == 1 {
                    continue;
                }
                let a = id_of(*term);
                match t.get(&a) {
                    None => {
                        allowed.insert(a);
                    }
                    Some(kind) => {
                        if var.delete_abandoned && matches!(kind, T::Aban(_)) {
                            continue;
                        }
                        allowed.extend(resolve_all(&t, &a));
                    }
                }
            }
            for a in got.added_ids() {
                if !allowed.contains(a) {
                    viol.push((
                        format!("C11/bookmark/conflicted-side{fwd}"),
                        format!(
                            "conflicted bookmark {name} {:?} ends with side {} which is neither an untouched side nor the rewrite of one; found {}",
                            terms,
                            lab(a),
                            show_target(base, &origin, got)
                        ),
                    ));
                }
            }
        }
    }
    // ---- clause 3b: working copies
    let input_ids: HashSet<CommitId> = origin.keys().cloned().collect();
    for (ws, i) in &var.wcs {
        let x = id_of(*i as i32);
        let got = view.get_wc_commit_id(WorkspaceNameBuf::from(ws.as_str()).as_ref());
        let Some(got) = got else {
            viol.push((format!("C11/wc/removed{fwd}"), format!("workspace {ws} disappeared")));
            continue;
        };
        match t.get(&x) {
            None => {
                if *got != x {
                    viol.push((
                        format!("C11/wc/untouched-moved{fwd}"),
                        format!("workspace {ws} at untouched {} moved to {}", lab(&x), lab(got)),
                    ));
                }
            }
            Some(T::Rew(_)) | Some(T::Div(_)) => {
                stats.wc_moved += 1;
                let ids = resolve_all(&t, &x);
                if !ids.contains(got) {
                    viol.push((
                        format!("C11/wc/rewritten{fwd}"),
                        format!(
                            "workspace {ws} was at rewritten {}, expected at one of {:?}, found {}",
                            lab(&x),
                            ids.iter().map(&lab).collect::<Vec<_>>(),
                            lab(got)
                        ),
                    ));
                }
            }
            Some(T::Aban(_)) => {
                stats.wc_recreated += 1;
                let ids = resolve_all(&t, &x);
                let c = get(got);
                if input_ids.contains(got) || images.contains(got) {
                    viol.push((
                        format!("C11/wc/abandoned-not-new-commit{fwd}"),
                        format!(
                            "workspace {ws} was at abandoned {}: expected a new commit on {:?}, found the existing commit {}",
                            lab(&x),
                            ids.iter().map(&lab).collect::<Vec<_>>(),
                            lab(got)
                        ),
                    ));
                } else if c.parent_ids() != ids.as_slice() {
                    viol.push((
                        format!("C11/wc/abandoned-parents{fwd}"),
                        format!(
                            "workspace {ws} was at abandoned {}: new working-copy commit has parents {:?}, expected {:?}",
                            lab(&x),
                            c.parent_ids().iter().map(&lab).collect::<Vec<_>>(),
                            ids.iter().map(&lab).collect::<Vec<_>>()
                        ),
                    ));
                }
            }
        }
    }
    // ---- clause 4: change ids are shared only where a divergent record or the input says so
    let mut by_change: HashMap<Vec<u8>, Vec<CommitId>> = HashMap::new();
    for id in &visible {
        if immut.contains(id) || *id == root_id {
            continue;
        }
        by_change
            .entry(get(id).change_id().as_bytes().to_vec())
            .or_default()
            .push(id.clone());
    }
    let rec_of = |x: usize| var.records.iter().find(|(k, _)| *k == x).map(|(_, r)| r);
    for group in by_change.values() {
        if group.len() < 2 {
            continue;
        }
        stats.dup_groups += 1;
        for a in 0..group.len() {
            for b in a + 1..group.len() {
                let (oa, ob) = (origin.get(&group[a]), origin.get(&group[b]));
                let explained = match (oa, ob) {
                    (Some(&oa), Some(&ob)) if oa == ob => matches!(rec_of(oa), Some(Rec::Divergent)),
                    (Some(&oa), Some(&ob)) => {
                        spec.dup == Some((oa.min(ob), oa.max(ob)))
                    }
                    _ => false,
                };
                if !explained {
                    // is one of the two a replaced commit that is only visible because a
                    // divergent-rewritten commit (left in place) descends from it?
                    let kept_by_divergent = |r: &CommitId| -> bool {
                        replaced(r)
                            && t.iter().any(|(d, kind)| {
                                matches!(kind, T::Div(_))
                                    && visible.contains(d)
                                    && is_ancestor(&get, r, d)
                            })
                    };
                    let explained_by_forward = forward
                        && matches!((oa, ob), (Some(&oa), Some(&ob)) if oa == ob
                            && (kept_by_forward_target(oa) || below_forward_source(oa)));
                    let sfx = if explained_by_forward {
                        FWD
                    } else if kept_by_divergent(&group[a]) || kept_by_divergent(&group[b]) {
                        DIVSFX
                    } else {
                        fwd
                    };
                    viol.push((
                        format!("C11/change-id/unexplained-duplicate{sfx}"),
                        format!(
                            "visible commits {} and {} share a change id without a divergent record",
                            lab(&group[a]),
                            lab(&group[b])
                        ),
                    ));
                }
            }
        }
    }
    // ---- clause 5: the heads are normalised and cover the references (C10's oracle)
    check_view(base, &origin, &view, &visible, &root_id, &get, &mut viol);

    CaseResult { violations: viol, stats }
}

fn check_view(
    base: &Base,
    origin: &HashMap<CommitId, usize>,
    view: &jj_lib::view::View,
    visible: &HashSet<CommitId>,
    root_id: &CommitId,
    get: &dyn Fn(&CommitId) -> Commit,
    viol: &mut Vec<(String, String)>,
) {
    let heads: Vec<CommitId> = view.heads().iter().cloned().collect();
    if heads.is_empty() {
        viol.push(("C11/heads/empty".into(), "no heads".into()));
    }
    if heads.contains(root_id) && heads.len() > 1 {
        viol.push(("C11/heads/root-with-others".into(), "root is a head next to other heads".into()));
    }
    // antichain: no head is a proper ancestor of another head
    for h in &heads {
        let mut anc: HashSet<CommitId> = HashSet::new();
        let mut stack: Vec<CommitId> = get(h).parent_ids().to_vec();
        while let Some(id) = stack.pop() {
            if anc.insert(id.clone()) {
                stack.extend(get(&id).parent_ids().iter().cloned());
            }
        }
        for g in &heads {
            if g != h && anc.contains(g) {
                viol.push((
                    "C11/heads/not-antichain".into(),
                    format!("head {} is an ancestor of head {}", label(base, origin, g), label(base, origin, h)),
                ));
            }
        }
    }
    for (name, target) in view.local_bookmarks() {
        for id in target.added_ids() {
            if !visible.contains(id) {
                viol.push((
                    "C11/heads/bookmark-target-hidden".into(),
                    format!("bookmark {} points to hidden {}", name.as_str(), label(base, origin, id)),
                ));
            }
        }
    }
    for (ws, id) in view.wc_commit_ids() {
        if !visible.contains(id) {
            viol.push((
                "C11/heads/wc-hidden".into(),
                format!("working copy {} points to hidden {}", ws.as_str(), label(base, origin, id)),
            ));
        }
    }
}

/// Precondition of the known panic: some workspace sits on a commit whose own record is a
/// rewrite (not an abandon) and whose fully resolved replacement list starts with the root
/// commit. The progress callbacks all ran before the panic, so the total mapping is known.
fn wc_follows_rewrite_to_root(
    base: &Base,
    var: &Var,
    records: &HashMap<CommitId, T>,
    callbacks: &[(Commit, RebasedCommit)],
    root_id: &CommitId,
) -> bool {
    let mut t = records.clone();
    for (old, new) in callbacks {
        match new {
            RebasedCommit::Rewritten(c) => {
                t.entry(old.id().clone()).or_insert(T::Rew(c.id().clone()));
            }
            RebasedCommit::Abandoned { parent_id } => {
                t.entry(old.id().clone()).or_insert(T::Aban(vec![parent_id.clone()]));
            }
        }
    }
    var.wcs.iter().any(|(_, i)| {
        let x = base.commits[*i].id();
        matches!(t.get(x), Some(T::Rew(_)) | Some(T::Div(_)))
            && resolve_all(&t, x).first() == Some(root_id)
    })
}

/// Is `a` a strict ancestor of `d` (by commit objects)?
fn is_ancestor(get: &dyn Fn(&CommitId) -> Commit, a: &CommitId, d: &CommitId) -> bool {
    let mut seen: HashSet<CommitId> = HashSet::new();
    let mut stack: Vec<CommitId> = get(d).parent_ids().to_vec();
    while let Some(id) = stack.pop() {
        if id == *a {
            return true;
        }
        if seen.insert(id.clone()) {
            stack.extend(get(&id).parent_ids().iter().cloned());
        }
    }
    false
}

fn label(base: &Base, origin: &HashMap<CommitId, usize>, id: &CommitId) -> String {
    if id == base.repo.store().root_commit_id() {
        return "root".into();
    }
    if let Some(i) = base.commits.iter().position(|c| c.id() == id) {
        return format!("c{i}");
    }
    match origin.get(id) {
        Some(i) => format!("c{i}'[{}]", &id.hex()[..6]),
        None => format!("new[{}]", &id.hex()[..6]),
    }
}

fn show_target(base: &Base, origin: &HashMap<CommitId, usize>, t: &RefTarget) -> String {
    let terms: Vec<String> = t
        .as_merge()
        .iter()
        .map(|x| match x {
            None => "absent".to_string(),
            Some(id) => label(base, origin, id),
        })
        .collect();
    format!("{terms:?}")
}

// ---------------------------------------------------------------------------------------
// Enumeration
// ---------------------------------------------------------------------------------------

fn record_kinds(n: usize, x: usize, parents: &[usize], abandon_pairs: bool) -> Vec<Rec> {
    let mut out = vec![Rec::Fresh];
    for y in 0..n {
        if y != x {
            out.push(Rec::To(y));
        }
    }
    out.push(Rec::Abandon);
    let cands: Vec<i32> = std::iter::once(ROOT)
        .chain((0..n as i32).filter(|y| *y != x as i32))
        .collect();
    let own: Vec<i32> = if parents.is_empty() {
        vec![ROOT]
    } else {
        parents.iter().map(|p| *p as i32).collect()
    };
    for &a in &cands {
        if own != vec![a] {
            out.push(Rec::AbandonTo(vec![a]));
        }
    }
    if abandon_pairs {
        for (ia, &a) in cands.iter().enumerate() {
            for &b in &cands[ia + 1..] {
                // the root commit cannot be one of several parents
                if a != ROOT && own != vec![a, b] {
                    out.push(Rec::AbandonTo(vec![a, b]));
                }
            }
        }
    }
    out.push(Rec::Divergent);
    out
}

fn record_sets(spec: &BaseSpec, max_records: usize, abandon_pairs: bool) -> Vec<Vec<(usize, Rec)>> {
    let n = spec.parents.len();
    let kinds: Vec<Vec<Rec>> = (0..n)
        .map(|x| record_kinds(n, x, &spec.parents[x], abandon_pairs))
        .collect();
    let mut out: Vec<Vec<(usize, Rec)>> = vec![];
    for x in 0..n {
        for r in &kinds[x] {
            out.push(vec![(x, r.clone())]);
        }
    }
    if max_records >= 2 {
        for x in 0..n {
            for y in x + 1..n {
                for r in &kinds[x] {
                    for s in &kinds[y] {
                        out.push(vec![(x, r.clone()), (y, s.clone())]);
                    }
                }
            }
        }
    }
    out
}

/// Reference placement "everything at once": a normal bookmark on every commit, every
/// conflicted bookmark [i, -j, k] (i < k, j any other commit or root), two workspaces on
/// every commit. Bookmarks and workspaces are updated one by one, so this covers every
/// single placement; the sparse placements of part B cover the interplay.
fn refs_all(n: usize) -> (Vec<(String, Vec<i32>)>, Vec<(String, usize)>) {
    let mut bms = vec![];
    for i in 0..n {
        bms.push((format!("m{i}"), vec![i as i32]));
    }
    for i in 0..n as i32 {
        for k in i + 1..n as i32 {
            for j in -1..n as i32 {
                if j != i && j != k {
                    bms.push((format!("x{i}_{}_{k}", if j < 0 { "r".to_string() } else { j.to_string() }), vec![i, j, k]));
                }
            }
        }
    }
    let mut wcs = vec![];
    for i in 0..n {
        wcs.push((format!("wa{i}"), i));
        wcs.push((format!("wb{i}"), i));
    }
    (bms, wcs)
}

/// Sparse placements: b1 none / normal at i; b2 none / conflicted [i,-j,k]; ws1 none / at i;
/// ws2 none / at i' >= ws1 (only if ws1 is set).
fn refs_sparse(n: usize) -> Vec<(Vec<(String, Vec<i32>)>, Vec<(String, usize)>)> {
    let mut b1: Vec<Option<Vec<i32>>> = vec![None];
    for i in 0..n as i32 {
        b1.push(Some(vec![i]));
    }
    let mut b2: Vec<Option<Vec<i32>>> = vec![None];
    for i in 0..n as i32 {
        for k in i + 1..n as i32 {
            for j in -1..n as i32 {
                if j != i && j != k {
                    b2.push(Some(vec![i, j, k]));
                }
            }
        }
    }
    let mut ws: Vec<Vec<(String, usize)>> = vec![vec![]];
    for i in 0..n {
        ws.push(vec![("w1".to_string(), i)]);
        for j in i..n {
            ws.push(vec![("w1".to_string(), i), ("w2".to_string(), j)]);
        }
    }
    let mut out = vec![];
    for a in &b1 {
        for b in &b2 {
            for w in &ws {
                let mut bms = vec![];
                if let Some(a) = a {
                    bms.push(("b1".to_string(), a.clone()));
                }
                if let Some(b) = b {
                    bms.push(("b2".to_string(), b.clone()));
                }
                out.push((bms, w.clone()));
            }
        }
    }
    out
}

struct Totals {
    evals: Counter,
    nontrivial: Counter,
    skipped_cyclic: Counter,
    forward: Counter,
    rebased: Counter,
    merge_rebased: Counter,
    policy_abandoned: Counter,
    chain: Counter,
    bm_moved: Counter,
    bm_deleted: Counter,
    bm_conflicted: Counter,
    bm_conflicted_checked: Counter,
    wc_moved: Counter,
    wc_recreated: Counter,
    immutable_blocked: Counter,
    dup_groups: Counter,
    bases: Counter,
    unclassified_violations: Counter,
}

fn case_json(spec: &BaseSpec, var: &Var) -> serde_json::Value {
    json!({"base": spec, "var": var})
}

fn account(ctx: &Ctx, tot: &Totals, samples: &Samples, spec: &BaseSpec, var: &Var, r: CaseResult) {
    tot.evals.inc();
    let s = r.stats;
    let nt = s.rebased > 0 || s.policy_abandoned > 0 || s.bm_moved > 0 || s.bm_deleted > 0 || s.wc_moved > 0 || s.wc_recreated > 0;
    if nt {
        tot.nontrivial.inc();
        if s.rebased >= 2 && s.chain && samples.wants_more() {
            samples.offer(|| case_json(spec, var));
        }
    }
    if s.forward {
        tot.forward.inc();
    }
    tot.rebased.add(s.rebased as u64);
    tot.merge_rebased.add(s.merge_rebased as u64);
    tot.policy_abandoned.add(s.policy_abandoned as u64);
    if s.chain {
        tot.chain.inc();
    }
    tot.bm_moved.add(s.bm_moved as u64);
    tot.bm_deleted.add(s.bm_deleted as u64);
    tot.bm_conflicted.add(s.bm_conflicted as u64);
    tot.bm_conflicted_checked.add(s.bm_conflicted_checked as u64);
    tot.wc_moved.add(s.wc_moved as u64);
    tot.wc_recreated.add(s.wc_recreated as u64);
    if s.immutable_blocked {
        tot.immutable_blocked.inc();
    }
    tot.dup_groups.add(s.dup_groups as u64);
    let mut seen: HashSet<String> = HashSet::new();
    for (sig, msg) in r.violations {
        if seen.insert(sig.clone()) {
            if !(sig.ends_with("/target-descends-from-source")
                || sig.ends_with("/divergent-source-left-on-replaced-ancestor")
                || sig.ends_with("/working-copy-follows-rewrite-to-root"))
            {
                tot.unclassified_violations.inc();
            }
            ctx.violation(&sig, msg, case_json(spec, var));
        }
    }
}

fn main() {
    let ctx = Ctx::from_args("C11", Level::Exploration);
    vcommon::silence_panics();
    if let Some((_sig, case)) = ctx.replay_case() {
        let spec: BaseSpec = serde_json::from_value(case["base"].clone())
            .unwrap_or_else(|e| machinery_failure(&format!("bad replay case: {e}")));
        let var: Var = serde_json::from_value(case["var"].clone())
            .unwrap_or_else(|e| machinery_failure(&format!("bad replay case: {e}")));
        let base = build_base(&spec);
        let r = run_case(&base, &spec, &var);
        let mut seen: HashSet<String> = HashSet::new();
        for (sig, msg) in r.violations {
            if seen.insert(sig.clone()) {
                ctx.violation(&sig, msg, case_json(&spec, &var));
            }
        }
        ctx.finish(Coverage {
            evaluations: 1,
            ..Default::default()
        });
    }

    // ---- bounds -------------------------------------------------------------------------
    // part A: "all references at once" on the larger graphs
    let a_max_n = ctx.pick(4, 5);
    let a_two_records_max_n = ctx.pick(3, 4);
    let a_dup_max_n = ctx.pick(3, 3);
    let a_abandon_pairs_max_n = ctx.pick(3, 4);
    // part B: explicit sparse reference placement on the smaller graphs
    let b_max_n = ctx.pick(3, 4);
    let b_two_records_max_n = ctx.pick(2, 3);
    let b_conflicted_max_n = 3;

    let tot = Totals {
        evals: Counter::new(),
        nontrivial: Counter::new(),
        skipped_cyclic: Counter::new(),
        forward: Counter::new(),
        rebased: Counter::new(),
        merge_rebased: Counter::new(),
        policy_abandoned: Counter::new(),
        chain: Counter::new(),
        bm_moved: Counter::new(),
        bm_deleted: Counter::new(),
        bm_conflicted: Counter::new(),
        bm_conflicted_checked: Counter::new(),
        wc_moved: Counter::new(),
        wc_recreated: Counter::new(),
        immutable_blocked: Counter::new(),
        dup_groups: Counter::new(),
        bases: Counter::new(),
        unclassified_violations: Counter::new(),
    };
    let samples = Samples::new(5);
    let part_a = Counter::new();
    let part_b = Counter::new();

    // ---- the bases ------------------------------------------------------------------------
    let mut bases: Vec<BaseSpec> = vec![];
    for n in 1..=a_max_n.max(b_max_n) {
        for dag in all_dags(n, 2) {
            for rot in 0..3 {
                bases.push(BaseSpec {
                    parents: dag.parents.clone(),
                    dup: None,
                    rot,
                });
                if n <= a_dup_max_n {
                    for i in 0..n {
                        for j in i + 1..n {
                            bases.push(BaseSpec {
                                parents: dag.parents.clone(),
                                dup: Some((i, j)),
                                rot,
                            });
                        }
                    }
                }
            }
        }
    }
    // largest first, for load balance
    bases.sort_by_key(|b| std::cmp::Reverse(b.parents.len()));

    bases.par_iter().for_each(|spec| {
        let n = spec.parents.len();
        let base = build_base(spec);
        tot.bases.inc();
        // ---------------- part A
        if n <= a_max_n {
            let (bms, wcs) = refs_all(n);
            let max_records = if n <= a_two_records_max_n { 2 } else { 1 };
            let record_sets = record_sets(spec, max_records, n <= a_abandon_pairs_max_n);
            for records in &record_sets {
                if records_cyclic(spec, records) {
                    tot.skipped_cyclic.inc();
                    continue;
                }
                for empty in 0..3u8 {
                    for delete_abandoned in [false, true] {
                        for immutable in std::iter::once(None).chain((0..n).map(Some)) {
                            let var = Var {
                                records: records.clone(),
                                bookmarks: bms.clone(),
                                wcs: wcs.clone(),
                                empty,
                                delete_abandoned,
                                immutable,
                            };
                            let r = run_case(&base, spec, &var);
                            part_a.inc();
                            account(&ctx, &tot, &samples, spec, &var, r);
                        }
                    }
                }
            }
        }
        // ---------------- part B
        if n <= b_max_n && spec.dup.is_none() {
            let max_records = if n <= b_two_records_max_n { 2 } else { 1 };
            let record_sets = record_sets(spec, max_records, false);
            let placements: Vec<_> = refs_sparse(n)
                .into_iter()
                .filter(|(bms, _)| n <= b_conflicted_max_n || bms.iter().all(|(_, t)| t.len() == 1))
                .collect();
            for records in &record_sets {
                if records_cyclic(spec, records) {
                    tot.skipped_cyclic.inc();
                    continue;
                }
                for (bms, wcs) in &placements {
                    for delete_abandoned in [false, true] {
                        let var = Var {
                            records: records.clone(),
                            bookmarks: bms.clone(),
                            wcs: wcs.clone(),
                            empty: 0,
                            delete_abandoned,
                            immutable: None,
                        };
                        let r = run_case(&base, spec, &var);
                        part_b.inc();
                        account(&ctx, &tot, &samples, spec, &var, r);
                    }
                }
            }
        }
    });

    // ---- vacuity: every oracle clause must have been exercised --------------------------
    let vac: Vec<(&str, u64)> = vec![
        ("descendants_rebased", tot.rebased.get()),
        ("merge_commits_rebased", tot.merge_rebased.get()),
        ("abandoned_by_empty_policy", tot.policy_abandoned.get()),
        ("cases_with_transitive_chain", tot.chain.get()),
        ("bookmarks_moved", tot.bm_moved.get()),
        ("bookmarks_deleted", tot.bm_deleted.get()),
        ("bookmarks_became_conflicted", tot.bm_conflicted.get()),
        ("conflicted_bookmarks_checked", tot.bm_conflicted_checked.get()),
        ("working_copies_moved", tot.wc_moved.get()),
        ("working_copies_recreated", tot.wc_recreated.get()),
        ("cases_immutable_kept_child_of_rewritten", tot.immutable_blocked.get()),
        ("shared_change_id_groups_checked", tot.dup_groups.get()),
        ("cases_target_descends_from_source", tot.forward.get()),
    ];
    // (when the run already has violations outside the documented classes, e.g. every case
    // panics, they are the verdict; a zero counter is then a consequence, not vacuity)
    for (name, v) in &vac {
        if *v == 0 && tot.unclassified_violations.get() == 0 {
            machinery_failure(&format!("vacuous run: counter {name} is zero"));
        }
    }
    let mut extra: BTreeMap<String, serde_json::Value> = BTreeMap::new();
    for (name, v) in &vac {
        extra.insert(name.to_string(), json!(v));
    }
    extra.insert("bases_built".into(), json!(tot.bases.get()));
    extra.insert("part_a_cases".into(), json!(part_a.get()));
    extra.insert("part_b_cases".into(), json!(part_b.get()));
    extra.insert("skipped_cyclic_record_sets".into(), json!(tot.skipped_cyclic.get()));
    extra.insert(
        "bounds".into(),
        json!({
            "part_a": {"max_commits": a_max_n, "two_records_up_to": a_two_records_max_n,
                       "duplicate_change_id_pair_up_to": a_dup_max_n,
                       "abandon_onto_two_parents_up_to": a_abandon_pairs_max_n,
                       "empty_behaviors": 3, "delete_abandoned_bookmarks": 2, "immutable": "none + ::k for every k",
                       "content_rotations": 3},
            "part_b": {"max_commits": b_max_n, "two_records_up_to": b_two_records_max_n,
                       "conflicted_bookmark_up_to": b_conflicted_max_n,
                       "empty_behaviors": "keep", "immutable": "none"},
        }),
    );
    let cov = Coverage {
        evaluations: tot.evals.get(),
        distinct_nontrivial: tot.nontrivial.get(),
        rule: "every DAG (<=2 parents) x change-id pattern x content rotation x every acyclic set of <=2 \
               rewrite records x reference placement x EmptyBehavior x delete_abandoned_bookmarks x \
               immutable set, each generated once; non-trivial = at least one descendant was rebased or \
               abandoned, or a bookmark / working copy had to follow a rewrite"
            .into(),
        samples: samples.take(),
        exhaustive: true,
        extra,
        assumptions: vec![
            "record sets whose targets form a cycle are excluded (documented: may panic)".into(),
            "the immutable set is ancestor-closed (::k), as in every caller of rebase_descendants_with_options".into(),
            "ancestry and parents are read from commit objects in the store, never from the index".into(),
            "conflicted input bookmarks are checked with an allowed-set oracle (every remaining side is an untouched side or the rewrite of one); ancestry-based simplification of bookmark conflicts is C12's subject".into(),
            "bookmarks and workspaces are updated independently of each other by the code under test; part A places all of them at once, part B places them sparsely".into(),
            "cases where a record's target descends from its source are reported under their own signatures (jj documents this as unsupported in test_rebase_descendants_forward)".into(),
        ],
        ..Default::default()
    };
    ctx.finish(cov);
}

//! C37 — Bisection finds the first bad commit.
//!
//! Bounded-exhaustive: every DAG on n commits (<= 2 parents) built in a real repository
//! (simple backend), x every non-empty subset of {root, 1..n} as the input range (given as
//! `commits(..)`; additionally every `x::y` and `::y` range in its operator form) x every
//! outcome that is consistent with history (bad set B inside the range, containing the heads
//! of the range -- the bisector assumes them bad -- and closed under descendants inside the
//! range). The environment answers `Bisector::next_step()` from B until the bisector reports
//! a result.
//!
//! Oracle without skips (the statement): terminates; never asks about a commit twice; only
//! asks about commits of the range; reports `Found(F)` with F == the minimal elements of B
//! (the earliest bad commits); on a linear range (totally ordered by ancestry) it asks at most
//! ceil(log2 |range|) + 1 questions. A second family checks the step bound on long chains.
//!
//! Oracle with skips (weaker, from the quantifier text): every skip set S of size <= 2 that
//! avoids the range's heads; the answer for a commit of S is `Skip`. Demanded: terminates, no
//! repeated question, questions inside the range, every commit reported bad is in B and has
//! no parent that is in B, in the range and not in S (no false result).
//!
//! Known deviation (DESIGN.md section 9 item 3): when B has two or more incomparable minimal
//! elements below one head, the bisector reports a strict non-empty subset of them. It gets
//! the narrow signature `C37/multi-minimal/subset` exactly when |min(B)| >= 2, the reported
//! set is a non-empty strict subset of min(B) (hence every reported commit is in min(B)) and
//! every head of the range has a reported commit among its ancestors-or-self (jj reports one
//! first bad commit per disjoint head); a range head left without an answer gets
//! `C37/result/head-without-first-bad`.

use std::collections::BTreeMap;
use std::collections::BTreeSet;
use std::collections::HashMap;
use std::sync::Arc;

use jj_lib::backend::CommitId;
use jj_lib::backend::MillisSinceEpoch;
use jj_lib::backend::Signature;
use jj_lib::backend::Timestamp;
use jj_lib::bisect::BisectionResult;
use jj_lib::bisect::Bisector;
use jj_lib::bisect::Evaluation;
use jj_lib::bisect::NextStep;
use jj_lib::repo::ReadonlyRepo;
use jj_lib::repo::Repo;
use jj_lib::revset::ResolvedRevsetExpression;
use pollster::FutureExt as _;
use rayon::prelude::*;
use serde::Deserialize;
use serde::Serialize;
use serde_json::Value;
use serde_json::json;
use testutils::TestRepo;
use vcommon::Counter;
use vcommon::Coverage;
use vcommon::Ctx;
use vcommon::Level;
use vcommon::Samples;
use vcommon::catch;
use vcommon::enumerate::all_dags;
use vcommon::machinery_failure;

type Rx = ResolvedRevsetExpression;

// ---------------------------------------------------------------------------------------
// Reference graph
// ---------------------------------------------------------------------------------------

/// Node 0 is the root commit; nodes 1..=n are created in increasing order.
struct G {
    n: usize,
    parents: Vec<Vec<usize>>,
    /// anc[d][a]: a is an ancestor of d (reflexive)
    anc: Vec<Vec<bool>>,
}

impl G {
    /// `parents[k]` = parents of node k + 1
    fn new(spec: &[Vec<usize>]) -> G {
        let n = spec.len();
        let mut parents = vec![vec![]];
        parents.extend(spec.iter().cloned());
        let mut anc = vec![vec![false; n + 1]; n + 1];
        for i in 0..=n {
            anc[i][i] = true;
            for &p in &parents[i].clone() {
                if p >= i {
                    machinery_failure("graph spec is not topologically numbered");
                }
                for a in 0..=n {
                    if anc[p][a] {
                        anc[i][a] = true;
                    }
                }
            }
        }
        G { n, parents, anc }
    }

    fn spec(&self) -> Vec<Vec<usize>> {
        self.parents[1..].to_vec()
    }

    fn is_anc(&self, a: usize, d: usize) -> bool {
        self.anc[d][a]
    }

    /// members of `s` without a proper descendant in `s`
    fn heads_of(&self, s: &[usize]) -> Vec<usize> {
        s.iter().copied().filter(|&c| !s.iter().any(|&d| d != c && self.is_anc(c, d))).collect()
    }

    /// members of `s` without a proper ancestor in `s`
    fn minimal_of(&self, s: &[usize]) -> Vec<usize> {
        s.iter().copied().filter(|&c| !s.iter().any(|&a| a != c && self.is_anc(a, c))).collect()
    }

    fn is_chain(&self, s: &[usize]) -> bool {
        s.iter().all(|&a| s.iter().all(|&b| self.is_anc(a, b) || self.is_anc(b, a)))
    }

    /// is `s` convex (every commit between two members is a member)?
    fn is_convex(&self, s: &[usize]) -> bool {
        (0..=self.n).all(|m| {
            s.contains(&m)
                || !(s.iter().any(|&a| self.is_anc(a, m)) && s.iter().any(|&d| self.is_anc(m, d)))
        })
    }
}

fn bits(m: u32) -> Vec<usize> {
    (0..32).filter(|&i| m >> i & 1 == 1).collect()
}

fn ceil_log2(n: usize) -> usize {
    let mut k = 0;
    while (1usize << k) < n {
        k += 1;
    }
    k
}

// ---------------------------------------------------------------------------------------
// Cases
// ---------------------------------------------------------------------------------------

#[derive(Clone, Debug, Serialize, Deserialize, PartialEq, Eq)]
enum RangeForm {
    /// `commits(range)`
    Commits,
    /// `x::y`
    DagRange(usize, usize),
    /// `::y`
    Ancestors(usize),
}

#[derive(Clone, Debug, Serialize, Deserialize)]
struct Case {
    /// parents of node k + 1 (node 0 = root)
    graph: Vec<Vec<usize>>,
    form: RangeForm,
    /// the commits of the range (what `form` must evaluate to)
    range: Vec<usize>,
    /// the bad commits
    bad: Vec<usize>,
    /// commits answered with Skip
    skip: Vec<usize>,
}

struct Fail {
    sig: String,
    msg: String,
}

#[derive(Debug, Clone, PartialEq, Eq)]
enum Res {
    Found(Vec<usize>),
    Despite { bad: Vec<usize>, possibly_bad: Vec<usize> },
    Indeterminate,
    Abort,
}

struct Outcome {
    asked: Vec<usize>,
    res: Res,
    /// the range the bisector starts from, as evaluated by the real engine
    range_seen: Vec<usize>,
}

struct Ids {
    ids: Vec<CommitId>,
    map: HashMap<CommitId, usize>,
}

impl Ids {
    fn node(&self, id: &CommitId) -> Result<usize, String> {
        self.map.get(id).copied().ok_or_else(|| format!("unknown commit {id}"))
    }
}

fn range_expr(form: &RangeForm, range: &[usize], ids: &Ids) -> Arc<Rx> {
    match form {
        RangeForm::Commits => Rx::commits(range.iter().map(|&i| ids.ids[i].clone()).collect()),
        RangeForm::DagRange(x, y) => {
            Rx::commit(ids.ids[*x].clone()).dag_range_to(&Rx::commit(ids.ids[*y].clone()))
        }
        RangeForm::Ancestors(y) => Rx::commit(ids.ids[*y].clone()).ancestors(),
    }
}

/// Drives the real bisector; the environment answers from `bad` / `skip`.
fn drive(repo: &dyn Repo, ids: &Ids, case: &Case, cap: usize) -> Result<Outcome, String> {
    use futures::StreamExt as _;
    let expr = range_expr(&case.form, &case.range, ids);
    let seen: Vec<_> = expr
        .clone()
        .evaluate(repo)
        .map_err(|e| format!("range evaluation: {e}"))?
        .stream()
        .collect::<Vec<_>>()
        .block_on();
    let mut range_seen = vec![];
    for r in seen {
        range_seen.push(ids.node(&r.map_err(|e| format!("range stream: {e}"))?)?);
    }
    range_seen.sort();
    let mut bisector = Bisector::new(repo, expr).block_on().map_err(|e| format!("Bisector::new: {e}"))?;
    let mut asked = vec![];
    loop {
        match bisector.next_step().block_on().map_err(|e| format!("next_step: {e}"))? {
            NextStep::Evaluate(commit) => {
                let node = ids.node(commit.id())?;
                asked.push(node);
                if asked.len() > cap {
                    return Ok(Outcome { asked, res: Res::Abort, range_seen });
                }
                let ev = if case.skip.contains(&node) {
                    Evaluation::Skip
                } else if case.bad.contains(&node) {
                    Evaluation::Bad
                } else {
                    Evaluation::Good
                };
                bisector.mark(commit.id().clone(), ev);
            }
            NextStep::Done(result) => {
                let conv = |v: &[jj_lib::commit::Commit]| -> Result<Vec<usize>, String> {
                    v.iter().map(|c| ids.node(c.id())).collect()
                };
                let res = match &result {
                    BisectionResult::Found(f) => Res::Found(conv(f)?),
                    BisectionResult::FoundDespiteSkips { bad_commits, possibly_bad } => {
                        Res::Despite { bad: conv(bad_commits)?, possibly_bad: conv(possibly_bad)? }
                    }
                    BisectionResult::Indeterminate => Res::Indeterminate,
                    BisectionResult::Abort => Res::Abort,
                };
                return Ok(Outcome { asked, res, range_seen });
            }
        }
    }
}

struct CaseInfo {
    questions: usize,
    minimal: usize,
    linear: bool,
    skip_was_asked: bool,
    despite: bool,
}

/// The oracle for one case.
fn check_case(repo: &dyn Repo, g: &G, ids: &Ids, case: &Case) -> Result<CaseInfo, Fail> {
    let range = &case.range;
    let bad = &case.bad;
    let skip = &case.skip;
    // --- the case itself must be well formed (replay files are trusted no further)
    let heads = g.heads_of(range);
    if range.is_empty()
        || !bad.iter().all(|b| range.contains(b))
        || !heads.iter().all(|h| bad.contains(h))
        || !bad.iter().all(|&b| range.iter().all(|&d| !g.is_anc(b, d) || bad.contains(&d)))
        || !skip.iter().all(|s| range.contains(s) && !heads.contains(s))
    {
        machinery_failure(&format!("ill-formed case {case:?}"));
    }
    let with_skips = !skip.is_empty();
    let pre = if with_skips { "C37/skip" } else { "C37" };
    let min_b = g.minimal_of(bad);
    let show = format!(
        "graph {:?}, range {:?} ({:?}), bad {:?}, skip {:?}",
        case.graph,
        range,
        case.form,
        bad,
        skip
    );
    let cap = range.len() + 2;
    let out = catch(|| drive(repo, ids, case, cap))
        .map_err(|p| Fail { sig: format!("{pre}/panic"), msg: format!("{show}: bisector panicked: {p}") })?
        .map_err(|e| Fail { sig: format!("{pre}/error"), msg: format!("{show}: {e}") })?;
    if out.range_seen != *range {
        // the range expression does not denote the intended set: a harness problem (or a
        // revset problem, which is C19's subject), not a verdict about bisection
        machinery_failure(&format!("{show}: the engine evaluates the range to {:?}", out.range_seen));
    }
    let asked = &out.asked;
    if asked.len() > cap {
        return Err(Fail {
            sig: format!("{pre}/no-termination"),
            msg: format!("{show}: still asking after {} questions: {asked:?}", asked.len()),
        });
    }
    let distinct: BTreeSet<usize> = asked.iter().copied().collect();
    if distinct.len() != asked.len() {
        return Err(Fail {
            sig: format!("{pre}/asked-twice"),
            msg: format!("{show}: a commit was asked about twice: {asked:?}"),
        });
    }
    if let Some(&x) = asked.iter().find(|x| !range.contains(x)) {
        return Err(Fail {
            sig: format!("{pre}/asked-outside-range"),
            msg: format!("{show}: asked about n{x}, which is not in the range (questions {asked:?})"),
        });
    }
    let linear = g.is_chain(range);
    let info = |despite: bool| CaseInfo {
        questions: asked.len(),
        minimal: min_b.len(),
        linear,
        skip_was_asked: asked.iter().any(|a| skip.contains(a)),
        despite,
    };
    if with_skips {
        // weaker clause: no false result
        let (reported, possibly, despite) = match &out.res {
            Res::Found(f) => (f.clone(), vec![], false),
            Res::Despite { bad, possibly_bad } => (bad.clone(), possibly_bad.clone(), true),
            Res::Indeterminate => return Ok(info(false)),
            Res::Abort => {
                return Err(Fail {
                    sig: format!("{pre}/result/abort"),
                    msg: format!("{show}: result Abort although nothing was aborted (questions {asked:?})"),
                });
            }
        };
        for &r in &reported {
            if !bad.contains(&r) {
                return Err(Fail {
                    sig: format!("{pre}/result/good-commit-reported"),
                    msg: format!("{show}: n{r} is reported as first bad but it is good (result {:?}, questions {asked:?})", out.res),
                });
            }
            if let Some(&p) = g.parents[r].iter().find(|&&p| range.contains(&p) && bad.contains(&p) && !skip.contains(&p)) {
                return Err(Fail {
                    sig: format!("{pre}/result/bad-unskipped-parent"),
                    msg: format!(
                        "{show}: n{r} is reported as first bad but its parent n{p} is bad, in the range and was not skipped (result {:?}, questions {asked:?})",
                        out.res
                    ),
                });
            }
        }
        if let Some(&p) = possibly.iter().find(|p| !skip.contains(p)) {
            return Err(Fail {
                sig: format!("{pre}/result/possibly-bad-not-skipped"),
                msg: format!("{show}: n{p} is listed as possibly bad (skipped) but was never skipped (result {:?})", out.res),
            });
        }
        return Ok(info(despite));
    }
    // --- the statement proper (no skips)
    let found = match &out.res {
        Res::Found(f) => f.clone(),
        other => {
            return Err(Fail {
                sig: "C37/result/not-found".into(),
                msg: format!("{show}: result {other:?} instead of Found (questions {asked:?})"),
            });
        }
    };
    let found_set: BTreeSet<usize> = found.iter().copied().collect();
    let min_set: BTreeSet<usize> = min_b.iter().copied().collect();
    if found_set.len() != found.len() {
        return Err(Fail {
            sig: "C37/result/duplicates".into(),
            msg: format!("{show}: Found lists a commit twice: {found:?}"),
        });
    }
    if let Some(&r) = found.iter().find(|r| !bad.contains(r)) {
        return Err(Fail {
            sig: "C37/result/good-commit-reported".into(),
            msg: format!("{show}: Found({found:?}) contains the good commit n{r}; earliest bad commits are {min_b:?} (questions {asked:?})"),
        });
    }
    if let Some(&r) = found.iter().find(|r| !min_set.contains(r)) {
        return Err(Fail {
            sig: "C37/result/not-earliest".into(),
            msg: format!("{show}: Found({found:?}) contains n{r}, which has a bad ancestor in the range; earliest bad commits are {min_b:?} (questions {asked:?})"),
        });
    }
    if found_set.is_empty() {
        return Err(Fail {
            sig: "C37/result/empty".into(),
            msg: format!("{show}: Found([]) although the earliest bad commits are {min_b:?}"),
        });
    }
    if found_set != min_set {
        // here: found is a non-empty strict subset of min(B), so |min(B)| >= 2
        if min_set.len() < 2 || !found_set.is_subset(&min_set) {
            machinery_failure("oracle inconsistency in the subset classification");
        }
        // The known deviation is "one first bad commit per disjoint head of the range": every
        // head of the range must have a reported commit among its ancestors-or-self. An arm of
        // a multi-head range that is left without any answer is a different defect.
        if let Some(&h) = heads.iter().find(|&&h| !found.iter().any(|&r| g.is_anc(r, h))) {
            return Err(Fail {
                sig: "C37/result/head-without-first-bad".into(),
                msg: format!(
                    "{show}: Found({found:?}) reports no first bad commit at or below the range head n{h} (heads {heads:?}); earliest bad commits are {min_b:?} (questions {asked:?})"
                ),
            });
        }
        return Err(Fail {
            sig: "C37/multi-minimal/subset".into(),
            msg: format!(
                "{show}: Found({found:?}) is only part of the earliest bad commits {min_b:?} (questions {asked:?}; the others were never asked about)"
            ),
        });
    }
    if linear {
        let bound = ceil_log2(range.len()) + 1;
        if asked.len() > bound {
            return Err(Fail {
                sig: "C37/linear/too-many-steps".into(),
                msg: format!(
                    "{show}: {} questions on a linear range of {} commits (bound ceil(log2 n) + 1 = {bound}): {asked:?}",
                    asked.len(),
                    range.len()
                ),
            });
        }
    }
    Ok(info(false))
}

// ---------------------------------------------------------------------------------------
// Building repositories
// ---------------------------------------------------------------------------------------

fn signature(ts: i64) -> Signature {
    Signature {
        name: "c37".to_string(),
        email: "c37@example.com".to_string(),
        timestamp: Timestamp { timestamp: MillisSinceEpoch(ts), tz_offset: 0 },
    }
}

struct Built {
    _test_repo: TestRepo,
    repo: Arc<ReadonlyRepo>,
    ids: Ids,
}

fn build(g: &G) -> Built {
    let test_repo = TestRepo::init_with_backend(testutils::TestRepoBackend::Simple);
    let repo0 = test_repo.repo.clone();
    let mut id_list = vec![repo0.store().root_commit_id().clone()];
    let mut tx = repo0.start_transaction();
    for i in 1..=g.n {
        let tree = tx.repo_mut().store().empty_merged_tree();
        let parents: Vec<CommitId> = g.parents[i].iter().map(|&p| id_list[p].clone()).collect();
        let sig = signature(1000 * i as i64);
        let commit = tx
            .repo_mut()
            .new_commit(parents, tree)
            .set_description(format!("n{i}"))
            .set_author(sig.clone())
            .set_committer(sig)
            .write()
            .block_on()
            .unwrap_or_else(|e| machinery_failure(&format!("cannot write commit: {e}")));
        id_list.push(commit.id().clone());
    }
    let repo = tx.commit("c37 graph").block_on().unwrap_or_else(|e| machinery_failure(&format!("commit: {e}")));
    let map: HashMap<CommitId, usize> = id_list.iter().cloned().enumerate().map(|(i, id)| (id, i)).collect();
    if map.len() != id_list.len() {
        machinery_failure("commit ids collide");
    }
    Built { _test_repo: test_repo, repo, ids: Ids { ids: id_list, map } }
}

// ---------------------------------------------------------------------------------------
// Enumeration
// ---------------------------------------------------------------------------------------

struct Stats {
    cases: Counter,
    noskip_cases: Counter,
    skip_cases: Counter,
    nontrivial: Counter,
    questions: Counter,
    graphs: Counter,
    ranges: Counter,
    ranges_multi_head: Counter,
    ranges_nonconvex: Counter,
    ranges_with_merge_inside: Counter,
    ranges_with_root: Counter,
    form_dag_range: Counter,
    form_ancestors: Counter,
    multi_minimal: Counter,
    multi_minimal_full: Counter,
    multi_minimal_subset: Counter,
    linear_cases: Counter,
    linear_at_least_4: Counter,
    skip_asked: Counter,
    skip_despite: Counter,
    skip_found: Counter,
    skip_indeterminate: Counter,
    chain_cases: Counter,
    /// per chain length: max number of questions
    chain_max: std::sync::Mutex<BTreeMap<usize, usize>>,
}

impl Stats {
    fn new() -> Stats {
        Stats {
            cases: Counter::new(),
            noskip_cases: Counter::new(),
            skip_cases: Counter::new(),
            nontrivial: Counter::new(),
            questions: Counter::new(),
            graphs: Counter::new(),
            ranges: Counter::new(),
            ranges_multi_head: Counter::new(),
            ranges_nonconvex: Counter::new(),
            ranges_with_merge_inside: Counter::new(),
            ranges_with_root: Counter::new(),
            form_dag_range: Counter::new(),
            form_ancestors: Counter::new(),
            multi_minimal: Counter::new(),
            multi_minimal_full: Counter::new(),
            multi_minimal_subset: Counter::new(),
            linear_cases: Counter::new(),
            linear_at_least_4: Counter::new(),
            skip_asked: Counter::new(),
            skip_despite: Counter::new(),
            skip_found: Counter::new(),
            skip_indeterminate: Counter::new(),
            chain_cases: Counter::new(),
            chain_max: std::sync::Mutex::new(BTreeMap::new()),
        }
    }
}

struct Run<'a> {
    ctx: &'a Ctx,
    st: &'a Stats,
    samples: &'a Samples,
}

impl Run<'_> {
    fn one(&self, repo: &dyn Repo, g: &G, ids: &Ids, case: &Case) -> Option<CaseInfo> {
        let st = self.st;
        st.cases.inc();
        if case.skip.is_empty() { st.noskip_cases.inc() } else { st.skip_cases.inc() }
        match check_case(repo, g, ids, case) {
            Ok(info) => {
                st.questions.add(info.questions as u64);
                if info.questions >= 1 {
                    st.nontrivial.inc();
                }
                if case.skip.is_empty() {
                    if info.minimal >= 2 {
                        st.multi_minimal.inc();
                        st.multi_minimal_full.inc();
                    }
                    if info.linear {
                        st.linear_cases.inc();
                        if case.range.len() >= 4 {
                            st.linear_at_least_4.inc();
                        }
                    }
                    if info.questions >= 2 && info.minimal >= 2 && g.parents.iter().any(|p| p.len() >= 2) {
                        self.samples.offer(|| json!({"case": case, "questions": info.questions, "outcome": "Found(all earliest bad commits)"}));
                    }
                } else {
                    if info.skip_was_asked {
                        st.skip_asked.inc();
                    }
                    if info.despite {
                        st.skip_despite.inc();
                    } else {
                        st.skip_found.inc();
                    }
                }
                Some(info)
            }
            Err(f) => {
                if f.sig == "C37/multi-minimal/subset" {
                    st.multi_minimal.inc();
                    st.multi_minimal_subset.inc();
                    st.nontrivial.inc();
                }
                self.ctx.violation(&f.sig, f.msg, serde_json::to_value(case).unwrap());
                None
            }
        }
    }
}

/// every B with heads(range) <= B <= range that is closed under descendants inside the range
fn bad_sets(g: &G, range: &[usize]) -> Vec<Vec<usize>> {
    let heads = g.heads_of(range);
    let free: Vec<usize> = range.iter().copied().filter(|c| !heads.contains(c)).collect();
    let mut out = vec![];
    for m in 0u32..(1u32 << free.len()) {
        let mut b: Vec<usize> = heads.clone();
        b.extend(bits(m).into_iter().map(|i| free[i]));
        b.sort();
        let up_closed = b.iter().all(|&x| range.iter().all(|&d| !g.is_anc(x, d) || b.contains(&d)));
        if up_closed {
            out.push(b);
        }
    }
    out
}

fn skip_sets(g: &G, range: &[usize]) -> Vec<Vec<usize>> {
    let heads = g.heads_of(range);
    let free: Vec<usize> = range.iter().copied().filter(|c| !heads.contains(c)).collect();
    let mut out = vec![];
    for i in 0..free.len() {
        out.push(vec![free[i]]);
    }
    for i in 0..free.len() {
        for j in i + 1..free.len() {
            out.push(vec![free[i], free[j]]);
        }
    }
    out
}

fn run_graph(run: &Run, spec: &[Vec<usize>], with_skips: bool) {
    let st = run.st;
    let g = G::new(spec);
    let built = build(&g);
    let repo: &ReadonlyRepo = built.repo.as_ref();
    st.graphs.inc();
    let n = g.n;
    // --- every non-empty subset of {root, 1..n} as `commits(..)`
    for m in 1u32..(1u32 << (n + 1)) {
        let range = bits(m);
        st.ranges.inc();
        if g.heads_of(&range).len() >= 2 {
            st.ranges_multi_head.inc();
        }
        if !g.is_convex(&range) {
            st.ranges_nonconvex.inc();
        }
        if range.iter().any(|&c| g.parents[c].iter().filter(|p| range.contains(p)).count() >= 2) {
            st.ranges_with_merge_inside.inc();
        }
        if range.contains(&0) {
            st.ranges_with_root.inc();
        }
        for bad in bad_sets(&g, &range) {
            let case = Case { graph: g.spec(), form: RangeForm::Commits, range: range.clone(), bad: bad.clone(), skip: vec![] };
            run.one(repo, &g, &built.ids, &case);
            if with_skips {
                for skip in skip_sets(&g, &range) {
                    let case = Case { skip, ..case.clone() };
                    run.one(repo, &g, &built.ids, &case);
                }
            }
        }
    }
    // --- the operator forms `x::y` and `::y`
    for y in 0..=n {
        let mut forms = vec![RangeForm::Ancestors(y)];
        for x in 0..=n {
            if x != y && g.is_anc(x, y) {
                forms.push(RangeForm::DagRange(x, y));
            }
        }
        for form in forms {
            let range: Vec<usize> = match &form {
                RangeForm::Ancestors(y) => (0..=n).filter(|&c| g.is_anc(c, *y)).collect(),
                RangeForm::DagRange(x, y) => (0..=n).filter(|&c| g.is_anc(*x, c) && g.is_anc(c, *y)).collect(),
                RangeForm::Commits => unreachable!(),
            };
            match &form {
                RangeForm::Ancestors(_) => st.form_ancestors.inc(),
                _ => st.form_dag_range.inc(),
            }
            for bad in bad_sets(&g, &range) {
                let case = Case { graph: g.spec(), form: form.clone(), range: range.clone(), bad, skip: vec![] };
                run.one(repo, &g, &built.ids, &case);
            }
        }
    }
}

/// Long chains: range = the first `len` commits of a chain (as `commits(..)`), and `::len`
/// (which adds the root); every position of the first bad commit.
fn run_chains(run: &Run, max_len: usize) {
    let spec: Vec<Vec<usize>> = (0..max_len).map(|i| vec![i]).collect();
    let g = G::new(&spec);
    let built = build(&g);
    let repo: &ReadonlyRepo = built.repo.as_ref();
    let jobs: Vec<usize> = (1..=max_len).collect();
    jobs.par_iter().for_each(|&len| {
        for with_root in [false, true] {
            let (form, range): (RangeForm, Vec<usize>) = if with_root {
                (RangeForm::Ancestors(len), (0..=len).collect())
            } else {
                (RangeForm::Commits, (1..=len).collect())
            };
            for first_bad in range.clone() {
                let bad: Vec<usize> = (first_bad..=len).collect();
                let case = Case { graph: g.spec()[..len].to_vec(), form: form.clone(), range: range.clone(), bad, skip: vec![] };
                // the case's graph is the chain prefix; the oracle only needs ancestry among
                // the first `len` nodes, which is the same in `g`
                run.st.chain_cases.inc();
                if let Some(info) = run.one(repo, &g, &built.ids, &case) {
                    let mut mx = run.st.chain_max.lock().unwrap();
                    let e = mx.entry(range.len()).or_insert(0);
                    *e = (*e).max(info.questions);
                }
            }
        }
    });
}

fn replay(case_json: &Value) -> Result<(), Fail> {
    let case: Case = serde_json::from_value(case_json.clone())
        .unwrap_or_else(|e| machinery_failure(&format!("bad replay case: {e}")));
    let g = G::new(&case.graph);
    let built = build(&g);
    check_case(built.repo.as_ref(), &g, &built.ids, &case).map(|_| ())
}

fn main() {
    let ctx = Ctx::from_args("C37", Level::Exploration);
    vcommon::silence_panics();
    if let Some((_sig, case)) = ctx.replay_case() {
        if let Err(f) = replay(&case) {
            ctx.violation(&f.sig, f.msg, case);
        }
        ctx.finish(Coverage { evaluations: 1, ..Default::default() });
    }

    // (n, max parents, with skip sets)
    let plans: Vec<(usize, usize, bool)> = ctx.pick(
        vec![(5, 3, true)],
        vec![(6, 3, true)],
    );
    let chain_len = ctx.pick(64, 256);

    let st = Stats::new();
    let samples = Samples::new(6);
    let run = Run { ctx: &ctx, st: &st, samples: &samples };
    let mut plan_desc = vec![];
    for &(n, max_parents, with_skips) in &plans {
        let before = st.cases.get();
        let t0 = ctx.elapsed_s();
        let specs: Vec<Vec<Vec<usize>>> = all_dags(n, max_parents)
            .into_iter()
            .map(|d| {
                d.parents
                    .iter()
                    .map(|ps| if ps.is_empty() { vec![0] } else { ps.iter().map(|p| p + 1).collect() })
                    .collect()
            })
            .collect();
        specs.par_iter().for_each(|spec| run_graph(&run, spec, with_skips));
        plan_desc.push(json!({
            "commits": n,
            "max_parents": max_parents,
            "graphs": specs.len(),
            "with_skip_sets_up_to_2": with_skips,
            "cases": st.cases.get() - before,
            "wall_s": ((ctx.elapsed_s() - t0) * 10.0).round() / 10.0,
        }));
    }
    let t0 = ctx.elapsed_s();
    run_chains(&run, chain_len);
    let chain_max = st.chain_max.lock().unwrap().clone();
    // the step bound must have been exercised where it differs from a linear scan
    let chain_table: Vec<Value> = chain_max
        .iter()
        .filter(|(len, _)| [2usize, 3, 4, 8, 16, 17, 32, 33, 64, 65, 128, 129, 256, 257].contains(len))
        .map(|(len, q)| json!({"range_size": len, "max_questions": q, "bound": ceil_log2(*len) + 1}))
        .collect();

    if ctx.violation_count() == st.multi_minimal_subset.get() {
        for (name, c) in [
            ("ranges_multi_head", &st.ranges_multi_head),
            ("ranges_nonconvex", &st.ranges_nonconvex),
            ("ranges_with_merge_inside", &st.ranges_with_merge_inside),
            ("ranges_with_root", &st.ranges_with_root),
            ("multi_minimal_full", &st.multi_minimal_full),
            ("linear_at_least_4", &st.linear_at_least_4),
            ("skip_asked", &st.skip_asked),
            ("skip_despite", &st.skip_despite),
            ("chain_cases", &st.chain_cases),
        ] {
            if c.get() == 0 {
                machinery_failure(&format!("vacuous: counter {name} is zero"));
            }
        }
    }

    let mut extra: BTreeMap<String, Value> = BTreeMap::new();
    extra.insert("plans".into(), json!(plan_desc));
    extra.insert("graphs_built".into(), json!(st.graphs.get()));
    extra.insert("cases_without_skips".into(), json!(st.noskip_cases.get()));
    extra.insert("cases_with_skips".into(), json!(st.skip_cases.get()));
    extra.insert("questions_asked_total".into(), json!(st.questions.get()));
    extra.insert("ranges_as_commit_sets".into(), json!(st.ranges.get()));
    extra.insert("ranges_with_two_or_more_heads".into(), json!(st.ranges_multi_head.get()));
    extra.insert("ranges_not_convex".into(), json!(st.ranges_nonconvex.get()));
    extra.insert("ranges_containing_a_merge_of_two_range_commits".into(), json!(st.ranges_with_merge_inside.get()));
    extra.insert("ranges_containing_the_root".into(), json!(st.ranges_with_root.get()));
    extra.insert("ranges_in_dag_range_form".into(), json!(st.form_dag_range.get()));
    extra.insert("ranges_in_ancestors_form".into(), json!(st.form_ancestors.get()));
    extra.insert(
        "cases_with_two_or_more_earliest_bad_commits".into(),
        json!({
            "total": st.multi_minimal.get(),
            "all_reported": st.multi_minimal_full.get(),
            "strict_subset_reported (C37/multi-minimal/subset)": st.multi_minimal_subset.get(),
        }),
    );
    extra.insert("linear_range_cases".into(), json!(st.linear_cases.get()));
    extra.insert("linear_range_cases_with_4_or_more_commits".into(), json!(st.linear_at_least_4.get()));
    extra.insert(
        "skip_cases".into(),
        json!({
            "a_skipped_commit_was_actually_asked": st.skip_asked.get(),
            "FoundDespiteSkips": st.skip_despite.get(),
            "Found_or_Indeterminate": st.skip_found.get(),
        }),
    );
    extra.insert(
        "chain_family".into(),
        json!({
            "max_chain_length": chain_len,
            "cases": st.chain_cases.get(),
            "wall_s": ((ctx.elapsed_s() - t0) * 10.0).round() / 10.0,
            "max_questions_by_range_size": chain_table,
        }),
    );

    let cov = Coverage {
        evaluations: st.cases.get(),
        distinct_nontrivial: st.nontrivial.get(),
        rule: "case = (commit graph [every DAG on n commits with <= max_parents parents, built in a real repository], \
               input range [every non-empty subset of {root, 1..n} as commits(..); every x::y and ::y in operator \
               form], bad set [every subset of the range that contains the range's heads and is closed under \
               descendants inside the range], skip set [empty; in the plans that say so also every set of 1-2 \
               non-head range commits]) + chain family (range = first L commits of a chain, with and without the \
               root, every position of the first bad commit); each case is generated once and drives the real \
               Bisector to completion; non-trivial = the bisector asked at least one question"
            .into(),
        samples: samples.take(),
        exhaustive: true,
        extra,
        assumptions: vec![
            "an outcome is consistent with history iff the bad set is closed under descendants inside the range; the range's heads are bad (Bisector::new assumes it), commits outside the range are never asked about".into(),
            "earliest bad commits = the minimal elements (by ancestry in the whole graph) of the bad set".into(),
            "linear range = range totally ordered by ancestry; 'about log2' is taken as ceil(log2 |range|) + 1 questions".into(),
            "with skips only the weaker no-false-result clause is demanded (reported commits are bad and have no bad, unskipped parent inside the range)".into(),
            "the range expression is first evaluated by the real revset engine and must denote the intended set (revset semantics are C19's subject)".into(),
        ],
        ..Default::default()
    };
    ctx.finish(cov);
}

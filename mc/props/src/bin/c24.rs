//! C24 — checkout writes the tree and an immediate snapshot sees no change.
//!
//! Every sequence of checkouts of length <= k over an alphabet of 16 trees (plain files,
//! executables, symlinks, nested directories, file <-> directory and file <-> symlink
//! replacements at the same name, binary / empty / no-final-newline contents, and seven
//! conflicted trees: content conflict, modify/delete, add/add with differing exec bits,
//! file-vs-symlink, conflict below a directory, file-vs-directory, exec-bit-only), under every
//! combination of `working-copy.eol-conversion`, `working-copy.exec-bit-change` and
//! `ui.conflict-marker-style` of the tier, is executed on a real `LocalWorkingCopy` (fresh
//! TestWorkspace per sequence, Simple backend, tmpfs) through `Workspace::check_out`.
//!
//! Oracle after a checkout of tree T (reference = a plain map path -> entry per tree):
//!  1. the directory walk of the workspace equals the rendering of T: file bytes (LF -> CRLF under
//!     `input-output` unless binary), mode 0755/0644 (all 0644 under `ignore`), link targets,
//!     one marker file per conflicted path (bytes = `materialize_merge_result_to_bytes` for the
//!     configured style and the marker length jj documents, C05/C06's subject, then the same
//!     EOL rule; `describe()` text for non-file conflicts), no other files, no left-over
//!     directories;
//!  2. `snapshot()` right away returns a tree with identical ids (and labels), and still does
//!     after every file's mtime was changed (so that the snapshot provably re-reads every file;
//!     which of the two paths an immediate snapshot takes depends on the clock tick otherwise);
//!  3. the disk after a sequence ... -> B equals the disk after checking out B in a new
//!     workspace (entries, bytes, modes, targets, directories).
//!
//! Two variants per sequence: with the snapshots of clause 2 after every checkout (what every
//! jj command does), and with checkouts back to back and the snapshots only at the end.

use std::collections::BTreeMap;
use std::collections::BTreeSet;
use std::collections::HashSet;
use std::ffi::CString;
use std::os::unix::ffi::OsStrExt as _;
use std::os::unix::fs::PermissionsExt as _;
use std::path::Path;
use std::sync::Mutex;

use jj_lib::backend::TreeValue;
use jj_lib::commit::Commit;
use jj_lib::config::ConfigLayer;
use jj_lib::config::ConfigSource;
use jj_lib::conflict_labels::ConflictLabels;
use jj_lib::conflicts::ConflictMarkerStyle;
use jj_lib::conflicts::ConflictMaterializeOptions;
use jj_lib::conflicts::MaterializedTreeValue;
use jj_lib::conflicts::choose_materialized_conflict_marker_len;
use jj_lib::conflicts::materialize_merge_result_to_bytes;
use jj_lib::conflicts::materialize_tree_value;
use jj_lib::local_working_copy::LocalWorkingCopy;
use jj_lib::merge::Merge;
use jj_lib::merged_tree::MergedTree;
use jj_lib::repo::Repo as _;
use jj_lib::settings::UserSettings;
use jj_lib::store::Store;
use pollster::FutureExt as _;
use rayon::prelude::*;
use serde_json::Value;
use serde_json::json;
use std::sync::Arc;
use testutils::TestRepoBackend;
use testutils::TestTreeBuilder;
use testutils::TestWorkspace;
use testutils::commit_with_tree;
use testutils::repo_path;
use vcommon::Counter;
use vcommon::Coverage;
use vcommon::Ctx;
use vcommon::Level;
use vcommon::Samples;
use vcommon::catch;
use vcommon::enumerate::odometer;
use vcommon::machinery_failure;

// ---------------------------------------------------------------------------------------
// tree alphabet

#[derive(Clone, Debug, PartialEq, Eq)]
enum E {
    /// regular file: content, executable
    F(&'static str, bool),
    /// symlink
    L(&'static str),
}

struct TreeSpec {
    name: &'static str,
    /// 1 term (resolved) or 3 terms (side, base, side)
    terms: Vec<Vec<(&'static str, E)>>,
    /// paths expected to stay conflicted after `MergedTree::resolve()`
    conflicted: Vec<&'static str>,
}

fn f(c: &'static str) -> E {
    E::F(c, false)
}
fn fx(c: &'static str) -> E {
    E::F(c, true)
}

fn tree_alphabet() -> Vec<TreeSpec> {
    let t = |name, entries: Vec<(&'static str, E)>| TreeSpec { name, terms: vec![entries], conflicted: vec![] };
    let c = |name, a: Vec<(&'static str, E)>, o: Vec<(&'static str, E)>, b: Vec<(&'static str, E)>, conflicted: Vec<&'static str>| TreeSpec {
        name,
        terms: vec![a, o, b],
        conflicted,
    };
    vec![
        t("empty", vec![]),
        t("a1", vec![("a", f("1\n"))]),
        t("a2", vec![("a", f("2\n"))]),
        t("a1-exec", vec![("a", fx("1\n"))]),
        t("a-symlink", vec![("a", E::L("d"))]),
        t("d-file", vec![("d", f("file\n"))]),
        t("d-dir", vec![("d/c", f("1\n"))]),
        t(
            "nested",
            vec![
                ("a", f("1\nno final newline")),
                ("d/c", fx("2\n")),
                ("d/e/f", f("bin\0\n")),
                ("e", f("")),
                ("l", E::L("d/c")),
            ],
        ),
        t("d-symlink", vec![("a", f("2\n")), ("d", E::L("a"))]),
        c(
            "conflict-content",
            vec![("a", f("x\nA\ny\n")), ("d/c", f("1\n"))],
            vec![("a", f("x\nO\ny\n")), ("d/c", f("1\n"))],
            vec![("a", f("x\nB\ny\n")), ("d/c", f("1\n"))],
            vec!["a"],
        ),
        c("conflict-modify-delete", vec![("a", f("x\nA\n"))], vec![("a", f("x\nO\n"))], vec![], vec!["a"]),
        c("conflict-add-add-exec", vec![("a", fx("A\n"))], vec![], vec![("a", f("B\n"))], vec!["a"]),
        c("conflict-file-symlink", vec![("a", f("A\n"))], vec![], vec![("a", E::L("d"))], vec!["a"]),
        c("conflict-in-dir", vec![("d/c", fx("A\n"))], vec![("d/c", fx("O\n"))], vec![("d/c", fx("B\n"))], vec!["d/c"]),
        c("conflict-file-dir", vec![("d", f("file\n"))], vec![], vec![("d/c", f("1\n"))], vec!["d"]),
        c("conflict-exec-only", vec![("a", fx("1\n"))], vec![], vec![("a", f("1\n"))], vec!["a"]),
    ]
}

// ---------------------------------------------------------------------------------------
// configurations

#[derive(Clone, Copy, Debug, PartialEq, Eq)]
struct Cfg {
    eol: &'static str,
    exec: &'static str,
    style: &'static str,
}

impl Cfg {
    fn json(&self) -> Value {
        json!({"working-copy.eol-conversion": self.eol, "working-copy.exec-bit-change": self.exec, "ui.conflict-marker-style": self.style})
    }
    fn from_json(v: &Value) -> Cfg {
        let pick = |key: &str, options: &[&'static str]| -> &'static str {
            let s = v[key].as_str().unwrap_or_else(|| machinery_failure(&format!("replay: missing {key}")));
            options.iter().copied().find(|o| *o == s).unwrap_or_else(|| machinery_failure(&format!("replay: bad {key}")))
        };
        Cfg {
            eol: pick("working-copy.eol-conversion", &["none", "input", "input-output"]),
            exec: pick("working-copy.exec-bit-change", &["respect", "ignore"]),
            style: pick("ui.conflict-marker-style", &["diff", "snapshot", "git", "diff-experimental"]),
        }
    }
    fn style(&self) -> ConflictMarkerStyle {
        match self.style {
            "diff" => ConflictMarkerStyle::Diff,
            "snapshot" => ConflictMarkerStyle::Snapshot,
            "git" => ConflictMarkerStyle::Git,
            "diff-experimental" => ConflictMarkerStyle::DiffExperimental,
            _ => machinery_failure("style"),
        }
    }
    fn settings(&self) -> UserSettings {
        let mut config = testutils::base_user_config();
        let text = format!(
            "working-copy.eol-conversion = \"{}\"\nworking-copy.exec-bit-change = \"{}\"\nui.conflict-marker-style = \"{}\"\n",
            self.eol, self.exec, self.style
        );
        config.add_layer(ConfigLayer::parse(ConfigSource::User, &text).unwrap_or_else(|e| machinery_failure(&format!("config: {e}"))));
        UserSettings::from_config(config).unwrap_or_else(|e| machinery_failure(&format!("settings: {e}")))
    }
}

// ---------------------------------------------------------------------------------------
// disk

#[derive(Clone, Debug, PartialEq, Eq, PartialOrd, Ord)]
enum Node {
    File { content: Vec<u8>, exec: bool },
    Link { target: String },
    Dir,
}

fn show_node(n: &Node) -> String {
    match n {
        Node::File { content, exec } => format!("file({:?}{})", String::from_utf8_lossy(content), if *exec { ",x" } else { "" }),
        Node::Link { target } => format!("symlink(->{target})"),
        Node::Dir => "dir".to_string(),
    }
}

type Disk = BTreeMap<String, Node>;

fn show_disk(d: &Disk) -> String {
    let items: Vec<String> = d.iter().map(|(p, n)| format!("{p}={}", show_node(n))).collect();
    format!("{{{}}}", items.join(", "))
}

fn walk(root: &Path) -> Disk {
    fn rec(root: &Path, rel: &str, out: &mut Disk) {
        let dir = if rel.is_empty() { root.to_path_buf() } else { root.join(rel) };
        let rd = std::fs::read_dir(&dir).unwrap_or_else(|e| machinery_failure(&format!("read_dir {}: {e}", dir.display())));
        for e in rd {
            let e = e.unwrap_or_else(|e| machinery_failure(&format!("read_dir entry: {e}")));
            let name = e.file_name().into_string().unwrap_or_else(|_| machinery_failure("non-utf8 name on disk"));
            if rel.is_empty() && name == ".jj" {
                continue;
            }
            let p = if rel.is_empty() { name.clone() } else { format!("{rel}/{name}") };
            let md = std::fs::symlink_metadata(e.path()).unwrap_or_else(|e| machinery_failure(&format!("lstat: {e}")));
            let ft = md.file_type();
            let node = if ft.is_dir() {
                Node::Dir
            } else if ft.is_symlink() {
                let t = std::fs::read_link(e.path()).unwrap_or_else(|e| machinery_failure(&format!("readlink: {e}")));
                Node::Link { target: t.to_str().unwrap_or_else(|| machinery_failure("non-utf8 link")).to_string() }
            } else if ft.is_file() {
                Node::File {
                    content: std::fs::read(e.path()).unwrap_or_else(|e| machinery_failure(&format!("read: {e}"))),
                    exec: md.permissions().mode() & 0o111 != 0,
                }
            } else {
                machinery_failure("special file on disk");
            };
            let is_dir = node == Node::Dir;
            out.insert(p.clone(), node);
            if is_dir {
                rec(root, &p, out);
            }
        }
    }
    let mut out = BTreeMap::new();
    rec(root, "", &mut out);
    out
}

/// Changes the mtime of every file and symlink (not following links) to a fixed time in the
/// past, different from anything jj recorded, so that the next snapshot re-reads all of them.
fn touch_all(root: &Path, disk: &Disk) {
    for (p, n) in disk {
        if *n == Node::Dir {
            continue;
        }
        let full = root.join(p);
        let c = CString::new(full.as_os_str().as_bytes()).unwrap();
        let times = [
            libc::timespec { tv_sec: 1_000_000_000, tv_nsec: 0 },
            libc::timespec { tv_sec: 1_000_000_000, tv_nsec: 0 },
        ];
        // SAFETY: valid C string and a two-element timespec array.
        let rc = unsafe { libc::utimensat(libc::AT_FDCWD, c.as_ptr(), times.as_ptr(), libc::AT_SYMLINK_NOFOLLOW) };
        if rc != 0 {
            machinery_failure(&format!("utimensat {p}: {}", std::io::Error::last_os_error()));
        }
    }
}

// ---------------------------------------------------------------------------------------
// reference rendering

fn is_binary(bytes: &[u8]) -> bool {
    // a NUL byte or a CR that is not followed by LF (no content of the alphabet has a CR)
    bytes.contains(&0) || bytes.windows(2).any(|w| w[0] == b'\r' && w[1] != b'\n') || bytes.last() == Some(&b'\r')
}

/// What checkout writes for stored bytes under the EOL setting.
fn eol_for_disk(cfg: &Cfg, bytes: &[u8]) -> Vec<u8> {
    if cfg.eol != "input-output" || is_binary(bytes) {
        return bytes.to_vec();
    }
    let mut out = Vec::with_capacity(bytes.len() + 8);
    let mut prev = 0u8;
    for &b in bytes {
        if b == b'\n' && prev != b'\r' {
            out.push(b'\r');
        }
        out.push(b);
        prev = b;
    }
    out
}

struct Built {
    tree: MergedTree,
    commit: Commit,
}

fn build_tree(store: &Arc<Store>, spec: &TreeSpec) -> Built {
    let ids: Vec<_> = spec
        .terms
        .iter()
        .map(|entries| {
            let mut b = TestTreeBuilder::new(store.clone());
            for (p, e) in entries {
                match e {
                    E::F(content, exec) => {
                        b.file(repo_path(p), content.as_bytes()).executable(*exec);
                    }
                    E::L(target) => b.symlink(repo_path(p), target),
                }
            }
            b.write_single_tree().id().clone()
        })
        .collect();
    let raw = MergedTree::new(store.clone(), Merge::from_vec(ids), ConflictLabels::unlabeled());
    let tree = raw.resolve().block_on().unwrap_or_else(|e| machinery_failure(&format!("resolve: {e}")));
    // the alphabet's conflicts are real conflicts, everything else resolved
    let conflicted: BTreeSet<String> = tree
        .conflicts()
        .map(|(p, v)| {
            v.unwrap_or_else(|e| machinery_failure(&format!("conflicts: {e}")));
            p.as_internal_file_string().to_string()
        })
        .collect();
    let expected: BTreeSet<String> = spec.conflicted.iter().map(|s| s.to_string()).collect();
    if conflicted != expected {
        machinery_failure(&format!("tree {}: conflicted paths {conflicted:?}, the alphabet expects {expected:?}", spec.name));
    }
    let commit = commit_with_tree(store, tree.clone());
    Built { tree, commit }
}

/// The disk a checkout of the tree must produce.
fn render(store: &Arc<Store>, spec: &TreeSpec, built: &Built, cfg: &Cfg) -> Disk {
    let mut out = Disk::new();
    let add_parents = |out: &mut Disk, p: &str| {
        let mut d = p;
        while let Some((parent, _)) = d.rsplit_once('/') {
            out.insert(parent.to_string(), Node::Dir);
            d = parent;
        }
    };
    if spec.terms.len() == 1 {
        for (p, e) in &spec.terms[0] {
            add_parents(&mut out, p);
            let node = match e {
                E::F(content, exec) => Node::File {
                    content: eol_for_disk(cfg, content.as_bytes()),
                    exec: *exec && cfg.exec == "respect",
                },
                E::L(target) => Node::Link { target: target.to_string() },
            };
            out.insert(p.to_string(), node);
        }
        return out;
    }
    // conflicted tree: paths equal in all terms are plain; the conflicted ones are marker files
    let all_paths: BTreeSet<&str> = spec.terms.iter().flatten().map(|(p, _)| *p).collect();
    for p in all_paths {
        let in_conflict = spec.conflicted.iter().any(|c| *c == p || p.starts_with(&format!("{c}/")));
        if in_conflict {
            continue;
        }
        let vals: Vec<Option<&E>> = spec.terms.iter().map(|t| t.iter().find(|(q, _)| *q == p).map(|(_, e)| e)).collect();
        if !vals.iter().all(|v| *v == vals[0]) {
            machinery_failure(&format!("tree {}: path {p} differs between terms but is not declared conflicted", spec.name));
        }
        add_parents(&mut out, p);
        let node = match vals[0].unwrap() {
            E::F(content, exec) => Node::File { content: eol_for_disk(cfg, content.as_bytes()), exec: *exec && cfg.exec == "respect" },
            E::L(target) => Node::Link { target: target.to_string() },
        };
        out.insert(p.to_string(), node);
    }
    for p in &spec.conflicted {
        add_parents(&mut out, p);
        let path = repo_path(p);
        let value = built.tree.path_value(path).block_on().unwrap_or_else(|e| machinery_failure(&format!("path_value: {e}")));
        if value.is_resolved() {
            machinery_failure("declared conflict is resolved");
        }
        let m = materialize_tree_value(store, path, value, built.tree.labels())
            .block_on()
            .unwrap_or_else(|e| machinery_failure(&format!("materialize_tree_value: {e}")));
        let (bytes, exec): (Vec<u8>, bool) = match m {
            MaterializedTreeValue::FileConflict(file) => {
                let len = choose_materialized_conflict_marker_len(&file.contents);
                let options = ConflictMaterializeOptions { marker_style: cfg.style(), marker_len: Some(len), merge: store.merge_options().clone() };
                let bytes: Vec<u8> = materialize_merge_result_to_bytes(&file.contents, &file.labels, &options).into();
                (bytes, file.executable.unwrap_or(false))
            }
            MaterializedTreeValue::OtherConflict { id, labels } => (id.describe(&labels).into_bytes(), false),
            _ => machinery_failure("conflict materialized as something else"),
        };
        out.insert(p.to_string(), Node::File { content: eol_for_disk(cfg, &bytes), exec: exec && cfg.exec == "respect" });
    }
    out
}

// ---------------------------------------------------------------------------------------
// running one sequence

#[derive(Default)]
struct Tally {
    sequences: Counter,
    checkouts: Counter,
    checkouts_changing_disk: Counter,
    snapshots_immediate: Counter,
    snapshots_after_touch: Counter,
    switch_vs_fresh_comparisons: Counter,
    file_to_dir_switches: Counter,
    dir_to_file_switches: Counter,
    file_symlink_switches: Counter,
    exec_only_switches: Counter,
    conflict_files_written: Counter,
    non_file_conflicts_written: Counter,
    crlf_files_written: Counter,
    exec_files_written: Counter,
    exec_suppressed_by_policy: Counter,
    conflict_to_conflict_switches: Counter,
    dirs_removed: Counter,
}

struct Failure {
    signature: String,
    message: String,
}

fn first_difference(expected: &Disk, actual: &Disk) -> (String, String) {
    let all: BTreeSet<&String> = expected.keys().chain(actual.keys()).collect();
    for p in all {
        let e = expected.get(p);
        let a = actual.get(p);
        if e == a {
            continue;
        }
        let kind = match (e, a) {
            (None, Some(Node::Dir)) => "left-over-directory",
            (None, Some(_)) => "left-over-file",
            (Some(Node::Dir), None) => "missing-directory",
            (Some(_), None) => "missing-file",
            (Some(Node::File { content: ec, exec: ee }), Some(Node::File { content: ac, exec: ae })) => {
                if ec != ac && ee != ae {
                    "content-and-mode"
                } else if ec != ac {
                    "content"
                } else {
                    "mode"
                }
            }
            (Some(Node::Link { .. }), Some(Node::Link { .. })) => "link-target",
            _ => "entry-type",
        };
        return (
            kind.to_string(),
            format!("path {p}: expected {} on disk, found {}", e.map_or("nothing".to_string(), show_node), a.map_or("nothing".to_string(), show_node)),
        );
    }
    machinery_failure("first_difference on equal disks");
}

fn describe_tree_change(store: &Arc<Store>, before: &MergedTree, after: &MergedTree) -> String {
    let render = |t: &MergedTree| -> BTreeMap<String, String> {
        t.entries()
            .map(|(p, v)| {
                let v = v.unwrap_or_else(|e| machinery_failure(&format!("entries: {e}")));
                let s = match v.as_resolved() {
                    Some(Some(TreeValue::File { id, executable, .. })) => {
                        format!("file({:?}{})", String::from_utf8_lossy(&testutils::read_file(store, &p, id)), if *executable { ",x" } else { "" })
                    }
                    Some(Some(TreeValue::Symlink(id))) => format!("symlink(->{})", store.read_symlink(&p, id).block_on().unwrap_or_default()),
                    Some(other) => format!("{other:?}"),
                    None => format!("conflict[{} sides]", v.num_sides()),
                };
                (p.as_internal_file_string().to_string(), s)
            })
            .collect()
    };
    let b = render(before);
    let a = render(after);
    let mut parts = vec![];
    let all: BTreeSet<&String> = b.keys().chain(a.keys()).collect();
    for p in all {
        if b.get(p) != a.get(p) {
            parts.push(format!("{p}: {} -> {}", b.get(p).map_or("absent", |s| s.as_str()), a.get(p).map_or("absent", |s| s.as_str())));
        }
    }
    if parts.is_empty() {
        format!("same path values, tree ids {:?} -> {:?}, labels {:?} -> {:?}", before.tree_ids(), after.tree_ids(), before.labels(), after.labels())
    } else {
        parts.join("; ")
    }
}

struct Outcome {
    /// canonical keys of the states passed through (disk + tree name)
    keys: Vec<String>,
    final_disk: Disk,
}

fn run_sequence(
    alphabet: &[TreeSpec],
    cfg: &Cfg,
    seq: &[usize],
    snapshot_each: bool,
    fresh: Option<&BTreeMap<usize, Disk>>,
    tally: Option<&Tally>,
) -> Result<Outcome, Failure> {
    let mut ws = TestWorkspace::init_with_backend_and_settings(TestRepoBackend::Simple, &cfg.settings());
    let root = ws.workspace.workspace_root().to_path_buf();
    let store = ws.repo.store().clone();
    let op_id = ws.repo.op_id().clone();
    let mut built: BTreeMap<usize, Built> = BTreeMap::new();
    for &i in seq {
        built.entry(i).or_insert_with(|| build_tree(&store, &alphabet[i]));
    }
    let mut keys = vec![];
    let mut prev_disk = Disk::new();
    let mut prev_spec: Option<&TreeSpec> = None;
    if let Some(t) = tally {
        t.sequences.inc();
    }
    for (pos, &i) in seq.iter().enumerate() {
        let spec = &alphabet[i];
        let b = &built[&i];
        let last = pos + 1 == seq.len();
        let ctxt = format!(
            "checkout #{} of tree `{}` (after {})",
            pos + 1,
            spec.name,
            if pos == 0 { "the empty initial state".to_string() } else { format!("`{}`", alphabet[seq[pos - 1]].name) }
        );
        let stats = match catch(|| ws.workspace.check_out(op_id.clone(), None, &b.commit).block_on()) {
            Err(p) => return Err(Failure { signature: format!("C24/checkout/panic/tree={}", spec.name), message: format!("{ctxt}: panic: {p}") }),
            Ok(Err(e)) => {
                let mut chain = format!("{e}");
                let mut src: Option<&dyn std::error::Error> = std::error::Error::source(&e);
                while let Some(s) = src {
                    chain.push_str(&format!(": {s}"));
                    src = s.source();
                }
                let chain = chain.replace(&*root.to_string_lossy(), "<ws>");
                return Err(Failure { signature: format!("C24/checkout/error/tree={}", spec.name), message: format!("{ctxt}: error: {chain}") });
            }
            Ok(Ok(stats)) => stats,
        };
        let expected = render(&store, spec, b, cfg);
        let disk = walk(&root);
        if let Some(t) = tally {
            t.checkouts.inc();
            if disk != prev_disk {
                t.checkouts_changing_disk.inc();
            }
            for (p, n) in &expected {
                match (prev_disk.get(p), n) {
                    (Some(Node::File { .. } | Node::Link { .. }), Node::Dir) => t.file_to_dir_switches.inc(),
                    (Some(Node::Dir), Node::File { .. } | Node::Link { .. }) => t.dir_to_file_switches.inc(),
                    (Some(Node::File { .. }), Node::Link { .. }) | (Some(Node::Link { .. }), Node::File { .. }) => t.file_symlink_switches.inc(),
                    (Some(Node::File { content: c1, exec: e1 }), Node::File { content: c2, exec: e2 }) if c1 == c2 && e1 != e2 => t.exec_only_switches.inc(),
                    _ => {}
                }
                if let Node::File { content, exec } = n {
                    if *exec {
                        t.exec_files_written.inc();
                    }
                    if content.windows(2).any(|w| w == b"\r\n") {
                        t.crlf_files_written.inc();
                    }
                }
            }
            for (p, n) in &prev_disk {
                if *n == Node::Dir && !expected.contains_key(p) {
                    t.dirs_removed.inc();
                }
            }
            for p in &spec.conflicted {
                let is_file_conflict = spec.terms.iter().all(|term| {
                    !term.iter().any(|(q, e)| (*q == *p && matches!(e, E::L(_))) || q.starts_with(&format!("{p}/")))
                });
                if is_file_conflict {
                    t.conflict_files_written.inc();
                } else {
                    t.non_file_conflicts_written.inc();
                }
            }
            if cfg.exec == "ignore" && spec.terms.iter().flatten().any(|(_, e)| matches!(e, E::F(_, true))) {
                t.exec_suppressed_by_policy.inc();
            }
            if let Some(prev) = prev_spec
                && !prev.conflicted.is_empty()
                && !spec.conflicted.is_empty()
            {
                t.conflict_to_conflict_switches.inc();
            }
        }
        if disk != expected {
            let (kind, detail) = first_difference(&expected, &disk);
            return Err(Failure {
                signature: format!("C24/checkout/disk/{kind}/tree={}", spec.name),
                message: format!("{ctxt}: {detail}\n  expected disk {}\n  actual disk   {}\n  checkout stats {stats:?}", show_disk(&expected), show_disk(&disk)),
            });
        }
        if stats.skipped_files != 0 {
            return Err(Failure {
                signature: format!("C24/checkout/skipped-files/tree={}", spec.name),
                message: format!("{ctxt}: {stats:?} although nothing untracked was in the way"),
            });
        }
        let wc_tree = ws.workspace.working_copy().tree().unwrap_or_else(|e| machinery_failure(&format!("wc tree: {e}"))).clone();
        if wc_tree.tree_ids_and_labels() != b.tree.tree_ids_and_labels() {
            return Err(Failure {
                signature: format!("C24/checkout/recorded-tree/tree={}", spec.name),
                message: format!("{ctxt}: the working copy records tree {:?}, not the checked-out {:?}", wc_tree.tree_ids(), b.tree.tree_ids()),
            });
        }
        let wc: &LocalWorkingCopy = ws.workspace.working_copy().downcast_ref().unwrap_or_else(|| machinery_failure("not a LocalWorkingCopy"));
        let state_paths: BTreeSet<String> =
            wc.file_states().unwrap_or_else(|e| machinery_failure(&format!("file_states: {e}"))).paths().map(|p| p.as_internal_file_string().to_string()).collect();
        let file_paths: BTreeSet<String> = expected.iter().filter(|(_, n)| **n != Node::Dir).map(|(p, _)| p.clone()).collect();
        if state_paths != file_paths {
            return Err(Failure {
                signature: format!("C24/checkout/file-states/tree={}", spec.name),
                message: format!("{ctxt}: tracked file states {state_paths:?} differ from the files of the tree {file_paths:?}"),
            });
        }
        keys.push(format!("{}|{}|{}", spec.name, show_disk(&disk), if snapshot_each || last { "snap" } else { "nosnap" }));
        if snapshot_each || last {
            for (phase, touch) in [("immediate", false), ("after-touch", true)] {
                if touch {
                    touch_all(&root, &disk);
                }
                let snap = match catch(|| ws.snapshot()) {
                    Err(p) => {
                        return Err(Failure { signature: format!("C24/snapshot-{phase}/panic/tree={}", spec.name), message: format!("{ctxt}: snapshot panicked: {p}") });
                    }
                    Ok(Err(e)) => {
                        return Err(Failure { signature: format!("C24/snapshot-{phase}/error/tree={}", spec.name), message: format!("{ctxt}: snapshot failed: {e}") });
                    }
                    Ok(Ok(t)) => t,
                };
                if let Some(t) = tally {
                    if touch { t.snapshots_after_touch.inc() } else { t.snapshots_immediate.inc() }
                }
                if snap.tree_ids_and_labels() != b.tree.tree_ids_and_labels() {
                    let what = if snap.tree_ids() != b.tree.tree_ids() { "tree-changed" } else { "labels-changed" };
                    return Err(Failure {
                        signature: format!("C24/snapshot-{phase}/{what}/tree={}", spec.name),
                        message: format!(
                            "{ctxt}: the snapshot ({phase}) does not return the checked-out tree: {}\n  disk {}",
                            describe_tree_change(&store, &b.tree, &snap),
                            show_disk(&disk)
                        ),
                    });
                }
                let after = walk(&root);
                if after != disk {
                    let (kind, detail) = first_difference(&disk, &after);
                    return Err(Failure {
                        signature: format!("C24/snapshot-{phase}/disk-modified/{kind}/tree={}", spec.name),
                        message: format!("{ctxt}: the snapshot changed the disk: {detail}"),
                    });
                }
            }
        }
        if let Some(fresh) = fresh
            && pos > 0
        {
            let Some(fd) = fresh.get(&i) else { machinery_failure("no fresh disk for tree") };
            if let Some(t) = tally {
                t.switch_vs_fresh_comparisons.inc();
            }
            if *fd != disk {
                let (kind, detail) = first_difference(fd, &disk);
                return Err(Failure {
                    signature: format!("C24/switch-vs-fresh/{kind}/tree={}", spec.name),
                    message: format!("{ctxt}: the disk differs from a fresh checkout of the same tree: {detail} (expected = fresh)"),
                });
            }
        }
        prev_disk = disk;
        prev_spec = Some(spec);
    }
    Ok(Outcome { keys, final_disk: prev_disk })
}

fn case_json(alphabet: &[TreeSpec], cfg: &Cfg, seq: &[usize], snapshot_each: bool) -> Value {
    json!({
        "config": cfg.json(),
        "checkout_sequence": seq.iter().map(|i| alphabet[*i].name).collect::<Vec<_>>(),
        "trees": seq.iter().collect::<BTreeSet<_>>().iter().map(|i| {
            let s = &alphabet[**i];
            json!({"name": s.name, "terms": s.terms.iter().map(|t| t.iter().map(|(p, e)| match e {
                E::F(c, x) => json!({"path": p, "file": c, "executable": x}),
                E::L(t) => json!({"path": p, "symlink": t}),
            }).collect::<Vec<_>>()).collect::<Vec<_>>()})
        }).collect::<Vec<_>>(),
        "snapshots_after_every_checkout": snapshot_each,
    })
}

fn main() {
    let ctx = Ctx::from_args("C24", Level::ModelChecking);
    vcommon::silence_panics();
    let alphabet = tree_alphabet();
    let n = alphabet.len();

    if let Some((_sig, case)) = ctx.replay_case() {
        let cfg = Cfg::from_json(&case["config"]);
        let seq: Vec<usize> = case["checkout_sequence"]
            .as_array()
            .unwrap_or_else(|| machinery_failure("replay: no sequence"))
            .iter()
            .map(|v| {
                let name = v.as_str().unwrap_or("");
                alphabet.iter().position(|s| s.name == name).unwrap_or_else(|| machinery_failure(&format!("replay: unknown tree {name}")))
            })
            .collect();
        let snapshot_each = case["snapshots_after_every_checkout"].as_bool().unwrap_or(true);
        // fresh disks of the trees involved
        let mut fresh = BTreeMap::new();
        for &i in &seq {
            if let Ok(o) = run_sequence(&alphabet, &cfg, &[i], true, None, None) {
                fresh.insert(i, o.final_disk);
            }
        }
        let fresh_opt = (fresh.len() == seq.iter().collect::<BTreeSet<_>>().len()).then_some(&fresh);
        match run_sequence(&alphabet, &cfg, &seq, snapshot_each, fresh_opt, None) {
            Ok(_) => println!("replay: the case passes"),
            Err(f) => ctx.violation(&f.signature, f.message, case.clone()),
        }
        ctx.finish(Coverage { evaluations: 1, ..Default::default() });
    }

    let all_eol = ["none", "input", "input-output"];
    let all_exec = ["respect", "ignore"];
    // (configs, sequence length, variants)
    // (configs, max sequence length, variants, tree subset)
    let mut plans: Vec<(Vec<Cfg>, usize, Vec<bool>, Vec<usize>)> = vec![];
    let all_trees: Vec<usize> = (0..n).collect();
    let by_name = |names: &[&str]| -> Vec<usize> {
        names.iter().map(|nm| alphabet.iter().position(|s| s.name == *nm).unwrap_or_else(|| machinery_failure("unknown tree name"))).collect()
    };
    let mut configs_k2 = vec![];
    for eol in all_eol {
        for exec in all_exec {
            configs_k2.push(Cfg { eol, exec, style: "diff" });
        }
    }
    configs_k2.push(Cfg { eol: "none", exec: "respect", style: "snapshot" });
    configs_k2.push(Cfg { eol: "input-output", exec: "respect", style: "git" });
    let mut all_configs = vec![];
    for eol in all_eol {
        for exec in all_exec {
            for style in ["diff", "snapshot", "git"] {
                all_configs.push(Cfg { eol, exec, style });
            }
        }
    }
    if ctx.quick() {
        plans.push((configs_k2.clone(), 2, vec![true, false], all_trees.clone()));
        let sub = by_name(&["empty", "a1", "a1-exec", "a-symlink", "d-file", "d-dir", "d-symlink", "conflict-content", "conflict-in-dir", "conflict-file-dir"]);
        plans.push((vec![Cfg { eol: "none", exec: "respect", style: "diff" }], 3, vec![true], sub));
    } else {
        plans.push((all_configs.clone(), 2, vec![true, false], all_trees.clone()));
        plans.push((configs_k2[..6].to_vec(), 3, vec![true, false], all_trees.clone()));
        plans.push((
            vec![
                Cfg { eol: "none", exec: "respect", style: "snapshot" },
                Cfg { eol: "none", exec: "respect", style: "git" },
                Cfg { eol: "input-output", exec: "respect", style: "snapshot" },
                Cfg { eol: "input-output", exec: "respect", style: "git" },
            ],
            3,
            vec![true],
            all_trees.clone(),
        ));
        let sub = by_name(&["empty", "a1", "a1-exec", "a-symlink", "d-file", "d-dir", "d-symlink", "conflict-content", "conflict-in-dir", "conflict-file-dir"]);
        plans.push((vec![Cfg { eol: "input-output", exec: "respect", style: "diff" }], 4, vec![true], sub));
    }
    let wall_cap_s = 1500.0;
    let mut capped = false;

    let tally = Tally::default();
    let samples = Samples::new(6);
    let states: Mutex<HashSet<String>> = Mutex::new(HashSet::new());
    let mut plan_reports = vec![];
    let mut total_sequences = 0u64;
    for (configs, k, variants, trees) in &plans {
        let mut count = 0u64;
        for cfg in configs {
            if ctx.elapsed_s() > wall_cap_s {
                capped = true;
                break;
            }
            // fresh checkouts of every tree (also the length-1 sequences)
            let fresh_results: Vec<(usize, Result<Outcome, Failure>)> =
                trees.par_iter().map(|&i| (i, run_sequence(&alphabet, cfg, &[i], true, None, Some(&tally)))).collect();
            let mut fresh = BTreeMap::new();
            for (i, r) in fresh_results {
                count += 1;
                match r {
                    Ok(o) => {
                        states.lock().unwrap().extend(o.keys.iter().map(|k| format!("{cfg:?}|{k}")));
                        fresh.insert(i, o.final_disk);
                    }
                    Err(f) => ctx.violation(&f.signature, f.message, case_json(&alphabet, cfg, &[i], true)),
                }
            }
            // two fresh checkouts of the same tree agree (determinism gate for clause 3)
            let gate_tree = trees[trees.len() / 2];
            if let Some(d) = fresh.get(&gate_tree) {
                match run_sequence(&alphabet, cfg, &[gate_tree], true, None, None) {
                    Ok(o) if o.final_disk == *d => {}
                    Ok(_) => machinery_failure("two fresh checkouts of the same tree gave different disks"),
                    Err(_) => machinery_failure("a fresh checkout that passed now fails"),
                }
            }
            for len in 2..=*k {
                let mut seqs: Vec<Vec<usize>> = vec![];
                odometer(&vec![trees.len(); len], |t| {
                    seqs.push(t.iter().map(|j| trees[*j]).collect());
                    true
                });
                for &snapshot_each in variants {
                    count += seqs.len() as u64;
                    seqs.par_iter().for_each(|seq| {
                        // sequences through a tree whose fresh checkout already fails are reported there
                        if seq.iter().any(|i| !fresh.contains_key(i)) {
                            return;
                        }
                        match run_sequence(&alphabet, cfg, seq, snapshot_each, Some(&fresh), Some(&tally)) {
                            Ok(o) => {
                                let mut st = states.lock().unwrap();
                                for k in &o.keys {
                                    let key = format!("{cfg:?}|{k}");
                                    if !st.contains(&key) {
                                        st.insert(key);
                                    }
                                }
                                drop(st);
                                if seq.len() >= 2 && seq[0] != seq[1] && !alphabet[seq[1]].conflicted.is_empty() {
                                    samples.offer(|| case_json(&alphabet, cfg, seq, snapshot_each));
                                }
                            }
                            Err(f) => ctx.violation(&f.signature, f.message, case_json(&alphabet, cfg, seq, snapshot_each)),
                        }
                    });
                }
            }
        }
        total_sequences += count;
        plan_reports.push(json!({
            "configs": configs.iter().map(|c| c.json()).collect::<Vec<_>>(),
            "max_sequence_length": k,
            "trees": trees.iter().map(|i| alphabet[*i].name).collect::<Vec<_>>(),
            "variants_snapshots_after_every_checkout": variants,
            "sequences": count,
            "cut_short_by_wall_clock_cap": capped,
        }));
    }

    let t = &tally;
    let counters = json!({
        "sequences_run": t.sequences.get(),
        "checkouts": t.checkouts.get(),
        "checkouts_changing_the_disk": t.checkouts_changing_disk.get(),
        "immediate_snapshots_compared": t.snapshots_immediate.get(),
        "snapshots_after_touching_every_mtime_compared": t.snapshots_after_touch.get(),
        "switch_vs_fresh_disk_comparisons": t.switch_vs_fresh_comparisons.get(),
        "path_switches_file_or_symlink_to_directory": t.file_to_dir_switches.get(),
        "path_switches_directory_to_file_or_symlink": t.dir_to_file_switches.get(),
        "path_switches_file_symlink": t.file_symlink_switches.get(),
        "path_switches_exec_bit_only": t.exec_only_switches.get(),
        "file_conflicts_materialized": t.conflict_files_written.get(),
        "non_file_conflicts_materialized": t.non_file_conflicts_written.get(),
        "files_written_with_crlf": t.crlf_files_written.get(),
        "executable_files_written": t.exec_files_written.get(),
        "checkouts_of_trees_with_exec_files_under_policy_ignore": t.exec_suppressed_by_policy.get(),
        "conflicted_to_conflicted_switches": t.conflict_to_conflict_switches.get(),
        "directories_removed_by_checkouts": t.dirs_removed.get(),
    });
    if ctx.violation_count() == 0 {
        for (what, c) in [
            ("file -> directory switch", &t.file_to_dir_switches),
            ("directory -> file switch", &t.dir_to_file_switches),
            ("file <-> symlink switch", &t.file_symlink_switches),
            ("exec-bit-only switch", &t.exec_only_switches),
            ("materialized file conflict", &t.conflict_files_written),
            ("materialized non-file conflict", &t.non_file_conflicts_written),
            ("CRLF file", &t.crlf_files_written),
            ("exec file under policy ignore", &t.exec_suppressed_by_policy),
            ("conflict -> conflict switch", &t.conflict_to_conflict_switches),
            ("removed directory", &t.dirs_removed),
        ] {
            if c.get() == 0 {
                machinery_failure(&format!("vacuous: no {what}"));
            }
        }
    }
    let n_states = states.lock().unwrap().len() as u64;
    let mut extra: BTreeMap<String, Value> = BTreeMap::new();
    extra.insert("plans".into(), json!(plan_reports));
    extra.insert("tree_alphabet".into(), json!(alphabet.iter().map(|s| s.name).collect::<Vec<_>>()));
    extra.insert("oracle_counters".into(), counters);
    extra.insert("sequences_enumerated".into(), json!(total_sequences));
    extra.insert("wall_clock_cap_s".into(), json!(wall_cap_s));
    ctx.finish(Coverage {
        evaluations: t.checkouts.get(),
        distinct_nontrivial: t.checkouts_changing_disk.get(),
        rule: "evaluations = checkouts executed and judged (disk vs rendering; snapshots; switch vs fresh); \
               non-trivial = checkouts after which the disk differs from the disk before"
            .into(),
        samples: samples.take(),
        exhaustive: !capped,
        states: Some(n_states),
        transitions: Some(t.checkouts.get()),
        traces_validated_against_impl: Some(t.checkouts.get()),
        extra,
        assumptions: vec![
            "states = distinct (configuration, checked-out tree, disk, snapshotted-or-not) observed; sequences are enumerated exhaustively without merging states, each in a fresh TestWorkspace (Simple backend, tmpfs)".into(),
            "conflict marker files are compared with jj's own conflicts::materialize_merge_result_to_bytes for the simplified conflict (decided by C05/C06) and MergedTreeValue::describe for non-file conflicts; which paths are conflicted is fixed by the alphabet and checked against MergedTree::resolve (C07)".into(),
            "conflicted trees are normalised with MergedTree::resolve() before being committed, as every jj code path that creates them does".into(),
            "no stored content contains CR, so EOL conversion on snapshot is the exact inverse of the conversion on checkout; sparse patterns = everything; no fsmonitor; nothing untracked is in the way (C25's subject)".into(),
            "under exec-bit policy `ignore` the disk mode is not constrained by the tree; the reference expects 0644 because no file state has an executable bit in these histories".into(),
        ],
        ..Default::default()
    });
}
